/* LD_PRELOAD shim: pins the bytes std's RandomState draws for its hash keys, so that a run with a
 * given VERIF_HASH_SEED is reproducible and different seeds give different HashMap iteration orders. */
#define _GNU_SOURCE
#include <stdlib.h>
#include <string.h>
#include <sys/types.h>
#include <dlfcn.h>
ssize_t getrandom(void *buf, size_t len, unsigned int flags) {
    const char *s = getenv("VERIF_HASH_SEED");
    if (!s) {
        ssize_t (*real)(void *, size_t, unsigned int) = dlsym(RTLD_NEXT, "getrandom");
        return real(buf, len, flags);
    }
    unsigned long long x = strtoull(s, 0, 10) * 0x9E3779B97F4A7C15ULL + 0x1234567ULL;
    unsigned char *p = buf;
    for (size_t i = 0; i < len; i++) { x ^= x << 13; x ^= x >> 7; x ^= x << 17; p[i] = (unsigned char)(x >> 24); }
    return (ssize_t)len;
}
