use cfn_guard::{run_checks, ValidateInput};
use std::io::BufRead;
fn main() {
    let mode = std::env::args().nth(1).unwrap_or("status".into());
    std::panic::set_hook(Box::new(|_| {}));
    for line in std::io::stdin().lock().lines() {
        let line = line.unwrap();
        let mut it = line.splitn(2, '\t');
        let rules = it.next().unwrap().replace("\\n", "\n");
        let doc = it.next().unwrap();
        let r = std::panic::catch_unwind(|| run_checks(ValidateInput{content: doc, file_name:"d"}, ValidateInput{content:&rules, file_name:"r"}, mode != "report"));
        let out = match r {
            Err(_) => "PANIC".to_string(),
            Ok(Err(e)) => format!("ERR({})", e.to_string().chars().take(70).collect::<String>()),
            Ok(Ok(s)) => {
                if mode != "status" { s } else {
                let v: serde_json::Value = serde_json::from_str(&s).unwrap_or(serde_json::Value::Null);
                let mut o = String::new();
                if let Some(ch) = v.get("children").and_then(|c| c.as_array()) {
                    for c in ch { if let Some(rc) = c.get("container").and_then(|c| c.get("RuleCheck")) {
                        o.push_str(&format!("{}={} ", rc["name"].as_str().unwrap_or("?"), rc["status"].as_str().unwrap_or("?")));
                    }}
                }
                o }
            }
        };
        println!("{}\t{}", line, out);
    }
}
