docs=[{"a":1,"l":[{"x":1},{"x":2}]},{"a":2,"l":[{"x":1},{"y":2}]},{"a":1,"l":[]},{"a":1},{"a":"s","l":{"k1":{"x":1},"k2":{"x":3}}},{"a":1,"l":[1,2]}]
cl=["l[*] { x == 1 }","some l[*] { x == 1 }","l[*] { x exists }","l[ x == 1 ] { x == 1 }","l[ x == 9 ] { x == 1 }","l[ x == 9 ] !empty { x == 1 }","l { x == 1 }","l.* { x >= 1 }",
    "some l[*] { x == 1\n x == 2 }","some l[*] { x == 1 or x == 2 }",
    "when a == 1 { l[*].x == 1 }","when l[ x == 9 ].x == 1 { a == 1 }","when a empty { a == 1 }","a == 1 or a empty","a empty or a == 1","a == 2\n a empty",
    "l[ x == 1 ] empty","l[ x == 1 ] !empty","not l[ x == 1 ] empty","l[ x == 9 ] exists","l[ x == 9 ] !exists", "l[ x == 9 ].x empty", "l[*].x empty","l[*].y empty","l[*].y !exists",
   ]
table(cl,docs,width=12)
print()
cl2=["let v = l[*].x\nrule r { %v == 1 }","let v = l[*].x\nrule r { some %v == 1 }","let v = some l[*].x\nrule r { %v >= 1 }","let v = l[ x == 9 ]\nrule r { %v empty }","let v = l[ x == 9 ]\nrule r { %v.x == 1 }",
     "let v = l[ x == 1 ]\nrule r { %v { x == 1 } }","let v = 1\nrule r { a == %v }","let v = 1\nrule r { %v == 1 }","let v = [1,2]\nrule r { a in %v }","let v = l\nrule r { %v[*].x == 1 }","let v = l\nrule r { %v.x == 1 }",
     "rule p { a == 1 }\nrule r { p }","rule p { a == 1 }\nrule r { not p }","rule p when a == 2 { a == 2 }\nrule r { p }","rule p when a == 2 { a == 2 }\nrule r { not p }",
     "rule p { a == 1 }\nrule p { a == 2 }\nrule r {\n p\n}","rule p { a == 2 }\nrule p { a == 1 }\nrule r {\n p\n}","rule p when a == 9 { a == 2 }\nrule p { a == 1 }\nrule r {\n p\n}",
     "rule f(q) { %q == 1 }\nrule r { f(a) }","rule f(q) { %q.x == 1 }\nrule r { f(l[*]) }","rule f(q) { %q == 1 }\nrule r { f(1) }"]
table(cl2,docs,wrap=lambda c:c,width=18)
