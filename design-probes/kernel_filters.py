# Throw-away prototype of Appendix B (clause kernel) to validate the spec against the pinned tree.
import json, subprocess, itertools, re, sys
U=('U',)
def typ(v):
    if v is None: return 'null'
    if isinstance(v,bool): return 'bool'
    if isinstance(v,int): return 'int'
    if isinstance(v,float): return 'float'
    if isinstance(v,str): return 'string'
    if isinstance(v,list): return 'list'
    if isinstance(v,dict): return 'map'
    if isinstance(v,tuple): return v[0]   # ('regex',s) ('range',lo,hi,incl)
BOT='BOT'
def eq(x,y):
    tx,ty=typ(x),typ(y)
    if tx=='string' and ty=='regex': return re.search(y[1],x) is not None
    if tx=='regex' and ty=='string': return re.search(x[1],y) is not None
    if tx=='int' and ty=='range' and typ(y[1])=='int': return within(x,y)
    if tx=='float' and ty=='range' and typ(y[1])=='float': return within(x,y)
    if tx!=ty: return BOT
    if tx in('string','bool','int','float'): return x==y
    if tx=='null': return True
    if tx=='list':
        if len(x)!=len(y): return False
        for a,b in zip(x,y):
            r=eq(a,b)
            if r is BOT: return BOT
            if not r: return False
        return True
    if tx=='map':
        if len(x)!=len(y): return False
        for k,v in x.items():
            if k not in y: return False
            r=eq(v,y[k])
            if r is BOT: return BOT
            if not r: return False
        return True
    return BOT
def within(v,r):
    _,lo,hi,inc=r
    a = lo<=v if inc[0]=='[' else lo<v
    b = v<=hi if inc[1]==']' else v<hi
    return a and b
def member(v,l):  # PartialEq-style membership: incomparable => not member
    for e in l:
        r=eq(v,e)
        if r is True: return True
    return False
def ordc(x,y):
    tx,ty=typ(x),typ(y)
    if tx!=ty or tx not in('int','float','string','null'): return BOT
    if tx=='null': return 0
    if tx=='string':
        a,b=x.encode(),y.encode()
        return (a>b)-(a<b)
    return (x>y)-(x<y)
def sel(parts,ctx):
    cur=[ctx]
    for p in parts:
        nxt=[]
        for c in cur:
            if c is U: nxt.append(U); continue
            k=p[0]
            if k=='key':
                nxt.append(c[p[1]] if isinstance(c,dict) and p[1] in c else U)
            elif k=='star':
                if isinstance(c,dict): nxt.extend(c.values() if c else [U])
                elif isinstance(c,list): nxt.extend(c if c else [U])
                else: nxt.append(c)
            elif k=='all':
                if isinstance(c,list): nxt.extend(c if c else [U])
                else: nxt.append(c)
            elif k=='idx':
                nxt.append(c[p[1]] if isinstance(c,list) and p[1]<len(c) else U)
        cur=nxt
    return cur
def agg(res,some):
    if some: return 'PASS' if any(r is True for r in res) else 'FAIL'
    return 'FAIL' if any(r is not True for r in res) else 'PASS'
def unary(S,op,neg,some):
    if not S: return 'SKIP'
    res=[]
    for v in S:
        if op=='exists': r = v is not U
        elif op=='empty':
            if v is U: r=True
            elif typ(v) in('list','map','string'): r=len(v)==0
            elif typ(v)=='bool': r=False
            else: return 'ERR'
        else:
            r = (v is not U) and typ(v)==op
        res.append(r!=neg)
    return agg(res,some)
def binary(S,op,neg,lit,some):
    if not S: return 'SKIP'
    res=[]
    def flip(r): return r if r is BOT else (r!=neg)
    for v in S:
        if v is U: res.append(False); continue
        if op=='eq':
            if typ(lit)=='list':
                if typ(v) not in('list','map') and len(lit)==1: res.append(flip(eq(v,lit[0])))
                else: res.append(flip(eq(v,lit)))
            else:
                if typ(v)=='list': res.extend(flip(eq(e,lit)) for e in v)
                else: res.append(flip(eq(v,lit)))
        elif op=='in':
            if typ(lit)=='string':
                for e in (v if typ(v)=='list' else [v]):
                    res.append(flip(e in lit) if typ(e)=='string' else BOT)
            elif typ(lit)=='list':
                if typ(v)=='list':
                    if lit and typ(lit[0])=='list':
                        r=member(v,lit)
                        if not neg: res.append(r)
                        else: res.append((not r) and len(v)==0) if r is False else res.append(False)
                    else:
                        sub=all(member(e,lit) for e in v)
                        if not neg: res.append(sub)
                        else:
                            if sub: res.append(False)
                            else: res.append(not any(member(e,lit) for e in v))
                else: res.append(flip(member(v,lit)))
            else:
                if typ(v)=='list': res.append(BOT)
                else: res.append(flip(eq(v,lit)))
        else:
            L=v if typ(v)=='list' else [v]; R=lit if typ(lit)=='list' else [lit]
            for e in L:
                for f in R:
                    c=ordc(e,f)
                    if c is BOT: res.append(BOT)
                    else: res.append({'lt':c<0,'le':c<=0,'gt':c>0,'ge':c>=0}[op])
    return agg(res,some)

# ---- filters
def clause_status(c,ctx):
    S=sel(c[1],ctx)
    if c[0]=='u':
        q=c[1]; op=c[2]; neg=c[3]; some=c[4]
        if op=='empty' and q and q[-1][0]=='filter':
            if not S: return 'FAIL' if neg else 'PASS'
            res=[((v is U) or v is None)!=neg for v in S]
            return agg(res,some)
        return unary(S,op,neg,some)
    return binary(S,c[2],c[3],c[4],c[5])
def cnf_status(cnf,ctx):
    np=nf=0
    for line in cnf:
        lf=0; passed=False
        for c in line:
            st=clause_status(c,ctx)
            if st=='ERR': return 'ERR'
            if st=='PASS': passed=True; break
            if st=='FAIL': lf+=1
        if passed: np+=1
        elif lf: nf+=1
    return 'FAIL' if nf else ('PASS' if np else 'SKIP')
class Err(Exception): pass
_sel0=sel
def sel(parts,ctx):
    cur=[(ctx,False)]   # (value, reached_via_list_wildcard)
    prev=None
    for p in parts:
        nxt=[]
        for c,vl in cur:
            if c is U: nxt.append((U,False)); continue
            k=p[0]
            if k=='filter':
                def keep(e,scope=None):
                    st=cnf_status(p[1],e if scope is None else scope)
                    if st=='ERR': raise Err()
                    return st=='PASS'
                if isinstance(c,list): nxt.extend((e,False) for e in c if keep(e))
                elif isinstance(c,dict):
                    if prev in('star','all'):
                        # QUIRK F16: after a wildcard over a *list* the filter is evaluated against the enclosing context
                        ok = keep(c, ctx) if (vl and QUIRK) else keep(c)
                        nxt.extend([(c,False)] if ok else [])
                    elif prev=='key': nxt.extend((e,False) for e in c.values() if keep(e))
                    else: raise Err()
                else:
                    if prev=='all':
                        ok = keep(c)
                        nxt.extend([(c,False)] if ok else [])
                    else: nxt.append((U,False))
            else:
                r=_sel0([p],c)
                via = k in('star','all') and not (k=='star' and isinstance(c,dict))
                nxt.extend((x,via) for x in r)
        cur=nxt; prev=p[0]
    return [x for x,_ in cur]
QUIRK=True
def top(c,d):
    try: return clause_status(c,d)
    except Err: return 'ERR'
def cl_txt(c):
    some='some ' if c[4 if c[0]=='u' else 5] else ''
    if c[0]=='u': return '%s%s %s%s'%(some,q_txt(c[1]),'!' if c[3] else '',unname[c[2]])
    pos,ng=binname[c[2]]
    return '%s%s %s %s'%(some,q_txt(c[1]),ng if c[3] else pos,lit_txt(c[4]))
def q_txt(parts):
    s=''
    for i,p in enumerate(parts):
        if p[0]=='key': s+=('.' if i else '')+p[1]
        elif p[0]=='star': s+='.*'
        elif p[0]=='all': s+='[*]'
        elif p[0]=='idx': s+='[%d]'%p[1]
        elif p[0]=='filter': s+='[ '+'\\n '.join(' or '.join(cl_txt(c) for c in line) for line in p[1])+' ]'
    return s
def lit_txt(l):
    t=typ(l)
    if t=='regex': return '/%s/'%l[1]
    if t=='range': return 'r%s%s,%s%s'%(l[3][0],l[1],l[2],l[3][1])
    if t=='null': return 'null'
    if t=='bool': return 'true' if l else 'false'
    if t=='string': return '"%s"'%l
    if t=='list': return '['+','.join(lit_txt(x) for x in l)+']'
    if t=='map': return '{'+','.join('%s:%s'%(k,lit_txt(v)) for k,v in l.items())+'}'
    return repr(l)
unname={'exists':'exists','empty':'empty','string':'is_string','list':'is_list','map':'is_struct','bool':'is_bool','int':'is_int','float':'is_float','null':'is_null'}
binname={'eq':('==','!='),'in':('in','not in'),'lt':('<',None),'le':('<=',None),'gt':('>',None),'ge':('>=',None)}
A=[('key','a')]; B=[('key','b')]
f1=('filter',[[('b',B,'eq',False,1,False)]])
f2=('filter',[[('u',A,'exists',False,False)]])
f3=('filter',[[('b',B,'eq',False,1,False),('b',A,'eq',False,"x",False)]])
f4=('filter',[[('b',B,'eq',False,1,False)],[('u',A,'exists',False,False)]])
f5=('filter',[[('u',[('key','b')],'empty',False,False)]])
f6=('filter',[[('b',[('key','b'),('filter',[[('b',A,'ge',False,1,False)]])],'eq',False,1,False)]])  # SKIP-able inner
filters=[f1,f2,f3,f4,f5,f6]
pre=[[],[('star',)],[('all',)],[('key','a')]]
post=[[],[('key','a')],[('key','b')],[('all',)],[('star',)],[('idx',0)]]
queries=[A+p+[f]+q for p in pre for f in filters for q in post]
scal=[1,"x",None]
el=[1,"x",[],{}, {"a":1},{"b":1},{"a":1,"b":1},{"a":"x","b":2},{"b":[1]},{"a":2,"b":1},[{"b":1}], {"a":{"b":1}}, {"b":"s"}]
vals=el+[[x] for x in el]+[[x,y] for x in el[3:9] for y in el[3:9]]+[{"a":x} for x in el[3:]]+[{"a":x,"b":y} for x in el[4:8] for y in el[4:8]]
docs=[{}]+[{"a":v} for v in vals]
lits=[1,"x",[1],[1,2],None]
cases=[]
for q in queries:
    for some in (False,True):
        for op in ['exists','empty','map','int']:
            for neg in (False,True):
                cases.append(('u',q,op,neg,some))
        for op in ['eq','in','ge']:
            for neg in (False,True):
                if neg and binname[op][1] is None: continue
                for l in lits: cases.append(('b',q,op,neg,l,some))
import json,subprocess,sys,threading,collections
print(len(cases),'clauses x',len(docs),'docs',file=sys.stderr)
inp=[];exp=[]
for c in cases:
    t=cl_txt(c)
    for d in docs:
        inp.append('rule r { %s }\t%s'%(t,json.dumps(d))); exp.append(top(c,d))
N=16; chunks=[inp[i::N] for i in range(N)]
procs=[subprocess.Popen(['./target/release/probe','status'],stdin=subprocess.PIPE,stdout=subprocess.PIPE,text=True) for _ in range(N)]
outs=[None]*N
def run(i): outs[i]=procs[i].communicate('\n'.join(chunks[i])+'\n')[0].splitlines()
ts=[threading.Thread(target=run,args=(i,)) for i in range(N)]
[t.start() for t in ts]; [t.join() for t in ts]
got=[None]*len(inp)
for i in range(N):
    for j,l in enumerate(outs[i]):
        f=l.split('\t'); got[i+j*N]=f[2].replace('r=','').strip() if len(f)>2 else '?'
mis={};tot=0
for i,(g,e) in enumerate(zip(got,exp)):
    g2='ERR' if g.startswith('ERR') else g
    if g2!=e:
        tot+=1; mis.setdefault(inp[i].split('\t')[0],[]).append((inp[i].split('\t')[1],e,g))
print('mismatches',tot,'of',len(inp),'in',len(mis),'clauses')
for k in list(mis)[:30]: print(k,'|',mis[k][0],'| n=',len(mis[k]))
print('exp',collections.Counter(exp)); print('got',collections.Counter('ERR' if g.startswith('ERR') else g for g in got))
