import json,sys,subprocess,collections
def table(clauses, docs, wrap=lambda c:"rule r { %s }"%c, width=10):
    inp="".join("%s\t%s\n"%(wrap(c).replace("\n","\\n"),json.dumps(d)) for c in clauses for d in docs)
    out=subprocess.run(["./target/release/probe","status"],input=inp,capture_output=True,text=True).stdout.splitlines()
    i=0
    print(" "*30+" | ".join(json.dumps(d)[:width].ljust(width) for d in docs))
    for c in clauses:
        row=[]
        for d in docs:
            r=out[i].split("\t")[2] if len(out[i].split("\t"))>2 else "?"; i+=1
            r=r.replace("r=","").strip()
            row.append(r[:width].ljust(width))
        print(c.ljust(30)[:30]+" | ".join(row))
if __name__=="__main__":
    exec(open(sys.argv[1]).read())
