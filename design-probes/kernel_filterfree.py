# Throw-away prototype of Appendix B (clause kernel) to validate the spec against the pinned tree.
import json, subprocess, itertools, re, sys
U=('U',)
def typ(v):
    if v is None: return 'null'
    if isinstance(v,bool): return 'bool'
    if isinstance(v,int): return 'int'
    if isinstance(v,float): return 'float'
    if isinstance(v,str): return 'string'
    if isinstance(v,list): return 'list'
    if isinstance(v,dict): return 'map'
    if isinstance(v,tuple): return v[0]   # ('regex',s) ('range',lo,hi,incl)
BOT='BOT'
def eq(x,y):
    tx,ty=typ(x),typ(y)
    if tx=='string' and ty=='regex': return re.search(y[1],x) is not None
    if tx=='regex' and ty=='string': return re.search(x[1],y) is not None
    if tx=='int' and ty=='range' and typ(y[1])=='int': return within(x,y)
    if tx=='float' and ty=='range' and typ(y[1])=='float': return within(x,y)
    if tx!=ty: return BOT
    if tx in('string','bool','int','float'): return x==y
    if tx=='null': return True
    if tx=='list':
        if len(x)!=len(y): return False
        for a,b in zip(x,y):
            r=eq(a,b)
            if r is BOT: return BOT
            if not r: return False
        return True
    if tx=='map':
        if len(x)!=len(y): return False
        for k,v in x.items():
            if k not in y: return False
            r=eq(v,y[k])
            if r is BOT: return BOT
            if not r: return False
        return True
    return BOT
def within(v,r):
    _,lo,hi,inc=r
    a = lo<=v if inc[0]=='[' else lo<v
    b = v<=hi if inc[1]==']' else v<hi
    return a and b
def member(v,l):  # PartialEq-style membership: incomparable => not member
    for e in l:
        r=eq(v,e)
        if r is True: return True
    return False
def ordc(x,y):
    tx,ty=typ(x),typ(y)
    if tx!=ty or tx not in('int','float','string','null'): return BOT
    if tx=='null': return 0
    if tx=='string':
        a,b=x.encode(),y.encode()
        return (a>b)-(a<b)
    return (x>y)-(x<y)
def sel(parts,ctx):
    cur=[ctx]
    for p in parts:
        nxt=[]
        for c in cur:
            if c is U: nxt.append(U); continue
            k=p[0]
            if k=='key':
                nxt.append(c[p[1]] if isinstance(c,dict) and p[1] in c else U)
            elif k=='star':
                if isinstance(c,dict): nxt.extend(c.values() if c else [U])
                elif isinstance(c,list): nxt.extend(c if c else [U])
                else: nxt.append(c)
            elif k=='all':
                if isinstance(c,list): nxt.extend(c if c else [U])
                else: nxt.append(c)
            elif k=='idx':
                nxt.append(c[p[1]] if isinstance(c,list) and p[1]<len(c) else U)
        cur=nxt
    return cur
def agg(res,some):
    if some: return 'PASS' if any(r is True for r in res) else 'FAIL'
    return 'FAIL' if any(r is not True for r in res) else 'PASS'
def unary(S,op,neg,some):
    if not S: return 'SKIP'
    res=[]
    for v in S:
        if op=='exists': r = v is not U
        elif op=='empty':
            if v is U: r=True
            elif typ(v) in('list','map','string'): r=len(v)==0
            elif typ(v)=='bool': r=False
            else: return 'ERR'
        else:
            r = (v is not U) and typ(v)==op
        res.append(r!=neg)
    return agg(res,some)
def binary(S,op,neg,lit,some):
    if not S: return 'SKIP'
    res=[]
    def flip(r): return r if r is BOT else (r!=neg)
    for v in S:
        if v is U: res.append(False); continue
        if op=='eq':
            if typ(lit)=='list':
                if typ(v) not in('list','map') and len(lit)==1: res.append(flip(eq(v,lit[0])))
                else: res.append(flip(eq(v,lit)))
            else:
                if typ(v)=='list': res.extend(flip(eq(e,lit)) for e in v)
                else: res.append(flip(eq(v,lit)))
        elif op=='in':
            if typ(lit)=='string':
                for e in (v if typ(v)=='list' else [v]):
                    res.append(flip(e in lit) if typ(e)=='string' else BOT)
            elif typ(lit)=='list':
                if typ(v)=='list':
                    if lit and typ(lit[0])=='list':
                        r=member(v,lit)
                        if not neg: res.append(r)
                        else: res.append((not r) and len(v)==0) if r is False else res.append(False)
                    else:
                        sub=all(member(e,lit) for e in v)
                        if not neg: res.append(sub)
                        else:
                            if sub: res.append(False)
                            else: res.append(not any(member(e,lit) for e in v))
                else: res.append(flip(member(v,lit)))
            else:
                if typ(v)=='list': res.append(BOT)
                else: res.append(flip(eq(v,lit)))
        else:
            L=v if typ(v)=='list' else [v]; R=lit if typ(lit)=='list' else [lit]
            for e in L:
                for f in R:
                    c=ordc(e,f)
                    if c is BOT: res.append(BOT)
                    else: res.append({'lt':c<0,'le':c<=0,'gt':c>0,'ge':c>=0}[op])
    return agg(res,some)
# ---- universe
def lit_txt(l):
    t=typ(l)
    if t=='regex': return '/%s/'%l[1]
    if t=='range': return 'r%s%s,%s%s'%(l[3][0],l[1],l[2],l[3][1])
    if t=='null': return 'null'
    if t=='bool': return 'true' if l else 'false'
    if t=='string': return '"%s"'%l
    if t=='list': return '['+','.join(lit_txt(x) for x in l)+']'
    if t=='map': return '{'+','.join('%s:%s'%(k,lit_txt(v)) for k,v in l.items())+'}'
    return repr(l)
def q_txt(parts):
    s=''
    for i,p in enumerate(parts):
        if p[0]=='key': s+=('.' if i else '')+p[1]
        elif p[0]=='star': s+='.*'
        elif p[0]=='all': s+='[*]'
        elif p[0]=='idx': s+='[%d]'%p[1]
    return s
scal=[1,2,"x","",True,None,1.5]
v1=scal+[[],[1],[1,2],[2,"x"],["x"],[1,1]]+[{}, {"a":1},{"a":1,"b":"x"},{"b":2}]
w=[1,"x",[],[1],{}, {"a":1},{"a":2},[1,2]]
v2=v1+[[x] for x in w]+[[x,y] for x in w[:5] for y in w[3:]]+[{"a":x} for x in w]+[{"a":x,"b":y} for x in w[:4] for y in w[4:]]
docs=[{}]+[{"a":v} for v in v2]
tails=[[],[('key','a')],[('key','b')],[('star',)],[('all',)],[('idx',0)],[('idx',1)]]
queries=[[('key','a')]+t1+t2 for t1 in tails for t2 in tails if not (t1==[] and t2!=[])]
lits=[1,2,"x",[1,2],[1],[[1],[2]],[[1,2]],[],('range',1,2,'[]'),('range',1,2,'()'),('regex','x'),True,None,1.5,{"a":1},"xyz",[1,"x"],('range',1.0,2.0,'[)')]
unops=['exists','empty','string','list','map','bool','int','float','null']
unname={'exists':'exists','empty':'empty','string':'is_string','list':'is_list','map':'is_struct','bool':'is_bool','int':'is_int','float':'is_float','null':'is_null'}
binname={'eq':('==','!='),'in':('in','not in'),'lt':('<',None),'le':('<=',None),'gt':('>',None),'ge':('>=',None)}
cases=[]
for q in queries:
    for some in (False,True):
        for op in unops:
            for neg in (False,True):
                txt='%s%s %s%s'%('some ' if some else '',q_txt(q),'!' if neg else '',unname[op])
                cases.append((txt,('u',q,op,neg,some)))
        for op,(pos,ng) in binname.items():
            for neg in (False,True):
                if neg and ng is None: continue
                for l in lits:
                    txt='%s%s %s %s'%('some ' if some else '',q_txt(q),ng if neg else pos,lit_txt(l))
                    cases.append((txt,('b',q,op,neg,l,some)))
print(len(cases),'clauses x',len(docs),'docs =',len(cases)*len(docs),file=sys.stderr)
inp=[]; exp=[]
for txt,c in cases:
    for d in docs:
        inp.append('rule r { %s }\t%s'%(txt,json.dumps(d)))
        S=sel(c[1],d)
        if c[0]=='u': e=unary(S,c[2],c[3],c[4])
        else: e=binary(S,c[2],c[3],c[4],c[5])
        exp.append(e)
import os
N=16; chunks=[inp[i::N] for i in range(N)]
procs=[subprocess.Popen(['./target/release/probe','status'],stdin=subprocess.PIPE,stdout=subprocess.PIPE,text=True) for _ in range(N)]
import threading
outs=[None]*N
def run(i): outs[i]=procs[i].communicate('\n'.join(chunks[i])+'\n')[0].splitlines()
ts=[threading.Thread(target=run,args=(i,)) for i in range(N)]
[t.start() for t in ts]; [t.join() for t in ts]
got=[None]*len(inp)
for i in range(N):
    for j,l in enumerate(outs[i]):
        got[i+j*N]=l.split('\t')[2].replace('r=','').strip() if len(l.split('\t'))>2 else '?'
mis={}
tot=0
for i,(g,e) in enumerate(zip(got,exp)):
    g2='ERR' if g.startswith('ERR') else g
    if g2!=e:
        tot+=1
        key=inp[i].split('\t')[0]
        mis.setdefault(key,[]).append((inp[i].split('\t')[1],e,g2))
print('mismatches',tot,'of',len(inp),'in',len(mis),'clauses')
for k in list(mis)[:40]:
    print(k,'|',mis[k][0],'| n=',len(mis[k]))
import collections
print(collections.Counter(exp))
print('got', collections.Counter('ERR' if g.startswith('ERR') else g for g in got))
# sanity: a few specific rows
for i in (0, 1000, 50000, 500001, 900000): print(inp[i], '=>', got[i], exp[i])
