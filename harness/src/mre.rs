//! Mini backtracking regex matcher (the oracle must not call the engine under test).
//! Supports: literals, `.`, `*`, `+`, `?`, `{m}` `{m,}` `{m,n}`, `^`, `$`, `|`, groups, classes, `\d \w \s` and escapes,
//! and a leading `(?i)`. Returns None for syntax it does not know.
#[derive(Debug, Clone)]
enum N {
    Ch(char),
    Any,
    Class(Vec<(char, char)>, bool),
    Start,
    End,
    Group(Vec<Vec<N>>), // alternatives of sequences
    Rep(Box<N>, usize, Option<usize>),
}

struct P<'a> {
    s: &'a [char],
    i: usize,
}

impl<'a> P<'a> {
    fn alts(&mut self) -> Option<Vec<Vec<N>>> {
        let mut alts = vec![self.seq()?];
        while self.i < self.s.len() && self.s[self.i] == '|' {
            self.i += 1;
            alts.push(self.seq()?);
        }
        Some(alts)
    }
    fn seq(&mut self) -> Option<Vec<N>> {
        let mut out = vec![];
        while self.i < self.s.len() {
            let c = self.s[self.i];
            if c == '|' || c == ')' {
                break;
            }
            let atom = self.atom()?;
            let atom = self.quant(atom)?;
            out.push(atom);
        }
        Some(out)
    }
    fn quant(&mut self, a: N) -> Option<N> {
        if self.i >= self.s.len() {
            return Some(a);
        }
        let r = match self.s[self.i] {
            '*' => N::Rep(Box::new(a), 0, None),
            '+' => N::Rep(Box::new(a), 1, None),
            '?' => N::Rep(Box::new(a), 0, Some(1)),
            '{' => {
                // counted repetition {m}, {m,}, {m,n}
                let close = (self.i..self.s.len()).find(|k| self.s[*k] == '}')?;
                let body: String = self.s[self.i + 1..close].iter().collect();
                let (lo, hi) = match body.split_once(',') {
                    None => {
                        let m: usize = body.parse().ok()?;
                        (m, Some(m))
                    }
                    Some((a2, "")) => (a2.parse().ok()?, None),
                    Some((a2, b2)) => (a2.parse().ok()?, Some(b2.parse().ok()?)),
                };
                if hi.map_or(false, |h| h < lo) || lo > 50 {
                    return None;
                }
                self.i = close; // the common tail below steps over '}'
                N::Rep(Box::new(a), lo, hi)
            }
            _ => return Some(a),
        };
        self.i += 1;
        if self.i < self.s.len() && matches!(self.s[self.i], '?' | '+' | '*') {
            return None; // lazy / possessive / stacked quantifiers unsupported
        }
        Some(r)
    }
    fn esc(&mut self) -> Option<N> {
        let c = *self.s.get(self.i)?;
        self.i += 1;
        Some(match c {
            'd' => N::Class(vec![('0', '9')], false),
            'w' => N::Class(vec![('a', 'z'), ('A', 'Z'), ('0', '9'), ('_', '_')], false),
            's' => N::Class(vec![(' ', ' '), ('\t', '\t'), ('\n', '\n'), ('\r', '\r')], false),
            'D' | 'W' | 'S' | 'b' | 'B' | 'A' | 'z' | 'Z' | 'p' | 'P' | 'x' | 'u' | 'k' | 'g' => return None,
            c if c.is_ascii_digit() => return None,
            'n' => N::Ch('\n'),
            't' => N::Ch('\t'),
            c => N::Ch(c),
        })
    }
    fn atom(&mut self) -> Option<N> {
        let c = self.s[self.i];
        self.i += 1;
        Some(match c {
            '.' => N::Any,
            '^' => N::Start,
            '$' => N::End,
            '\\' => self.esc()?,
            '(' => {
                if self.i < self.s.len() && self.s[self.i] == '?' {
                    // only (?:...) supported
                    if self.s.get(self.i + 1) == Some(&':') {
                        self.i += 2;
                    } else {
                        return None;
                    }
                }
                let a = self.alts()?;
                if self.i >= self.s.len() || self.s[self.i] != ')' {
                    return None;
                }
                self.i += 1;
                N::Group(a)
            }
            '[' => {
                let mut neg = false;
                if self.s.get(self.i) == Some(&'^') {
                    neg = true;
                    self.i += 1;
                }
                let mut rs = vec![];
                let mut first = true;
                loop {
                    let c = *self.s.get(self.i)?;
                    if c == ']' && !first {
                        self.i += 1;
                        break;
                    }
                    first = false;
                    self.i += 1;
                    let lo = if c == '\\' {
                        match self.esc()? {
                            N::Ch(x) => x,
                            N::Class(r, false) => {
                                rs.extend(r);
                                continue;
                            }
                            _ => return None,
                        }
                    } else if c == '[' {
                        return None;
                    } else {
                        c
                    };
                    if self.s.get(self.i) == Some(&'-') && self.s.get(self.i + 1).map_or(false, |x| *x != ']') {
                        let hi = self.s[self.i + 1];
                        if hi == '\\' {
                            return None;
                        }
                        self.i += 2;
                        rs.push((lo, hi));
                    } else {
                        rs.push((lo, lo));
                    }
                }
                N::Class(rs, neg)
            }
            '*' | '+' | '?' | '{' | ')' => return None,
            c => N::Ch(c),
        })
    }
}

fn ceq(a: char, b: char, ci: bool) -> bool {
    if ci {
        a.to_lowercase().eq(b.to_lowercase())
    } else {
        a == b
    }
}

fn m_seq(seq: &[N], k: usize, t: &[char], p: usize, ci: bool, cont: &mut dyn FnMut(usize) -> bool) -> bool {
    if k == seq.len() {
        return cont(p);
    }
    match &seq[k] {
        N::Rep(inner, min, max) => m_rep(inner, *min, *max, 0, seq, k, t, p, ci, cont),
        n => m_one(n, t, p, ci, &mut |np| m_seq(seq, k + 1, t, np, ci, cont)),
    }
}

#[allow(clippy::too_many_arguments)]
fn m_rep(inner: &N, min: usize, max: Option<usize>, cnt: usize, seq: &[N], k: usize, t: &[char], p: usize, ci: bool, cont: &mut dyn FnMut(usize) -> bool) -> bool {
    // greedy
    if max.map_or(true, |m| cnt < m) {
        let mut try_more = |np: usize| -> bool {
            if np == p {
                return false; // no progress
            }
            m_rep(inner, min, max, cnt + 1, seq, k, t, np, ci, cont)
        };
        if m_one(inner, t, p, ci, &mut try_more) {
            return true;
        }
    }
    if cnt >= min {
        return m_seq(seq, k + 1, t, p, ci, cont);
    }
    false
}

fn m_one(n: &N, t: &[char], p: usize, ci: bool, cont: &mut dyn FnMut(usize) -> bool) -> bool {
    match n {
        N::Ch(c) => p < t.len() && ceq(*c, t[p], ci) && cont(p + 1),
        N::Any => p < t.len() && t[p] != '\n' && cont(p + 1),
        N::Class(rs, neg) => {
            if p >= t.len() {
                return false;
            }
            let c = t[p];
            let mut hit = rs.iter().any(|(lo, hi)| *lo <= c && c <= *hi);
            if ci && !hit {
                let l: Vec<char> = c.to_lowercase().collect();
                let u: Vec<char> = c.to_uppercase().collect();
                hit = rs.iter().any(|(lo, hi)| (l.len() == 1 && *lo <= l[0] && l[0] <= *hi) || (u.len() == 1 && *lo <= u[0] && u[0] <= *hi));
            }
            (hit != *neg) && cont(p + 1)
        }
        N::Start => p == 0 && cont(p),
        N::End => p == t.len() && cont(p),
        N::Group(alts) => {
            for a in alts {
                if m_seq(a, 0, t, p, ci, cont) {
                    return true;
                }
            }
            false
        }
        N::Rep(inner, min, max) => {
            let single = [N::Rep(inner.clone(), *min, *max)];
            m_seq(&single, 0, t, p, ci, cont)
        }
    }
}

/// leftmost match at or after char offset `from` (greedy, first alternative wins): (start, end) in chars
pub fn find_from(pat: &str, text: &str, from: usize) -> Option<Option<(usize, usize)>> {
    let (ci, body) = if let Some(r) = pat.strip_prefix("(?i)") { (true, r) } else { (false, pat) };
    let chars: Vec<char> = body.chars().collect();
    let mut p = P { s: &chars, i: 0 };
    let alts = p.alts()?;
    if p.i != chars.len() {
        return None;
    }
    let top = N::Group(alts);
    let t: Vec<char> = text.chars().collect();
    for start in from..=t.len() {
        let mut end = None;
        if m_one(&top, &t, start, ci, &mut |e| {
            end = Some(e);
            true
        }) {
            return Some(Some((start, end.unwrap())));
        }
    }
    Some(None)
}

/// unanchored search; None = pattern uses unsupported syntax
pub fn search(pat: &str, text: &str) -> Option<bool> {
    let (ci, body) = if let Some(r) = pat.strip_prefix("(?i)") { (true, r) } else { (false, pat) };
    let chars: Vec<char> = body.chars().collect();
    let mut p = P { s: &chars, i: 0 };
    let alts = p.alts()?;
    if p.i != chars.len() {
        return None;
    }
    let top = N::Group(alts);
    let t: Vec<char> = text.chars().collect();
    for start in 0..=t.len() {
        if m_one(&top, &t, start, ci, &mut |_| true) {
            return Some(true);
        }
    }
    Some(false)
}

#[cfg(test)]
mod tests {
    use super::search;
    #[test]
    fn basics() {
        assert_eq!(search("x", "axb"), Some(true));
        assert_eq!(search("^x", "ax"), Some(false));
        assert_eq!(search("a.c$", "zabc"), Some(true));
        assert_eq!(search("(ab)+c", "ababc"), Some(true));
        assert_eq!(search("[a-c]+\\d", "zzb7"), Some(true));
        assert_eq!(search("(?i)AB", "xab"), Some(true));
        assert_eq!(search("a|b", "c"), Some(false));
        assert_eq!(search("a{2}", "aa"), None);
        assert_eq!(search("", ""), Some(true));
        assert_eq!(search("a*", ""), Some(true));
        assert_eq!(search("^$", "a"), Some(false));
    }
}
