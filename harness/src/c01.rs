//! C01 — rule verdicts equal the documented semantics (DESIGN 5/C01).
use crate::ast::*;
use crate::evidence::Report;
use crate::impl_::{lib_run, Obs, St};
use crate::refsem::{eval_file, Exp, Variant};
use crate::universe::*;
use crate::val::V;
use serde_json::json;
use std::collections::BTreeMap;

pub struct Acc {
    pub traces: u64,
    pub outcomes: BTreeMap<String, u64>,
    pub viols: Vec<crate::evidence::Violation>,
    pub viol_counts: BTreeMap<String, u64>,
    pub panics: u64,
    pub nontrivial: u64,
}
impl Acc {
    pub fn new() -> Acc {
        Acc { traces: 0, outcomes: BTreeMap::new(), viols: vec![], viol_counts: BTreeMap::new(), panics: 0, nontrivial: 0 }
    }
    pub fn merge(mut a: Acc, b: Acc) -> Acc {
        a.traces += b.traces;
        a.panics += b.panics;
        a.nontrivial += b.nontrivial;
        for (k, v) in b.outcomes {
            *a.outcomes.entry(k).or_insert(0) += v;
        }
        for (k, v) in b.viol_counts {
            *a.viol_counts.entry(k).or_insert(0) += v;
        }
        a.viols.extend(b.viols);
        a
    }
    pub fn violate(&mut self, sig: &str, what: String, replay: serde_json::Value) {
        let c = self.viol_counts.entry(sig.to_string()).or_insert(0);
        *c += 1;
        if *c <= 2 {
            self.viols.push(crate::evidence::Violation { signature: sig.to_string(), what, replay });
        }
    }
    pub fn into_report(self, rep: &mut Report) {
        rep.traces += self.traces;
        for (k, v) in self.outcomes {
            rep.outcome(&k, v);
        }
        // keep smallest examples first per signature
        let mut vs = self.viols;
        vs.sort_by_key(|v| v.replay.to_string().len());
        for v in vs {
            let n = rep.viol_counts.entry(v.signature.clone()).or_insert(0);
            if *n < 2 {
                rep.violations.push(v.clone());
            }
            *n += 1;
        }
        for (k, v) in self.viol_counts {
            rep.viol_counts.insert(k, v);
        }
    }
}

pub fn agree(e: &Exp, o: &Obs) -> bool {
    match (e, o) {
        (Exp::Ok(f, rs), Obs::Ok(f2, rs2)) => f == f2 && rs == rs2,
        (Exp::Err(_), Obs::Err(_)) => true,
        _ => false,
    }
}

fn shape_class(c: &Clause) -> String {
    match c {
        Clause::Unary { not, q, op, .. } => format!(
            "unary-{}{}{}",
            op.txt(),
            if *not { "-prefixnot" } else { "" },
            if q.iter().any(|p| matches!(p, Part::Filter(_))) { "-filter" } else { "" }
        ),
        Clause::Binary { not, q, op, .. } => format!(
            "binary-{:?}{}{}",
            op,
            if *not { "-prefixnot" } else { "" },
            if q.iter().any(|p| matches!(p, Part::Filter(_))) { "-filter" } else { "" }
        ),
        _ => "composite".to_string(),
    }
}

/// Compare one (file, doc) state; attribute disagreements to defect variants where they explain them exactly.
pub fn check_state(file: &File, text: &str, doc: &V, doc_json: &str, class: &str, acc: &mut Acc) {
    let exp = eval_file(file, doc, Variant::default());
    let obs = lib_run(text, doc_json);
    acc.traces += 1;
    *acc.outcomes.entry(obs.class().to_string()).or_insert(0) += 1;
    if agree(&exp, &obs) {
        return;
    }
    let replay = json!({"kind": "lib", "rules": text, "data": doc_json, "expected": exp.short(), "observed": obs.short()});
    if let Obs::Panic(p) = &obs {
        acc.panics += 1;
        acc.violate(&format!("panic:{}", class), format!("panic `{}` on rules `{}` data {}", p, text.trim(), doc_json), replay);
        return;
    }
    // known-defect variants: a disagreement is attributed to K iff the model with exactly K's variant
    // enabled predicts the implementation's observation for this state
    for (name, var) in [
        ("F16-filter-after-nonmap-wildcard-uses-enclosing-context", Variant { f16: true, f1: false }),
        ("F1-prefix-not-ignored-on-binary-clause", Variant { f16: false, f1: true }),
    ] {
        let e2 = eval_file(file, doc, var);
        if agree(&e2, &obs) {
            acc.violate(name, format!("rules `{}` data {} expected {} observed {}", text.trim(), doc_json, exp.short(), obs.short()), replay);
            return;
        }
    }
    let sig = format!("mismatch:{}:{}->{}", class, exp_class(&exp), obs.class());
    acc.violate(&sig, format!("rules `{}` data {} expected {} observed {}", text.trim(), doc_json, exp.short(), obs.short()), replay);
}

fn exp_class(e: &Exp) -> &'static str {
    match e {
        Exp::Ok(St::Pass, _) => "PASS",
        Exp::Ok(St::Fail, _) => "FAIL",
        Exp::Ok(St::Skip, _) => "SKIP",
        Exp::Err(_) => "ERROR",
    }
}

pub fn single_clauses(thorough: bool) -> Vec<Clause> {
    let mut out = vec![];
    let lits = if thorough { lits_full() } else { lits_quick() };
    let qs = queries_plain(if thorough { 3 } else { 2 });
    for q in &qs {
        out.extend(clauses_for(q, &lits, &UNOPS, &BINOPS, true));
    }
    let fbs = filter_bodies();
    // quick: the first four bodies and the one with a nested filter (a filter clause that SKIPs for an element)
    let fb_quick: Vec<Cnf> = vec![fbs[0].clone(), fbs[1].clone(), fbs[2].clone(), fbs[3].clone(), fbs[5].clone()];
    let fq = queries_filter(if thorough { &fbs[..] } else { &fb_quick[..] });
    let flits = vec![crate::val::i(1), crate::val::s("x"), crate::val::l(vec![crate::val::i(1)]), crate::val::l(vec![crate::val::i(1), crate::val::i(2)]), V::Null];
    let funops = [UnOp::Exists, UnOp::Empty, UnOp::IsStruct, UnOp::IsInt];
    let fbinops = [BinOp::Eq, BinOp::In, BinOp::Ge];
    for q in &fq {
        out.extend(clauses_for(q, if thorough { &flits[..] } else { &flits[..3] }, &funops, &fbinops, thorough));
        if !thorough {
            // prefix `not` on the unary checks of filter queries (the `empty` shortcut on a filter that selects nothing)
            out.extend(clauses_for(q, &[], &funops, &[], true).into_iter().filter(|c| matches!(c, Clause::Unary { not: true, .. })));
        }
    }
    // key filters: [ keys <op> literal ] after a key, after `.*` / `[*]`, followed by nothing / a key / [*]
    let kfs = [
        Part::KeysFilter(false, BinOp::Eq, crate::val::s("a")),
        Part::KeysFilter(false, BinOp::Eq, V::Regex("^a".into())),
        Part::KeysFilter(false, BinOp::In, crate::val::l(vec![crate::val::s("a"), crate::val::s("b")])),
        Part::KeysFilter(true, BinOp::Eq, crate::val::s("a")),
        Part::KeysFilter(true, BinOp::In, crate::val::l(vec![crate::val::s("b")])),
        Part::KeysFilter(false, BinOp::Eq, crate::val::s("zz")),
    ];
    for kf in &kfs {
        for pre in [vec![], vec![Part::Star], vec![Part::All]] {
            for post in [vec![], vec![key("a")], vec![Part::All]] {
                let mut q = vec![key("a")];
                q.extend(pre.clone());
                q.push(kf.clone());
                q.extend(post);
                out.extend(clauses_for(&q, &flits[..2], &[UnOp::Exists, UnOp::Empty, UnOp::IsInt], &[BinOp::Eq], false));
            }
        }
    }
    // `this`-headed spellings of a covering subset
    for q in qs.iter().take(8) {
        let mut tq = vec![Part::This];
        tq.extend(q.clone());
        out.extend(clauses_for(&tq, &lits[..2], &[UnOp::Exists, UnOp::Empty], &[BinOp::Eq], false));
    }
    out
}

pub fn run(tier: &str) -> i32 {
    let thorough = tier == "thorough";
    let mut rep = Report::new("C01", tier);
    let clauses = single_clauses(thorough);
    let docs = if thorough { docs_full() } else { docs_subset_quick() };
    let doc_json: Vec<String> = docs.iter().map(|d| d.json()).collect();
    let files: Vec<(File, String, String)> = clauses
        .iter()
        .map(|c| {
            let f = file1(rule("r", vec![vec![c.clone()]]));
            let t = print_file(&f);
            (f, t, shape_class(c))
        })
        .collect();
    let n = files.len() * docs.len();
    let deadline = crate::par::deadline_secs(if thorough { 3000 } else { 40 });
    let res = crate::par::run(
        n,
        rep.seed as u64,
        deadline,
        Acc::new,
        |k, acc| {
            let (ci, di) = (k / docs.len(), k % docs.len());
            let (f, t, cl) = &files[ci];
            check_state(f, t, &docs[di], &doc_json[di], cl, acc);
        },
        Acc::merge,
    );
    rep.states = res.done as u64;
    rep.transitions = res.done as u64 + files.len() as u64; // one production per clause + one (clause,doc) pairing per state
    if res.capped {
        rep.caps_hit.push(format!("wall-clock cap: {} of {} single-clause states explored", res.done, n));
    }
    rep.distinct_nontrivial = files.len() as u64;
    rep.samples.push(json!({"rules": files[0].1, "data": doc_json[0]}));
    rep.samples.push(json!({"rules": files[files.len() / 2].1, "data": doc_json[docs.len() / 2]}));
    rep.samples.push(json!({"rules": files[files.len() - 1].1, "data": doc_json[docs.len() - 1]}));
    rep.extra.insert("single_clause_programs".into(), json!(files.len()));
    rep.extra.insert("documents".into(), json!(docs.len()));
    res.acc.into_report(&mut rep);

    // part 2: composite programs
    crate::p2::explore_c01(&mut rep, thorough);

    rep.rule = "states = (program, document) pairs; programs = all single-clause rules over the query/operator/literal alphabets, then composite CNF/when/block/named-rule/let programs by BFS over grammar productions; distinct_nontrivial = distinct programs; each state's refsem prediction is replayed on cfn_guard::run_checks".into();
    rep.assumptions = vec![
        "refsem [doc] rules transcribe docs/*.md; [pin] rules adopt pinned behaviour where documentation is silent".into(),
        "keys are single lower-case letters (no case-converter fallback), no negative indices".into(),
    ];
    rep.finish()
}

pub fn docs_subset_quick() -> Vec<V> {
    // every value shape with b absent, plus filter-relevant docs with b present
    let mut vals = v2();
    vals.extend(filter_vals().into_iter().take(30));
    let mut out = docs_from(&vals, &[None]);
    out.extend(docs_from(&filter_vals()[..20], &[Some(crate::val::i(1))]));
    // dedup
    let mut d: Vec<V> = vec![];
    for x in out {
        if !d.contains(&x) {
            d.push(x);
        }
    }
    d
}

pub fn replay(path: &str) -> i32 {
    let t = std::fs::read_to_string(path).expect("read replay");
    let v: serde_json::Value = serde_json::from_str(&t).expect("json");
    let r = &v["replay"];
    let rules = r["rules"].as_str().unwrap_or("");
    let data = r["data"].as_str().unwrap_or("");
    let o1 = lib_run(rules, data);
    let o2 = lib_run(rules, data);
    if o1 != o2 {
        eprintln!("MACHINERY: replay not deterministic");
        return 2;
    }
    println!("rules:\n{}\ndata: {}\nexpected: {}\nobserved now: {}", rules, data, r["expected"], o1.short());
    if r["expected"].as_str() == Some(&o1.short()) {
        0
    } else {
        println!("VIOLATION property={} replay={}", v["property"].as_str().unwrap_or("?"), path);
        1
    }
}
