//! Composite-program grammar P2: breadth-first exploration of the derivation graph whose nodes are
//! rule files and whose edges are single grammar productions (append a conjunct, append an
//! alternative, wrap the last item in a query block / when block, add a rule-level `when`, add a
//! rule, add a named-rule reference). Every production grows the program by one unit, so BFS level k
//! holds exactly the programs of size k and the first counterexample found is a smallest one.
use crate::ast::*;
use crate::evidence::Report;
use crate::universe::*;
use crate::val::*;
use std::collections::HashSet;

#[derive(Clone, Copy, PartialEq, Debug)]
pub enum SiteKind {
    RuleBody,   // leaves, blocks, when-blocks, named refs
    RuleWhen,   // leaves, named refs
    BlockBody,  // leaves, blocks, when-blocks
    WhenCond,   // leaves (named refs allowed by grammar; kept to leaves)
    RuleWhenBlockBody, // body of a when block directly in a rule: named refs allowed
}

pub struct Gen {
    pub leaves: Vec<Clause>,
    pub conds: Vec<Clause>,
    pub block_queries: Vec<(bool, Query, bool)>, // (some, query, not_empty)
    pub max_depth: usize,
    pub max_rules: usize,
    pub with_named: bool,
}

pub fn var_leaves() -> Vec<Clause> {
    vec![
        bin(vec![Part::Var("v".into())], BinOp::Eq, false, i(1)),
        un(vec![Part::Var("e".into())], UnOp::Empty, true),
        bin(vec![Part::Var("e".into()), key("a")], BinOp::Eq, false, i(1)),
    ]
}

/// file-level lets that the var leaves refer to; added only when used
pub fn std_lets() -> Vec<Let> {
    vec![
        Let { name: "v".into(), val: Arg::Q(false, vec![key("a")]) },
        Let {
            name: "e".into(),
            val: Arg::Q(false, vec![key("a"), Part::Filter(vec![vec![bin(vec![key("b")], BinOp::Eq, false, i(1))]])]),
        },
    ]
}

impl Gen {
    pub fn standard(full_pool: bool) -> Gen {
        let mut leaves = leaf_pool();
        if !full_pool {
            // PASS/FAIL-capable, SKIP-capable, ERROR-capable, list-valued, negated
            leaves = vec![leaves[0].clone(), leaves[1].clone(), leaves[5].clone(), leaves[6].clone(), leaves[7].clone(), leaves[11].clone()];
        }
        leaves.extend(var_leaves());
        let fb = |c: Clause| Part::Filter(vec![vec![c]]);
        Gen {
            leaves,
            conds: vec![
                un(vec![key("a")], UnOp::Exists, false),
                un(vec![key("a"), fb(bin(vec![key("b")], BinOp::Eq, false, i(1)))], UnOp::Exists, false),
                bin(vec![key("b")], BinOp::Eq, false, i(1)),
            ],
            block_queries: vec![
                (false, vec![key("a")], false),
                (false, vec![key("a"), Part::All], false),
                (true, vec![key("a"), Part::All], false),
                (false, vec![key("a"), fb(bin(vec![key("b")], BinOp::Eq, false, i(1)))], false),
                (false, vec![key("a"), fb(bin(vec![key("b")], BinOp::Eq, false, i(1)))], true),
            ],
            max_depth: 2,
            max_rules: 3,
            with_named: true,
        }
    }
}

/// visit every CNF site of the file in pre-order; `f` may replace the CNF at the target index
fn rewrite_cnf_in_clause(c: &Clause, counter: &mut usize, target: usize, depth: usize, in_rule_top: bool, f: &dyn Fn(&Cnf, SiteKind, usize) -> Option<Cnf>) -> Option<Clause> {
    match c {
        Clause::Block { some, q, not_empty, lets, body } => {
            let nb = rewrite_cnf(body, SiteKind::BlockBody, counter, target, depth + 1, f)?;
            Some(Clause::Block { some: *some, q: q.clone(), not_empty: *not_empty, lets: lets.clone(), body: nb })
        }
        Clause::When { cond, lets, body } => {
            // cond first, then body
            let before = *counter;
            if let Some(nc) = rewrite_cnf(cond, SiteKind::WhenCond, counter, target, depth + 1, f) {
                return Some(Clause::When { cond: nc, lets: lets.clone(), body: body.clone() });
            }
            let _ = before;
            let kind = if in_rule_top { SiteKind::RuleWhenBlockBody } else { SiteKind::BlockBody };
            let nb = rewrite_cnf(body, kind, counter, target, depth + 1, f)?;
            Some(Clause::When { cond: cond.clone(), lets: lets.clone(), body: nb })
        }
        _ => None,
    }
}

fn rewrite_cnf(c: &Cnf, kind: SiteKind, counter: &mut usize, target: usize, depth: usize, f: &dyn Fn(&Cnf, SiteKind, usize) -> Option<Cnf>) -> Option<Cnf> {
    let my = *counter;
    *counter += 1;
    if my == target {
        return f(c, kind, depth);
    }
    for (li, line) in c.iter().enumerate() {
        for (ai, alt) in line.iter().enumerate() {
            if let Some(nc) = rewrite_cnf_in_clause(alt, counter, target, depth, kind == SiteKind::RuleBody, f) {
                let mut out = c.clone();
                out[li][ai] = nc;
                return Some(out);
            }
            if *counter > target {
                return None;
            }
        }
    }
    None
}

fn count_sites_clause(c: &Clause) -> usize {
    match c {
        Clause::Block { body, .. } => count_sites(body),
        Clause::When { cond, body, .. } => count_sites(cond) + count_sites(body),
        _ => 0,
    }
}
fn count_sites(c: &Cnf) -> usize {
    1 + c.iter().map(|l| l.iter().map(count_sites_clause).sum::<usize>()).sum::<usize>()
}

fn file_sites(f: &File) -> usize {
    f.rules.iter().map(|r| r.when.as_ref().map_or(0, count_sites) + count_sites(&r.body)).sum()
}

fn rewrite_file(file: &File, target: usize, f: &dyn Fn(&Cnf, SiteKind, usize) -> Option<Cnf>) -> Option<File> {
    let mut counter = 0;
    for (ri, r) in file.rules.iter().enumerate() {
        if let Some(w) = &r.when {
            if let Some(nw) = rewrite_cnf(w, SiteKind::RuleWhen, &mut counter, target, 0, f) {
                let mut out = file.clone();
                out.rules[ri].when = Some(nw);
                return Some(out);
            }
            if counter > target {
                return None;
            }
        }
        if let Some(nb) = rewrite_cnf(&r.body, SiteKind::RuleBody, &mut counter, target, 0, f) {
            let mut out = file.clone();
            out.rules[ri].body = nb;
            return Some(out);
        }
        if counter > target {
            return None;
        }
    }
    None
}

fn uses_var(c: &Clause, name: &str) -> bool {
    let qv = |q: &Query| matches!(q.first(), Some(Part::Var(n)) if n == name);
    match c {
        Clause::Unary { q, .. } => qv(q),
        Clause::Binary { q, rhs, .. } => qv(q) || matches!(rhs, Arg::Q(_, rq) if qv(rq)),
        Clause::Block { q, body, .. } => qv(q) || body.iter().any(|l| l.iter().any(|c| uses_var(c, name))),
        Clause::When { cond, body, .. } => cond.iter().chain(body.iter()).any(|l| l.iter().any(|c| uses_var(c, name))),
        Clause::TypeBlock { body, .. } => body.iter().any(|l| l.iter().any(|c| uses_var(c, name))),
        _ => false,
    }
}

/// add the standard file-level lets that the program refers to
pub fn close_lets(mut f: File) -> File {
    let mut lets = vec![];
    for l in std_lets() {
        let used = f.rules.iter().any(|r| {
            r.when.iter().flatten().chain(r.body.iter()).any(|line| line.iter().any(|c| uses_var(c, &l.name)))
        });
        if used {
            lets.push(l);
        }
    }
    f.lets = lets;
    f
}

impl Gen {
    pub fn initial(&self) -> Vec<File> {
        self.leaves.iter().map(|l| file1(rule("r0", vec![vec![l.clone()]]))).collect()
    }

    /// all single-production successors
    pub fn successors(&self, file: &File) -> Vec<File> {
        let mut out = vec![];
        let nsites = file_sites(file);
        let rule_names: Vec<String> = file.rules.iter().map(|r| r.name.clone()).collect();
        for t in 0..nsites {
            // which rule does site t belong to? (named refs must not point at the enclosing rule: cycles are C08's)
            let mut owner = 0;
            {
                let mut acc = 0;
                for (ri, r) in file.rules.iter().enumerate() {
                    let n = r.when.as_ref().map_or(0, count_sites) + count_sites(&r.body);
                    if t < acc + n {
                        owner = ri;
                        break;
                    }
                    acc += n;
                }
            }
            // 1. append a line / an alternative
            let mut items: Vec<Clause> = vec![];
            items.extend(self.leaves.iter().cloned());
            for it in &items {
                for as_alt in [false, true] {
                    let it2 = it.clone();
                    if let Some(nf) = rewrite_file(file, t, &move |c, kind, _d| {
                        if kind == SiteKind::WhenCond || kind == SiteKind::RuleWhen {
                            return None; // conditions grow through `conds` below
                        }
                        let mut n = c.clone();
                        if as_alt {
                            n.last_mut().unwrap().push(it2.clone());
                        } else {
                            n.push(vec![it2.clone()]);
                        }
                        Some(n)
                    }) {
                        out.push(nf);
                    }
                }
            }
            // 1b. conditions grow by a condition leaf
            for cnd in &self.conds {
                for as_alt in [false, true] {
                    let c2 = cnd.clone();
                    if let Some(nf) = rewrite_file(file, t, &move |c, kind, _d| {
                        if !(kind == SiteKind::WhenCond || kind == SiteKind::RuleWhen) {
                            return None;
                        }
                        let mut n = c.clone();
                        if as_alt {
                            n.last_mut().unwrap().push(c2.clone());
                        } else {
                            n.push(vec![c2.clone()]);
                        }
                        Some(n)
                    }) {
                        out.push(nf);
                    }
                }
            }
            // 2. named references (rule bodies, rule-level when bodies and rule `when` conditions)
            if self.with_named {
                for (ri, rn) in rule_names.iter().enumerate() {
                    if ri == owner {
                        continue;
                    }
                    // no reference cycles: the target must not (transitively) refer back; keep it simple: only allow
                    // references whose target has no named references itself
                    if has_named(&file.rules[ri]) {
                        continue;
                    }
                    for not in [false, true] {
                        for as_alt in [false, true] {
                            let item = named(rn).with_not(not);
                            if let Some(nf) = rewrite_file(file, t, &move |c, kind, _d| {
                                if !(kind == SiteKind::RuleBody || kind == SiteKind::RuleWhenBlockBody || kind == SiteKind::RuleWhen) {
                                    return None;
                                }
                                let mut n = c.clone();
                                if as_alt {
                                    n.last_mut().unwrap().push(item.clone());
                                } else {
                                    n.push(vec![item.clone()]);
                                }
                                Some(n)
                            }) {
                                out.push(nf);
                            }
                        }
                    }
                }
            }
            // 3. wrap the last item of the site in a query block
            let maxd = self.max_depth;
            for (some, q, ne) in &self.block_queries {
                let (some, q, ne) = (*some, q.clone(), *ne);
                if let Some(nf) = rewrite_file(file, t, &move |c, kind, d| {
                    if kind == SiteKind::WhenCond || kind == SiteKind::RuleWhen || d >= maxd {
                        return None;
                    }
                    let mut n = c.clone();
                    let last = n.last_mut().unwrap().pop().unwrap();
                    if matches!(last, Clause::Named { .. }) {
                        return None; // named references are not allowed inside query blocks
                    }
                    n.last_mut().unwrap().push(Clause::Block { some, q: q.clone(), not_empty: ne, lets: vec![], body: vec![vec![last]] });
                    Some(n)
                }) {
                    out.push(nf);
                }
            }
            // 4. wrap the last item in a when block
            for cnd in &self.conds {
                let cnd = cnd.clone();
                if let Some(nf) = rewrite_file(file, t, &move |c, kind, d| {
                    if kind == SiteKind::WhenCond || kind == SiteKind::RuleWhen || d >= maxd {
                        return None;
                    }
                    let mut n = c.clone();
                    let last = n.last_mut().unwrap().pop().unwrap();
                    if matches!(last, Clause::Named { .. }) && kind != SiteKind::RuleBody {
                        return None;
                    }
                    n.last_mut().unwrap().push(Clause::When { cond: vec![vec![cnd.clone()]], lets: vec![], body: vec![vec![last]] });
                    Some(n)
                }) {
                    out.push(nf);
                }
            }
        }
        // 5. rule-level when on the last rule
        if let Some(last) = file.rules.last() {
            if last.when.is_none() {
                for cnd in &self.conds {
                    let mut nf = file.clone();
                    nf.rules.last_mut().unwrap().when = Some(vec![vec![cnd.clone()]]);
                    out.push(nf);
                }
            }
        }
        // 6. a new rule
        if file.rules.len() < self.max_rules {
            for l in &self.leaves {
                let mut nf = file.clone();
                let name = format!("r{}", file.rules.len());
                nf.rules.push(rule(&name, vec![vec![l.clone()]]));
                out.push(nf);
            }
        }
        out
    }
}

fn has_named(r: &Rule) -> bool {
    fn c_has(c: &Clause) -> bool {
        match c {
            Clause::Named { .. } => true,
            Clause::Block { body, .. } => body.iter().any(|l| l.iter().any(c_has)),
            Clause::When { cond, body, .. } => cond.iter().chain(body.iter()).any(|l| l.iter().any(c_has)),
            _ => false,
        }
    }
    r.when.iter().flatten().chain(r.body.iter()).any(|l| l.iter().any(c_has))
}

/// same-named definitions (B5': the first non-SKIP definition in file order counts) with a user
/// placed before, between and after them
pub fn same_name_family(full: bool) -> Vec<File> {
    let g = Gen::standard(true);
    let pool: Vec<Clause> = leaf_pool();
    let pool: Vec<Clause> = if full { pool } else { vec![pool[0].clone(), pool[1].clone(), pool[5].clone(), pool[6].clone(), pool[11].clone()] };
    let mut out = vec![];
    for cond in &g.conds {
        for l1 in &pool {
            for l2 in &pool {
                let mut d1 = rule("s", vec![vec![l1.clone()]]);
                d1.when = Some(vec![vec![cond.clone()]]);
                let d2 = rule("s", vec![vec![l2.clone()]]);
                for not in [false, true] {
                    let u = rule("u", vec![vec![named("s").with_not(not)]]);
                    for order in [[0usize, 1, 2], [0, 2, 1], [2, 0, 1], [1, 0, 2], [1, 2, 0], [2, 1, 0]] {
                        let rs = [d1.clone(), d2.clone(), u.clone()];
                        out.push(File { lets: vec![], rules: order.iter().map(|k| rs[*k].clone()).collect(), default: vec![] });
                    }
                }
            }
        }
    }
    out
}

pub struct Bfs {
    pub levels: Vec<Vec<File>>,
    pub transitions: u64,
    pub capped: bool,
}

/// BFS to `max_size`; `cap` bounds the number of programs kept per level (reported when hit)
pub fn bfs(g: &Gen, max_size: usize, cap: usize) -> Bfs {
    let mut seen: HashSet<u64> = HashSet::new();
    let mut levels: Vec<Vec<File>> = vec![];
    let mut transitions = 0u64;
    let mut capped = false;
    let mut cur: Vec<File> = vec![];
    for f in g.initial() {
        let f = close_lets(f);
        let h = crate::evidence::fnv(&print_file(&f));
        transitions += 1;
        if seen.insert(h) {
            cur.push(f);
        }
    }
    levels.push(cur.clone());
    for _ in 1..max_size {
        let mut next = vec![];
        'outer: for f in &cur {
            for s in g.successors(f) {
                let s = close_lets(s);
                transitions += 1;
                let h = crate::evidence::fnv(&print_file(&s));
                if seen.insert(h) {
                    next.push(s);
                    if next.len() >= cap {
                        capped = true;
                        break 'outer;
                    }
                }
            }
        }
        levels.push(next.clone());
        cur = next;
    }
    Bfs { levels, transitions, capped }
}

pub fn explore_c01(rep: &mut Report, thorough: bool) {
    use crate::c01::{check_state, Acc};
    let g = Gen::standard(true);
    let (max_size, cap) = if thorough { (4, 400_000) } else { (3, 60_000) };
    let t0 = std::time::Instant::now();
    let b = bfs(&g, max_size, cap);
    eprintln!("bfs: {:?} levels={:?}", t0.elapsed(), b.levels.iter().map(|l| l.len()).collect::<Vec<_>>());
    let docs = docs_quick();
    let doc_json: Vec<String> = docs.iter().map(|d| d.json()).collect();
    // order: the hand-written pool and the same-name family first, then the BFS levels smallest first, so that a wall-clock
    // cap on a loaded machine cuts the tail of the largest BFS level and nothing else
    // pool shared with C04: variables at every scope (plain and `some`) read once and several times, forward and backward
    // named references, when-skipped rules, parameterised-rule bodies
    let pool = crate::c04::extra_pool();
    rep.extra.insert("variable_pool_programs".into(), serde_json::json!(pool.len()));
    let mut files: Vec<(File, String)> = pool.into_iter().map(|f| {
        let t = print_file(&f);
        (f, t)
    }).collect();
    let snf = same_name_family(thorough);
    rep.extra.insert("same_name_programs".into(), serde_json::json!(snf.len()));
    files.extend(snf.into_iter().map(|f| {
        let t = print_file(&f);
        (f, t)
    }));
    files.extend(b.levels.iter().flatten().map(|f| (f.clone(), print_file(f))));
    let n = files.len() * docs.len();
    let deadline = crate::par::deadline_secs(if thorough { 3000 } else { 40 });
    let res = crate::par::run(
        n,
        rep.seed as u64,
        deadline,
        Acc::new,
        |k, acc| {
            // level-major order: smaller programs first
            let (ci, di) = (k / docs.len(), k % docs.len());
            let (f, t) = &files[ci];
            check_state(f, t, &docs[di], &doc_json[di], "composite", acc);
        },
        Acc::merge,
    );
    rep.states += res.done as u64;
    rep.transitions += b.transitions + res.done as u64;
    rep.distinct_nontrivial += files.len() as u64;
    if b.capped {
        rep.caps_hit.push(format!("composite BFS level cap {} hit at size {}", cap, max_size));
    }
    if res.capped {
        rep.caps_hit.push(format!("wall-clock cap: {} of {} composite states explored", res.done, n));
    }
    rep.extra.insert(
        "composite_programs_by_size".into(),
        serde_json::json!(b.levels.iter().map(|l| l.len()).collect::<Vec<_>>()),
    );
    rep.extra.insert("composite_bound_completed".into(), serde_json::json!(if b.capped || res.capped { max_size - 1 } else { max_size }));
    if let Some((_, t)) = files.last() {
        rep.samples.push(serde_json::json!({"rules": t, "data": doc_json[doc_json.len() - 1]}));
    }
    if files.len() > 2 {
        rep.samples.push(serde_json::json!({"rules": files[files.len() / 2].1, "data": doc_json[1]}));
    }
    res.acc.into_report(rep);
}
