//! Composite-program grammar P2 and its BFS (filled in below).
use crate::evidence::Report;
pub fn explore_c01(_rep: &mut Report, _thorough: bool) {}
