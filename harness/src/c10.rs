//! C10 — reported paths, values and source positions point into the input document (DESIGN 5/C10).
use crate::ast::*;
use crate::c01::Acc;
use crate::cli::*;
use crate::evidence::Report;
use crate::impl_::St;
use crate::refsem::{Scope, Sem, Variant};
use crate::universe::*;
use crate::val::*;
use crate::yamlw::*;
use serde_json::{json, Value};
use std::collections::BTreeSet;

pub fn layouts() -> Vec<Layout> {
    let mut out = vec![Layout::new("json")];
    for ind in [2, 4] {
        let mut l = Layout::new("json-pretty");
        l.indent = ind;
        out.push(l);
    }
    let mut f = Layout::new("flow");
    out.push(f.clone());
    f.wrap = true;
    out.push(f);
    for ind in [2, 4] {
        for doc_start in [false, true] {
            for comments in [false, true] {
                for blank in [false, true] {
                    let mut b = Layout::new("block");
                    b.indent = ind;
                    b.doc_start = doc_start;
                    b.comments = comments;
                    b.blank_lines = blank;
                    out.push(b);
                }
            }
        }
    }
    // (block scalars `|-` / `>-` too: a string stays a string whatever its text looks like)
    for q in [Quote::Single, Quote::Double, Quote::Literal, Quote::Folded] {
        let mut b = Layout::new("block");
        b.quote = q;
        out.push(b);
    }
    for kind in ["json", "json-pretty", "flow", "block"] {
        let mut b = Layout::new(kind);
        b.lead_blank = true;
        out.push(b);
    }
    // the whole document indented at its root
    for kind in ["json-pretty", "flow", "block"] {
        let mut b = Layout::new(kind);
        b.root_indent = 3;
        out.push(b);
    }
    out
}

fn resolve<'a>(doc: &'a V, pointer: &str) -> Option<&'a V> {
    if pointer.is_empty() {
        return Some(doc);
    }
    // the tool does not escape '/' inside keys, so a pointer is read under every segmentation: a key may span several segments
    fn go<'a>(cur: &'a V, segs: &[&str]) -> Option<&'a V> {
        if segs.is_empty() {
            return Some(cur);
        }
        match cur {
            V::Map(m) => {
                for j in 1..=segs.len() {
                    let k = segs[..j].join("/");
                    if let Some((_, v)) = m.iter().find(|(k2, _)| *k2 == k) {
                        if let Some(r) = go(v, &segs[j..]) {
                            return Some(r);
                        }
                    }
                }
                None
            }
            V::List(l) => go(l.get(segs[0].parse::<usize>().ok()?)?, &segs[1..]),
            _ => None,
        }
    }
    let segs: Vec<&str> = pointer.strip_prefix('/')?.split('/').collect();
    go(doc, &segs)
}

/// pointers at which the traversal of `q` gets stuck (an unresolved result), by an independent walk
fn stuck_points(q: &Query, doc: &V) -> BTreeSet<String> {
    fn walk(sem: &Sem, sc: &Scope, q: &Query, i: usize, cur: &V, path: String, out: &mut BTreeSet<String>) {
        if i >= q.len() {
            return;
        }
        match &q[i] {
            Part::This => walk(sem, sc, q, i + 1, cur, path, out),
            Part::Key(k) => match cur.get(k) {
                Some(v) => walk(sem, sc, q, i + 1, v, format!("{}/{}", path, k), out),
                None => {
                    out.insert(path);
                }
            },
            Part::Idx(n) => match cur {
                V::List(l) if *n >= 0 && (*n as usize) < l.len() => walk(sem, sc, q, i + 1, &l[*n as usize], format!("{}/{}", path, n), out),
                _ => {
                    out.insert(path);
                }
            },
            Part::Star | Part::All => match cur {
                V::List(l) => {
                    if l.is_empty() {
                        out.insert(path);
                    } else {
                        for (n, e) in l.iter().enumerate() {
                            walk(sem, sc, q, i + 1, e, format!("{}/{}", path, n), out);
                        }
                    }
                }
                V::Map(m) if matches!(q[i], Part::Star) => {
                    if m.is_empty() {
                        out.insert(path);
                    } else {
                        for (k, e) in m {
                            walk(sem, sc, q, i + 1, e, format!("{}/{}", path, k), out);
                        }
                    }
                }
                _ => walk(sem, sc, q, i + 1, cur, path, out),
            },
            Part::Filter(c) => {
                let after_wild = i > 0 && matches!(q[i - 1], Part::Star | Part::All);
                match cur {
                    V::List(l) => {
                        for (n, e) in l.iter().enumerate() {
                            if sem.cnf(c, e, sc) == Ok(St::Pass) {
                                walk(sem, sc, q, i + 1, e, format!("{}/{}", path, n), out);
                            }
                        }
                    }
                    V::Map(m) => {
                        if after_wild {
                            if sem.cnf(c, cur, sc) == Ok(St::Pass) {
                                walk(sem, sc, q, i + 1, cur, path, out);
                            }
                        } else {
                            for (k, e) in m {
                                if sem.cnf(c, e, sc) == Ok(St::Pass) {
                                    walk(sem, sc, q, i + 1, e, format!("{}/{}", path, k), out);
                                }
                            }
                        }
                    }
                    _ => {
                        if i > 0 && matches!(q[i - 1], Part::All) {
                            if sem.cnf(c, cur, sc) == Ok(St::Pass) {
                                walk(sem, sc, q, i + 1, cur, path, out);
                            }
                        } else {
                            out.insert(path);
                        }
                    }
                }
            }
            _ => {}
        }
    }
    let f = File::default();
    let sem = Sem::new(&f, Variant::default());
    let sc = Scope::new(None, doc, &[]);
    let mut out = BTreeSet::new();
    walk(&sem, &sc, q, 0, doc, String::new(), &mut out);
    out
}

/// all `Path=<p>[L:l,C:c]` occurrences of a message
fn position_mentions(msg: &str) -> Vec<(String, usize, usize)> {
    let mut out = vec![];
    let mut rest = msg;
    while let Some(i) = rest.find("Path=") {
        rest = &rest[i + 5..];
        if let Some(j) = rest.find("[L:") {
            let p = &rest[..j];
            if p.contains(' ') || p.contains(']') {
                continue;
            }
            let after = &rest[j + 3..];
            if let (Some(c), Some(e)) = (after.find(",C:"), after.find(']')) {
                if c < e {
                    if let (Ok(l), Ok(cc)) = (after[..c].parse::<usize>(), after[c + 3..e].parse::<usize>()) {
                        out.push((p.to_string(), l, cc));
                    }
                }
            }
        }
    }
    out
}

fn is_scalar(v: &V) -> bool {
    !matches!(v, V::List(_) | V::Map(_))
}

struct Ctx<'a> {
    doc: &'a V,
    pos: &'a Positions,
    stuck: Option<BTreeSet<String>>,
    problems: Vec<(String, String)>,
    checked: u64,
}

fn walk_report(v: &Value, cx: &mut Ctx) {
    match v {
        Value::Object(o) => {
            if let (Some(p), Some(val)) = (o.get("path").and_then(|p| p.as_str()), o.get("value")) {
                if o.len() == 2 {
                    cx.checked += 1;
                    if !p.is_empty() {
                        match resolve(cx.doc, p) {
                            None => cx.problems.push(("path-does-not-resolve".into(), format!("reported path {} does not exist in the document", p))),
                            Some(dv) => {
                                if dv.to_json_value() != *val {
                                    cx.problems.push(("path-value-mismatch".into(), format!("path {} holds {} in the document but {} is reported", p, dv.json(), val)));
                                }
                            }
                        }
                    }
                }
            }
            if let Some(tt) = o.get("traversed_to") {
                let p = tt.get("path").and_then(|p| p.as_str()).unwrap_or("?");
                if let Some(st) = &cx.stuck {
                    if !st.contains(p) {
                        cx.problems.push(("traversed-to-not-a-stuck-point".into(), format!("unresolved check reports traversed_to {} but the query gets stuck at {:?}", p, st)));
                    }
                }
            }
            if let Some(msg) = o.get("error_message").and_then(|m| m.as_str()) {
                for (k, (p, l, c)) in position_mentions(msg).into_iter().enumerate() {
                    if p.is_empty() {
                        // a literal has no path and no position; the root of the document has the empty path too: when the
                        // document is a scalar, the first value a message names is the one the query selected, the root
                        if k == 0 && is_scalar(cx.doc) && msg.contains(&format!("Value={}]", cx.doc.json())) {
                            cx.checked += 1;
                            if let Some((_, wl, wc)) = cx.pos.iter().find(|(pp, _, _)| pp.is_empty()) {
                                if (*wl, *wc) != (l, c) {
                                    cx.problems.push(("position".into(), format!("the root scalar starts at line {} column {} (0-based) but [L:{},C:{}] is reported", wl, wc, l, c)));
                                }
                            }
                        }
                        continue;
                    }
                    if let Some(dv) = resolve(cx.doc, &p) {
                        if is_scalar(dv) {
                            cx.checked += 1;
                            if let Some((_, wl, wc)) = cx.pos.iter().find(|(pp, _, _)| *pp == p) {
                                if (*wl, *wc) != (l, c) {
                                    cx.problems.push(("position".into(), format!("scalar at {} starts at line {} column {} (0-based) but [L:{},C:{}] is reported", p, wl, wc, l, c)));
                                }
                            }
                        }
                    }
                }
            }
            for (_, x) in o {
                walk_report(x, cx);
            }
        }
        Value::Array(a) => a.iter().for_each(|x| walk_report(x, cx)),
        _ => {}
    }
}

pub fn programs(thorough: bool) -> Vec<(String, Option<Query>)> {
    let mut out: Vec<(String, Option<Query>)> = vec![];
    let mut qs = queries_plain(if thorough { 3 } else { 2 });
    let fbs = filter_bodies();
    qs.extend(queries_filter(&fbs[..if thorough { 4 } else { 2 }]));
    for q in &qs {
        let cl = vec![
            un(q.clone(), UnOp::Exists, false),
            bin(q.clone(), BinOp::Eq, false, i(1)),
            un(q.clone(), UnOp::IsString, false),
            bin(q.clone(), BinOp::In, false, l(vec![i(5), s("zz")])).with_some(true),
            bin(q.clone(), BinOp::Lt, false, i(0)),
        ];
        for c in cl {
            out.push((print_file(&file1(rule("r", vec![vec![c]]))), Some(q.clone())));
        }
        // query on the right-hand side (`to` comes from the data), unresolved on either side
        let c = Clause::Binary { not: false, some: false, q: vec![key("b")], op: BinOp::Eq, opneg: false, rhs: Arg::Q(false, q.clone()), msg: None };
        out.push((print_file(&file1(rule("r", vec![vec![c]]))), None));
        // a literal variable on either side (the literal has no place in the data: no path may be invented for it)
        let wl = vec![Let { name: "w".into(), val: Arg::Lit(i(1)) }];
        let mut f1 = file1(rule("r", vec![vec![Clause::Binary { not: false, some: false, q: vec![Part::Var("w".into())], op: BinOp::Eq, opneg: false, rhs: Arg::Q(false, q.clone()), msg: None }]]));
        f1.lets = wl.clone();
        out.push((print_file(&f1), None));
        let mut f2 = file1(rule("r", vec![vec![Clause::Binary { not: false, some: false, q: q.clone(), op: BinOp::Eq, opneg: false, rhs: Arg::Q(false, vec![Part::Var("w".into())]), msg: None }]]));
        f2.lets = wl;
        out.push((print_file(&f2), None));
        // block over the query (missing block values)
        let c = Clause::Block { some: false, q: q.clone(), not_empty: false, lets: vec![], body: vec![vec![un(vec![key("zz")], UnOp::Exists, false)]] };
        out.push((print_file(&file1(rule("r", vec![vec![c]]))), None));
    }
    // key interpolation `a.%k..`: the point reached is the struct that lacks the key (the stuck points are those of the query
    // with the key written out)
    for (kname, tail) in [("zz", vec![]), ("zz", vec![key("b")]), ("b", vec![key("zz")]), ("a", vec![key("zz")]), ("a", vec![Part::All, key("zz")])] {
        for head in [vec![key("a")], vec![key("a"), Part::All], vec![Part::This]] {
            let mut inl = head.clone();
            inl.push(key(kname));
            inl.extend(tail.clone());
            let mut qv = head.clone();
            qv.push(Part::Var("k".into()));
            qv.extend(tail.clone());
            for c in [un(qv.clone(), UnOp::Exists, false), bin(qv.clone(), BinOp::Eq, false, i(1))] {
                let f = File { lets: vec![Let { name: "k".into(), val: Arg::Lit(s(kname)) }], rules: vec![rule("r", vec![vec![c]])], default: vec![] };
                out.push((print_file(&f), Some(inl.clone())));
            }
        }
    }
    // keys the rules spell in another letter case than the document (found through the case conversions): the point reached
    // is the one of the query spelled like the document
    for lower in [vec![key("a"), key("zz")], vec![key("a"), key("b"), key("zz")], vec![key("a"), key("a"), key("zz")], vec![key("a"), Part::All, key("zz")], vec![key("b"), key("zz")], vec![key("a"), key("zz"), key("b")], vec![Part::This, key("a"), key("zz")], vec![key("a"), Part::Idx(0), key("b"), key("zz")]] {
        for upto in 1..=lower.len() {
            // the first `upto` keys in upper case
            let mut nkeys = 0;
            let upper: Query = lower.iter().map(|p| match p {
                Part::Key(k) if k != "zz" && nkeys < upto => {
                    nkeys += 1;
                    key(&k.to_uppercase())
                }
                other => other.clone(),
            }).collect();
            if upper == lower {
                continue;
            }
            for c in [un(upper.clone(), UnOp::Exists, false), bin(upper.clone(), BinOp::Eq, false, i(1))] {
                out.push((print_file(&file1(rule("r", vec![vec![c]]))), Some(lower.clone())));
            }
        }
    }
    // the document root itself
    for c in [bin(vec![Part::This], BinOp::Eq, false, i(1)), un(vec![Part::This], UnOp::IsList, false), un(vec![Part::This], UnOp::IsStruct, false), bin(vec![Part::This, Part::All], BinOp::Eq, false, i(1)), bin(vec![Part::This], BinOp::In, false, l(vec![i(5), s("zz")]))] {
        out.push((print_file(&file1(rule("r", vec![vec![c]]))), None));
    }
    // composite programs (from / to / positions only)
    let g = crate::p2::Gen::standard(true);
    let b = crate::p2::bfs(&g, 3, 60_000);
    let all: Vec<File> = b.levels.iter().flatten().cloned().collect();
    for f in all.iter().step_by((all.len() / if thorough { 2000 } else { 120 }).max(1)) {
        out.push((print_file(f), None));
    }
    out
}

pub fn run(tier: &str) -> i32 {
    let thorough = tier == "thorough";
    let mut rep = Report::new("C10", tier);
    let progs = programs(thorough);
    let lays = layouts();
    let mut docs = docs_quick();
    docs.push(m(vec![("a", m(vec![("a", l(vec![m(vec![("b", i(1)), ("a", s("x"))]), m(vec![("b", s("two words"))])])), ("b", f(2.5))])), ("b", l(vec![i(1), s(""), V::Null, V::Bool(false)]))]));
    docs.push(m(vec![("b", i(1)), ("a", l(vec![l(vec![i(1), i(2)]), l(vec![s("x")])]))]));
    // unusual keys: empty, containing the path separator, numeric, with spaces and dots
    docs.push(m(vec![("a", m(vec![("", m(vec![("a", i(2)), ("b", s("x"))])), ("a", m(vec![("a", i(1)), ("b", s("y"))]))])), ("b", i(1))]));
    docs.push(m(vec![("a", m(vec![("a/b", l(vec![i(3), i(1)])), ("0", l(vec![i(2)])), ("a b", l(vec![])), ("a.b", i(1))])), ("b", i(3))]));
    docs.push(m(vec![("a", l(vec![m(vec![("", i(2)), ("a", i(1))]), m(vec![("", l(vec![i(1), i(2)]))])])), ("", i(1)), ("b", i(2))]));
    // floats without a fraction, small and beyond the 64-bit integers
    docs.push(m(vec![("a", l(vec![f(2.0), f(1e20), f(-1e19)])), ("b", f(3.0))]));
    docs.push(m(vec![("a", m(vec![("a", f(1e20)), ("b", f(-2.0))])), ("b", f(1e19))]));
    // strings whose text reads as a number, a boolean or null
    docs.push(m(vec![("a", l(vec![s("12"), s("true"), s("3.5"), s("null"), s("1e3")])), ("b", s("12"))]));
    docs.push(m(vec![("a", m(vec![("a", s("7")), ("b", s("false"))])), ("b", s("~"))]));
    // documents whose root is a scalar or a list (the position of the root value itself)
    docs.push(i(7));
    docs.push(s("word"));
    docs.push(l(vec![i(7), s("x"), m(vec![("a", i(2))])]));
    let written: Vec<Vec<(String, Positions)>> = docs.iter().map(|d| lays.iter().map(|l| write(d, l)).collect()).collect();
    let n = progs.len() * docs.len();
    let lay_step = if thorough { 1 } else { 3 };
    let res = crate::par::run(n, rep.seed as u64, crate::par::deadline_secs(if thorough { 3000 } else { 45 }), Acc::new, |k, acc| {
        let (pi, di) = (k / docs.len(), k % docs.len());
        let (rules, q) = &progs[pi];
        let doc = &docs[di];
        let stuck = q.as_ref().map(|q| stuck_points(q, doc));
        let rp = put("c10/r.guard", rules);
        // quick: a rotating third of the layouts per (program, document) so that every layout meets every program
        for (li, lay) in lays.iter().enumerate() {
            if (li + k) % lay_step != 0 {
                continue;
            }
            let (text, pos) = &written[di][li];
            let ext = if lay.kind.starts_with("json") { "json" } else { "yaml" };
            let dp = put(&format!("c10/d.{}", ext), text);
            let o = cli_inproc(&sv(&["validate", "-r", &rp, "-d", &dp, "--structured", "-o", "json", "-S", "none"]), "");
            acc.traces += 1;
            acc.nontrivial += 1;
            *acc.outcomes.entry(format!("exit-{}", o.status())).or_insert(0) += 1;
            if o.panic.is_some() {
                acc.violate("panic", format!("panic {:?} rules `{}` data `{}`", o.panic, rules.trim(), text.trim()), json!({"kind":"cli","argv":["validate","--structured"],"files":{"rules":rules,"data":text},"expected":"no panic","observed":format!("{:?}", o.panic)}));
                continue;
            }
            let v: Value = match serde_json::from_str(&o.out) {
                Ok(v) => v,
                Err(_) => continue, // evaluation error: nothing reported
            };
            // the console summary of the same run (JSON layouts only, the paths do not depend on the layout): every
            // `Property [P] ... provided value [V]` line names a path that holds V, every `traversed until [P]` an existing path
            if lay.kind == "json" {
                let oc = cli_inproc(&sv(&["validate", "-r", &rp, "-d", &dp]), "");
                acc.traces += 1;
                if oc.panic.is_none() {
                    for line in oc.out.lines() {
                        let what = if let Some(rest) = line.strip_prefix("Property [") {
                            let pth = rest.split("] in data [").next().unwrap_or("");
                            match line.find("provided value [").map(|k| &line[k + 16..]) {
                                Some(vtxt) if !pth.is_empty() => match serde_json::Deserializer::from_str(vtxt).into_iter::<Value>().next() {
                                    Some(Ok(v)) => match resolve(doc, pth) {
                                        None => Some(format!("console line names path {} which does not exist in the document", pth)),
                                        Some(dv) if dv.to_json_value() != v => Some(format!("console line says the value at {} is {} but the document holds {}", pth, v, dv.json())),
                                        _ => None,
                                    },
                                    _ => None,
                                },
                                _ => None,
                            }
                        } else if let Some(rest) = line.strip_prefix("Property traversed until [") {
                            let pth = rest.split("] in data [").next().unwrap_or("");
                            if resolve(doc, pth).is_none() {
                                Some(format!("console line says the traversal reached {} which does not exist in the document", pth))
                            } else {
                                None
                            }
                        } else {
                            None
                        };
                        if let Some(w) = what {
                            acc.violate("console-path-value", format!("{} | `{}` | rules `{}` data `{}`", w, line.trim(), rules.trim(), text.trim()), json!({"kind":"cli","argv":["validate","-r","r.guard","-d","d.json"],"files":{"rules":rules,"data":text},"expected":"the path resolves to the reported value","observed":line}));
                        }
                        acc.nontrivial += 1;
                    }
                }
            }
            let mut cx = Ctx { doc, pos, stuck: stuck.clone(), problems: vec![], checked: 0 };
            walk_report(&v, &mut cx);
            *acc.outcomes.entry("checked-items".into()).or_insert(0) += cx.checked;
            for (sig, what) in cx.problems {
                acc.violate(&format!("{}:{}", sig, lay.kind), format!("[{}] {} | rules `{}` data `{}`", lay.name(), what, rules.trim(), text.trim()), json!({"kind":"cli","argv":["validate","-r","r.guard","-d",format!("d.{}", ext),"--structured","-o","json","-S","none"],"files":{"rules":rules,"data":text},"expected":"paths resolve to the reported values; positions are where the scalars start","observed":what}));
            }
        }
    }, Acc::merge);
    rep.states = res.acc.nontrivial;
    rep.transitions = res.acc.nontrivial;
    if res.capped {
        rep.caps_hit.push(format!("wall-clock cap: {} of {} (program, document) pairs", res.done, n));
    }
    rep.distinct_nontrivial = progs.len() as u64;
    rep.extra.insert("programs".into(), json!(progs.len()));
    rep.extra.insert("documents".into(), json!(docs.len()));
    rep.extra.insert("layouts".into(), json!(lays.iter().map(|l| l.name()).collect::<Vec<_>>()));
    rep.extra.insert("layouts_per_pair".into(), json!(if thorough { "all" } else { "a rotating third (every layout meets every program and every document)" }));
    let (t, p) = &written[docs.len() - 2][lays.len() - 5];
    rep.samples.push(json!({"rules": progs[7].0, "layout": lays[lays.len() - 5].name(), "data": t, "scalar_positions": p}));
    rep.rule = "states = (function-free program, document, layout written by the harness's position-tracking writer); for every check of validate --structured -o json: every {path, value} pair must resolve in the source document to exactly that value, an unresolved check's traversed_to must be one of the points where an independent walk of the query gets stuck, and every Path=<p>[L:l,C:c] whose path names a scalar must carry the 0-based line and column at which the writer put that scalar".into();
    rep.assumptions = vec!["keys contain no '/'; block literal / folded scalars, anchors and multi-line scalars are not generated".into()];
    let mut rep = rep;
    res.acc.into_report(&mut rep);
    cleanup_workdirs();
    rep.finish()
}
