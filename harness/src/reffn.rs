//! Independent reference implementations of the built-in functions (C18). Filled in by c18.
use crate::refsem::QR;
pub fn call(f: &str, _args: &[Vec<QR>]) -> Result<Vec<QR>, String> {
    Err(format!("function {} not modelled here", f))
}
