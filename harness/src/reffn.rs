//! Independent reference implementations of the built-in functions (C18), written from
//! docs/FUNCTIONS.md with std string methods, a hand-written percent decoder and serde_json.
//! [pin] marks behaviour the documentation leaves open and the pinned commit fixes.
use crate::refsem::QR;
use crate::val::V;

fn strings_map(args: &[QR], f: impl Fn(&str) -> Result<Option<V>, String>) -> Result<Vec<QR>, String> {
    let mut out = vec![];
    for a in args {
        if let QR::R(V::Str(s)) = a {
            if let Some(v) = f(s)? {
                out.push(QR::R(v));
            }
        }
        // values of unsupported type and unresolved values are skipped
    }
    Ok(out)
}

pub fn percent_decode(s: &str) -> Option<String> {
    let b = s.as_bytes();
    let mut out: Vec<u8> = Vec::with_capacity(b.len());
    let hex = |c: u8| -> Option<u8> {
        match c {
            b'0'..=b'9' => Some(c - b'0'),
            b'a'..=b'f' => Some(c - b'a' + 10),
            b'A'..=b'F' => Some(c - b'A' + 10),
            _ => None,
        }
    };
    let mut i = 0;
    while i < b.len() {
        if b[i] == b'%' && i + 2 < b.len() {
            if let (Some(h), Some(l)) = (hex(b[i + 1]), hex(b[i + 2])) {
                out.push(h * 16 + l);
                i += 3;
                continue;
            }
        }
        out.push(b[i]);
        i += 1;
    }
    String::from_utf8(out).ok()
}

fn first_scalar<'a>(args: &'a [QR]) -> Option<&'a V> {
    match args.first() {
        Some(QR::R(v)) => Some(v),
        _ => None,
    }
}

pub fn regex_replace_ref(s: &str, pat: &str, rep: &str) -> Option<String> {
    // [pin] the result is the concatenation of the replacement for every match (text between matches is dropped)
    let n = s.chars().count();
    let mut out = String::new();
    let mut from = 0;
    let mut last_end: Option<usize> = None;
    loop {
        match crate::mre::find_from(pat, s, from)? {
            None => break,
            Some((st, en)) => {
                // standard iteration: an empty match directly at the end of the previous match is not a match
                if en == st && last_end == Some(st) {
                    from = st + 1;
                    if from > n {
                        break;
                    }
                    continue;
                }
                out.push_str(rep);
                last_end = Some(en);
                from = if en > st { en } else { en + 1 };
                if from > n {
                    break;
                }
            }
        }
    }
    Some(out)
}

pub fn call(f: &str, args: &[Vec<QR>]) -> Result<Vec<QR>, String> {
    let a0: &[QR] = args.first().map(|v| v.as_slice()).unwrap_or(&[]);
    match f {
        "count" => Ok(vec![QR::R(V::Int(a0.iter().filter(|x| matches!(x, QR::R(_))).count() as i64))]),
        "to_upper" => strings_map(a0, |s| Ok(Some(V::Str(s.to_uppercase())))),
        "to_lower" => strings_map(a0, |s| Ok(Some(V::Str(s.to_lowercase())))),
        "url_decode" => strings_map(a0, |s| Ok(percent_decode(s).map(V::Str))),
        // as loading the text as a document does: the integer spelling `-0` is the integer 0 (`-0.0` stays a float)
        "json_parse" => strings_map(a0, |s| match serde_json::from_str::<serde_json::Value>(s).and_then(|_| serde_json::from_str::<serde_json::Value>(&minus_zero_int(s))) {
            Ok(j) => Ok(Some(V::from_json_value(&j))),
            Err(e) => Err(format!("not JSON: {}", e)),
        }),
        "substring" => {
            let idx = |k: usize| -> Result<usize, String> {
                match args.get(k).and_then(|a| first_scalar(a)) {
                    // an index that is negative or beyond every string is out of bounds (docs: such strings are skipped)
                    Some(V::Int(n)) => Ok(usize::try_from(*n).unwrap_or(usize::MAX)),
                    Some(V::Float(x)) => Ok(if *x < 0.0 || x.is_nan() { 0 } else if *x >= 1e18 { usize::MAX } else { x.trunc() as usize }),
                    _ => Err("substring index is not a number".into()),
                }
            };
            let (i, j) = (idx(1)?, idx(2)?);
            strings_map(a0, |s| {
                if !s.is_ascii() {
                    return Err("non-ascii".into()); // outside the documented domain: callers do not compare
                }
                if !s.is_empty() && i < j && j <= s.len() {
                    Ok(Some(V::Str(s[i..j].to_string())))
                } else {
                    Ok(None)
                }
            })
        }
        "join" => {
            let d = match args.get(1).and_then(|a| first_scalar(a)) {
                Some(V::Str(s)) => s.clone(),
                _ => return Err("join delimiter must be a string".into()),
            };
            let mut parts = vec![];
            for a in a0 {
                match a {
                    QR::R(V::Str(s)) => parts.push(s.clone()),
                    _ => return Err("join of a non-string / unresolved value".into()),
                }
            }
            Ok(vec![QR::R(V::Str(parts.join(&d)))])
        }
        "regex_replace" => {
            let (p, r) = match (args.get(1).and_then(|a| first_scalar(a)), args.get(2).and_then(|a| first_scalar(a))) {
                (Some(V::Str(p)), Some(V::Str(r))) => (p.clone(), r.clone()),
                _ => return Err("regex_replace needs string arguments".into()),
            };
            strings_map(a0, |s| regex_replace_ref(s, &p, &r).map(|x| Some(V::Str(x))).ok_or_else(|| "unsupported pattern".to_string()))
        }
        "parse_int" => {
            let mut out = vec![];
            for a in a0 {
                match a {
                    QR::R(V::Str(s)) => out.push(QR::R(V::Int(s.parse::<i64>().map_err(|_| format!("cannot parse {} as int", s))?))),
                    QR::R(V::Int(n)) => out.push(QR::R(V::Int(*n))),
                    QR::R(V::Float(x)) => out.push(QR::R(V::Int(x.trunc() as i64))),
                    _ => {}
                }
            }
            Ok(out)
        }
        "parse_float" => {
            let mut out = vec![];
            for a in a0 {
                match a {
                    QR::R(V::Str(s)) => out.push(QR::R(V::Float(s.parse::<f64>().map_err(|_| format!("cannot parse {} as float", s))?))),
                    QR::R(V::Int(n)) => out.push(QR::R(V::Float(*n as f64))),
                    QR::R(V::Float(x)) => out.push(QR::R(V::Float(*x))),
                    _ => {}
                }
            }
            Ok(out)
        }
        "parse_boolean" => {
            let mut out = vec![];
            for a in a0 {
                match a {
                    QR::R(V::Str(s)) => match s.to_lowercase().as_str() {
                        "true" => out.push(QR::R(V::Bool(true))),
                        "false" => out.push(QR::R(V::Bool(false))),
                        _ => return Err(format!("cannot parse {} as boolean", s)),
                    },
                    QR::R(V::Bool(b)) => out.push(QR::R(V::Bool(*b))),
                    _ => {}
                }
            }
            Ok(out)
        }
        "parse_string" => {
            let mut out = vec![];
            for a in a0 {
                match a {
                    QR::R(V::Str(s)) => out.push(QR::R(V::Str(s.clone()))),
                    QR::R(V::Int(n)) => out.push(QR::R(V::Str(n.to_string()))),
                    QR::R(V::Float(x)) => out.push(QR::R(V::Str(format!("{}", x)))),
                    QR::R(V::Bool(b)) => out.push(QR::R(V::Str(b.to_string()))),
                    _ => {}
                }
            }
            Ok(out)
        }
        "parse_char" => {
            // ints 0..=9 and one-character strings become characters (modelled as one-character strings); other ints and longer
            // strings are errors; the empty string and values of other types are skipped
            let mut out = vec![];
            for a in a0 {
                match a {
                    QR::R(V::Int(n)) => {
                        if (0..=9).contains(n) {
                            out.push(QR::R(V::Str(n.to_string())));
                        } else {
                            return Err(format!("cannot convert {} into a char", n));
                        }
                    }
                    QR::R(V::Str(s)) => {
                        if s.is_empty() {
                            continue;
                        }
                        if !s.is_ascii() {
                            return Err("non-ascii".into());
                        }
                        if s.len() > 1 {
                            return Err(format!("cannot convert {} into a char", s));
                        }
                        out.push(QR::R(V::Str(s.clone())));
                    }
                    _ => {}
                }
            }
            Ok(out)
        }
        _ => Err(format!("function {} not modelled", f)),
    }
}

/// `-0` outside strings, not followed by a fraction or exponent, rewritten to `0`
fn minus_zero_int(t: &str) -> String {
    let cs: Vec<char> = t.chars().collect();
    let mut out = String::with_capacity(t.len());
    let (mut in_str, mut esc) = (false, false);
    let mut k = 0;
    while k < cs.len() {
        let c = cs[k];
        if in_str {
            out.push(c);
            if esc {
                esc = false;
            } else if c == '\\' {
                esc = true;
            } else if c == '"' {
                in_str = false;
            }
        } else if c == '"' {
            in_str = true;
            out.push(c);
        } else if c == '-' && cs.get(k + 1) == Some(&'0') && !cs.get(k + 2).map_or(false, |n| n.is_ascii_digit() || matches!(n, '.' | 'e' | 'E')) {
            // drop the sign
        } else {
            out.push(c);
        }
        k += 1;
    }
    out
}
