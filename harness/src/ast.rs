//! Harness-side Guard AST and a style-parametrised pretty printer.
use crate::val::V;

#[derive(Clone, Debug, PartialEq)]
pub enum Part {
    This,
    Key(String),
    Var(String),      // %v (head position only)
    Star,             // .*
    All,              // [*]
    Idx(i32),         // [n]
    Filter(Cnf),      // [ cnf ]
    KeysFilter(bool /*not*/, BinOp, V), // [ keys == v ] (literal only)
}

pub type Query = Vec<Part>;

#[derive(Clone, Copy, Debug, PartialEq, Eq, Hash)]
pub enum UnOp {
    Exists,
    Empty,
    IsString,
    IsList,
    IsStruct,
    IsBool,
    IsInt,
    IsFloat,
    IsNull,
}
pub const UNOPS: [UnOp; 9] = [
    UnOp::Exists,
    UnOp::Empty,
    UnOp::IsString,
    UnOp::IsList,
    UnOp::IsStruct,
    UnOp::IsBool,
    UnOp::IsInt,
    UnOp::IsFloat,
    UnOp::IsNull,
];
impl UnOp {
    pub fn txt(&self) -> &'static str {
        match self {
            UnOp::Exists => "exists",
            UnOp::Empty => "empty",
            UnOp::IsString => "is_string",
            UnOp::IsList => "is_list",
            UnOp::IsStruct => "is_struct",
            UnOp::IsBool => "is_bool",
            UnOp::IsInt => "is_int",
            UnOp::IsFloat => "is_float",
            UnOp::IsNull => "is_null",
        }
    }
}

#[derive(Clone, Copy, Debug, PartialEq, Eq, Hash)]
pub enum BinOp {
    Eq,
    In,
    Lt,
    Le,
    Gt,
    Ge,
}
pub const BINOPS: [BinOp; 6] = [BinOp::Eq, BinOp::In, BinOp::Lt, BinOp::Le, BinOp::Gt, BinOp::Ge];
impl BinOp {
    pub fn has_neg(&self) -> bool {
        matches!(self, BinOp::Eq | BinOp::In)
    }
}

#[derive(Clone, Debug, PartialEq)]
pub enum Arg {
    Lit(V),
    Q(bool /*some*/, Query),
    Call(String, Vec<Arg>),
}

#[derive(Clone, Debug, PartialEq)]
pub enum Clause {
    Unary {
        not: bool,
        some: bool,
        q: Query,
        op: UnOp,
        opneg: bool,
        msg: Option<String>,
    },
    Binary {
        not: bool,
        some: bool,
        q: Query,
        op: BinOp,
        opneg: bool,
        rhs: Arg,
        msg: Option<String>,
    },
    Named {
        not: bool,
        name: String,
        msg: Option<String>,
    },
    Call {
        not: bool,
        name: String,
        args: Vec<Arg>,
        msg: Option<String>,
    },
    Block {
        some: bool,
        q: Query,
        not_empty: bool,
        lets: Vec<Let>,
        body: Cnf,
    },
    When {
        cond: Cnf,
        lets: Vec<Let>,
        body: Cnf,
    },
    TypeBlock {
        tname: String,
        cond: Option<Cnf>,
        lets: Vec<Let>,
        body: Cnf,
    },
}

pub type Cnf = Vec<Vec<Clause>>;

#[derive(Clone, Debug, PartialEq)]
pub struct Let {
    pub name: String,
    pub val: Arg,
}

#[derive(Clone, Debug, PartialEq)]
pub struct Rule {
    pub name: String,
    pub params: Option<Vec<String>>,
    pub when: Option<Cnf>,
    pub lets: Vec<Let>,
    pub body: Cnf,
}

#[derive(Clone, Debug, PartialEq, Default)]
pub struct File {
    pub lets: Vec<Let>,
    pub rules: Vec<Rule>,
    /// clauses outside any rule (the implicit default rule), printed before the rules
    pub default: Cnf,
}

// ---------- constructors
pub fn key(k: &str) -> Part {
    Part::Key(k.to_string())
}
pub fn q(parts: &[Part]) -> Query {
    parts.to_vec()
}
pub fn un(qq: Query, op: UnOp, opneg: bool) -> Clause {
    Clause::Unary {
        not: false,
        some: false,
        q: qq,
        op,
        opneg,
        msg: None,
    }
}
pub fn bin(qq: Query, op: BinOp, opneg: bool, lit: V) -> Clause {
    Clause::Binary {
        not: false,
        some: false,
        q: qq,
        op,
        opneg,
        rhs: Arg::Lit(lit),
        msg: None,
    }
}
pub fn named(n: &str) -> Clause {
    Clause::Named {
        not: false,
        name: n.to_string(),
        msg: None,
    }
}
pub fn rule(name: &str, body: Cnf) -> Rule {
    Rule {
        name: name.to_string(),
        params: None,
        when: None,
        lets: vec![],
        body,
    }
}
pub fn file1(r: Rule) -> File {
    File {
        lets: vec![],
        rules: vec![r],
        default: vec![],
    }
}
impl Clause {
    pub fn with_not(mut self, n: bool) -> Clause {
        match &mut self {
            Clause::Unary { not, .. } | Clause::Binary { not, .. } | Clause::Named { not, .. } | Clause::Call { not, .. } => *not = n,
            _ => panic!("not on block"),
        }
        self
    }
    pub fn with_some(mut self, s: bool) -> Clause {
        match &mut self {
            Clause::Unary { some, .. } | Clause::Binary { some, .. } | Clause::Block { some, .. } => *some = s,
            _ => panic!("some on non-query clause"),
        }
        self
    }
    pub fn with_msg(mut self, m: &str) -> Clause {
        match &mut self {
            Clause::Unary { msg, .. } | Clause::Binary { msg, .. } | Clause::Named { msg, .. } | Clause::Call { msg, .. } => *msg = Some(m.to_string()),
            _ => {}
        }
        self
    }
    pub fn is_leaf(&self) -> bool {
        matches!(self, Clause::Unary { .. } | Clause::Binary { .. } | Clause::Named { .. } | Clause::Call { .. })
    }
}

// ---------- printer
#[derive(Clone, Debug)]
pub struct Style {
    pub not: &'static str,      // "not " | "NOT " | "!"
    pub or: &'static str,       // "or" | "OR" | "|OR|"
    pub assign: &'static str,   // "=" | ":="
    pub quote: char,            // '"' | '\''
    pub upper_kw: u32,          // bitmask of keyword classes printed in upper case (see KW_*)
    pub idx_dot: bool,          // .n instead of [n]
    pub lead_this: bool,        // explicit leading "this." on key-headed queries
    pub indent: &'static str,   // "  " | "" | "\t"
    pub blank_lines: bool,      // blank line between lines
    pub trailing_ws: bool,      // trailing spaces at end of each line
    pub comment_at: Option<usize>, // insert a comment at the n-th inter-token whitespace slot
    pub or_break: bool,         // line break after `or`
    pub list_break: bool,       // line breaks inside list literals / filters
    pub list_comma_first: u8,   // 1: a space before every comma of a list literal, 2: the line break before the comma
    pub in_upper: bool,
    pub opneg_bang: bool,       // operator-level negation written "!exists" (true) or "not exists" (false)
    pub eol_comment: bool,      // `# c` at the end of every line
    pub comment_lines: bool,    // a comment line between lines
    pub filter_break: bool,     // line break after `[` and before `]` of a filter
    pub crlf: bool,             // \r\n line ends
    pub slots: std::cell::Cell<usize>, // slot counter (filled while printing)
}
pub const KW_WHEN: u32 = 1;
pub const KW_IN: u32 = 2;
pub const KW_EXISTS: u32 = 4;
pub const KW_EMPTY: u32 = 8;
pub const KW_IS: u32 = 16;
pub const KW_SOME: u32 = 32;
pub const KW_THIS: u32 = 64;
pub const KW_KEYS: u32 = 128;
pub const KW_BOOL: u32 = 256; // True/False
pub const KW_NULL: u32 = 512; // NULL

impl Default for Style {
    fn default() -> Self {
        Style {
            not: "not ",
            or: "or",
            assign: "=",
            quote: '"',
            upper_kw: 0,
            idx_dot: false,
            lead_this: false,
            indent: "  ",
            blank_lines: false,
            trailing_ws: false,
            comment_at: None,
            or_break: false,
            list_break: false,
            list_comma_first: 0,
            in_upper: false,
            opneg_bang: true,
            eol_comment: false,
            comment_lines: false,
            filter_break: false,
            crlf: false,
            slots: std::cell::Cell::new(0),
        }
    }
}

pub struct Printer<'a> {
    pub st: &'a Style,
    pub out: String,
}

impl<'a> Printer<'a> {
    pub fn new(st: &'a Style) -> Self {
        st.slots.set(0);
        Printer { st, out: String::new() }
    }
    /// an inter-token position where the grammar admits whitespace/comments
    fn slot(&mut self, default_ws: &str) {
        let n = self.st.slots.get();
        self.st.slots.set(n + 1);
        if self.st.comment_at == Some(n) {
            self.out.push_str(" # c\n");
        } else {
            self.out.push_str(default_ws);
        }
    }
    fn kw(&self, class: u32, lower: &'static str, upper: &'static str) -> &'static str {
        if self.st.upper_kw & class != 0 {
            upper
        } else {
            lower
        }
    }
    fn nl(&mut self, depth: usize) {
        if self.st.trailing_ws {
            self.out.push_str("  ");
        }
        if self.st.eol_comment {
            self.out.push_str(" # c");
        }
        if self.st.crlf {
            self.out.push('\r');
        }
        self.out.push('\n');
        if self.st.blank_lines {
            self.out.push('\n');
        }
        if self.st.comment_lines {
            self.out.push_str("# a comment line\n");
        }
        for _ in 0..depth {
            self.out.push_str(self.st.indent);
        }
    }
    fn lit(&mut self, v: &V) {
        let mut t = v.guard_q(self.st.quote);
        if self.st.upper_kw & KW_BOOL != 0 {
            if t == "true" {
                t = "True".into()
            } else if t == "false" {
                t = "False".into()
            }
        }
        if self.st.upper_kw & KW_NULL != 0 && t == "null" {
            t = "NULL".into();
        }
        if self.st.list_comma_first > 0 {
            if let V::List(_) = v {
                t = t.replace(',', if self.st.list_comma_first == 1 { " , " } else { "\n , " }).replacen('[', "[ ", 1);
            }
        }
        if self.st.list_break {
            if let V::List(_) = v {
                t = t.replace(',', ",\n ").replacen('[', "[\n ", 1);
            }
        }
        self.out.push_str(&t);
    }
    pub fn query(&mut self, qq: &Query) {
        for (i, p) in qq.iter().enumerate() {
            match p {
                Part::This => self.out.push_str(self.kw(KW_THIS, "this", "THIS")),
                Part::Var(v) => {
                    // after the head position a variable is a key interpolation: `a.%v`
                    if i > 0 {
                        self.out.push('.');
                    }
                    self.out.push('%');
                    self.out.push_str(v);
                }
                Part::Key(k) => {
                    if i == 0 {
                        if self.st.lead_this {
                            self.out.push_str(self.kw(KW_THIS, "this", "THIS"));
                            self.out.push('.');
                        }
                    } else {
                        self.out.push('.');
                    }
                    let simple = k.chars().next().map_or(false, |c| c.is_ascii_alphabetic())
                        && k.chars().all(|c| c.is_ascii_alphanumeric() || c == '_');
                    if simple {
                        self.out.push_str(k);
                    } else {
                        self.out.push_str(&V::Str(k.clone()).guard_q(self.st.quote));
                    }
                }
                Part::Star => self.out.push_str(".*"),
                Part::All => self.out.push_str("[*]"),
                Part::Idx(n) => {
                    if self.st.idx_dot {
                        self.out.push_str(&format!(".{}", n));
                    } else {
                        self.out.push_str(&format!("[{}]", n));
                    }
                }
                Part::Filter(c) => {
                    self.out.push('[');
                    if self.st.filter_break {
                        self.out.push_str("\n    ");
                    }
                    self.slot(" ");
                    self.cnf_inline(c);
                    self.slot(" ");
                    if self.st.filter_break {
                        self.out.push_str("\n  ");
                    }
                    self.out.push(']');
                }
                Part::KeysFilter(not, op, v) => {
                    self.out.push('[');
                    self.slot(" ");
                    self.out.push_str(self.kw(KW_KEYS, "keys", "KEYS"));
                    self.slot(" ");
                    match (op, not) {
                        (BinOp::Eq, false) => self.out.push_str("=="),
                        (BinOp::Eq, true) => self.out.push_str("!="),
                        (BinOp::In, false) => self.out.push_str(self.kw(KW_IN, "in", "IN")),
                        (BinOp::In, true) => {
                            self.out.push_str(self.st.not);
                            self.out.push_str(self.kw(KW_IN, "in", "IN"));
                        }
                        _ => panic!("keys filter op"),
                    }
                    self.out.push(' ');
                    self.lit(v);
                    self.slot(" ");
                    self.out.push(']');
                }
            }
        }
    }
    /// CNF inside a filter: lines separated by newline (the only conjunction separator)
    fn cnf_inline(&mut self, c: &Cnf) {
        for (li, line) in c.iter().enumerate() {
            if li > 0 {
                self.out.push('\n');
            }
            for (ai, alt) in line.iter().enumerate() {
                if ai > 0 {
                    self.or_sep();
                }
                self.clause(alt, 0);
            }
        }
    }
    fn or_sep(&mut self) {
        self.slot(" ");
        self.out.push_str(self.st.or);
        if self.st.or_break {
            self.out.push('\n');
        } else {
            self.slot(" ");
            // a slot that produced nothing would glue `or` to the next token
            if !self.out.ends_with(' ') && !self.out.ends_with('\n') {
                self.out.push(' ');
            }
        }
    }
    pub fn arg(&mut self, a: &Arg) {
        match a {
            Arg::Lit(v) => self.lit(v),
            Arg::Q(some, qq) => {
                if *some {
                    self.out.push_str(self.kw(KW_SOME, "some ", "SOME "));
                }
                self.query(qq)
            }
            Arg::Call(f, args) => {
                self.out.push_str(f);
                self.out.push('(');
                for (i, a) in args.iter().enumerate() {
                    if i > 0 {
                        self.out.push_str(", ");
                    }
                    self.arg(a);
                }
                self.out.push(')');
            }
        }
    }
    fn msg(&mut self, m: &Option<String>) {
        if let Some(m) = m {
            self.out.push_str(" <<");
            self.out.push_str(m);
            self.out.push_str(">>");
        }
    }
    fn lets(&mut self, ls: &[Let], depth: usize) {
        for l in ls {
            self.out.push_str("let ");
            self.out.push_str(&l.name);
            self.out.push(' ');
            self.out.push_str(self.st.assign);
            self.out.push(' ');
            self.arg(&l.val);
            self.nl(depth);
        }
    }
    fn block_body(&mut self, ls: &[Let], body: &Cnf, depth: usize) {
        self.out.push('{');
        self.nl(depth + 1);
        self.lets(ls, depth + 1);
        self.cnf(body, depth + 1);
        self.nl(depth);
        self.out.push('}');
    }
    pub fn cnf(&mut self, c: &Cnf, depth: usize) {
        for (li, line) in c.iter().enumerate() {
            if li > 0 {
                self.nl(depth);
            }
            for (ai, alt) in line.iter().enumerate() {
                if ai > 0 {
                    self.or_sep();
                }
                self.clause(alt, depth);
            }
        }
    }
    /// `when` conditions: each line on its own line is not allowed before `{`? It is: single_clauses
    /// is a CNF separated by whitespace; we print lines separated by newline.
    fn when_cnf(&mut self, c: &Cnf, depth: usize) {
        for (li, line) in c.iter().enumerate() {
            if li > 0 {
                self.nl(depth + 2);
            }
            for (ai, alt) in line.iter().enumerate() {
                if ai > 0 {
                    self.or_sep();
                }
                self.clause(alt, depth);
            }
        }
    }
    pub fn clause(&mut self, c: &Clause, depth: usize) {
        match c {
            Clause::Unary { not, some, q, op, opneg, msg } => {
                if *not {
                    self.out.push_str(self.st.not);
                }
                if *some {
                    self.out.push_str(self.kw(KW_SOME, "some ", "SOME "));
                }
                self.query(q);
                self.slot(" ");
                if !self.out.ends_with(' ') && !self.out.ends_with('\n') {
                    self.out.push(' ');
                }
                if *opneg {
                    if self.st.opneg_bang {
                        self.out.push('!');
                    } else {
                        self.out.push_str(self.st.not);
                    }
                }
                let t = match op {
                    UnOp::Exists => self.kw(KW_EXISTS, "exists", "EXISTS"),
                    UnOp::Empty => self.kw(KW_EMPTY, "empty", "EMPTY"),
                    UnOp::IsString => self.kw(KW_IS, "is_string", "IS_STRING"),
                    UnOp::IsList => self.kw(KW_IS, "is_list", "IS_LIST"),
                    UnOp::IsStruct => self.kw(KW_IS, "is_struct", "IS_STRUCT"),
                    UnOp::IsBool => self.kw(KW_IS, "is_bool", "IS_BOOL"),
                    UnOp::IsInt => self.kw(KW_IS, "is_int", "IS_INT"),
                    UnOp::IsFloat => self.kw(KW_IS, "is_float", "IS_FLOAT"),
                    UnOp::IsNull => self.kw(KW_IS, "is_null", "IS_NULL"),
                };
                self.out.push_str(t);
                self.msg(msg);
            }
            Clause::Binary { not, some, q, op, opneg, rhs, msg } => {
                if *not {
                    self.out.push_str(self.st.not);
                }
                if *some {
                    self.out.push_str(self.kw(KW_SOME, "some ", "SOME "));
                }
                self.query(q);
                self.slot(" ");
                if !self.out.ends_with(' ') && !self.out.ends_with('\n') {
                    self.out.push(' ');
                }
                match (op, opneg) {
                    (BinOp::Eq, false) => self.out.push_str("=="),
                    (BinOp::Eq, true) => self.out.push_str("!="),
                    (BinOp::In, false) => self.out.push_str(self.kw(KW_IN, "in", "IN")),
                    (BinOp::In, true) => {
                        if self.st.opneg_bang && self.st.not == "!" {
                            self.out.push('!');
                        } else {
                            self.out.push_str(if self.st.not == "!" { "not " } else { self.st.not });
                        }
                        self.out.push_str(self.kw(KW_IN, "in", "IN"));
                    }
                    (BinOp::Lt, false) => self.out.push('<'),
                    (BinOp::Le, false) => self.out.push_str("<="),
                    (BinOp::Gt, false) => self.out.push('>'),
                    (BinOp::Ge, false) => self.out.push_str(">="),
                    _ => panic!("ordering operators have no operator-level negation"),
                }
                self.slot(" ");
                if !self.out.ends_with(' ') && !self.out.ends_with('\n') {
                    self.out.push(' ');
                }
                self.arg(rhs);
                self.msg(msg);
            }
            Clause::Named { not, name, msg } => {
                if *not {
                    self.out.push_str(self.st.not);
                }
                self.out.push_str(name);
                self.msg(msg);
            }
            Clause::Call { not, name, args, msg } => {
                if *not {
                    self.out.push_str(self.st.not);
                }
                self.out.push_str(name);
                self.out.push('(');
                for (i, a) in args.iter().enumerate() {
                    if i > 0 {
                        self.out.push_str(", ");
                    }
                    self.arg(a);
                }
                self.out.push(')');
                self.msg(msg);
            }
            Clause::Block { some, q, not_empty, lets, body } => {
                if *some {
                    self.out.push_str(self.kw(KW_SOME, "some ", "SOME "));
                }
                self.query(q);
                if *not_empty {
                    self.out.push_str(" !");
                    self.out.push_str(self.kw(KW_EMPTY, "empty", "EMPTY"));
                }
                self.out.push(' ');
                self.block_body(lets, body, depth);
            }
            Clause::When { cond, lets, body } => {
                self.out.push_str(self.kw(KW_WHEN, "when", "WHEN"));
                self.out.push(' ');
                self.when_cnf(cond, depth);
                self.out.push(' ');
                self.block_body(lets, body, depth);
            }
            Clause::TypeBlock { tname, cond, lets, body } => {
                self.out.push_str(tname);
                self.out.push(' ');
                if let Some(c) = cond {
                    self.out.push_str(self.kw(KW_WHEN, "when", "WHEN"));
                    self.out.push(' ');
                    self.when_cnf(c, depth);
                    self.out.push(' ');
                }
                self.block_body(lets, body, depth);
            }
        }
    }
    pub fn rule(&mut self, r: &Rule) {
        self.out.push_str("rule ");
        self.out.push_str(&r.name);
        if let Some(ps) = &r.params {
            self.out.push('(');
            self.out.push_str(&ps.join(", "));
            self.out.push(')');
        }
        if let Some(w) = &r.when {
            self.out.push(' ');
            self.out.push_str(self.kw(KW_WHEN, "when", "WHEN"));
            self.out.push(' ');
            self.when_cnf(w, 0);
        }
        self.out.push(' ');
        self.block_body(&r.lets, &r.body, 0);
        self.nl(0);
    }
    pub fn file(&mut self, f: &File) {
        self.lets(&f.lets, 0);
        if !f.default.is_empty() {
            self.cnf(&f.default, 0);
            self.nl(0);
        }
        for r in &f.rules {
            self.rule(r);
        }
    }
}

pub fn print_file(f: &File) -> String {
    let st = Style::default();
    print_file_with(f, &st)
}
pub fn print_file_with(f: &File, st: &Style) -> String {
    let mut p = Printer::new(st);
    p.file(f);
    p.out
}
pub fn print_clause(c: &Clause) -> String {
    let st = Style::default();
    let mut p = Printer::new(&st);
    p.clause(c, 0);
    p.out
}
pub fn print_query(qq: &Query) -> String {
    let st = Style::default();
    let mut p = Printer::new(&st);
    p.query(qq);
    p.out
}
