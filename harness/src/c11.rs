//! C11 — a document means the same however it is written or loaded (DESIGN 5/C11).
use crate::c01::Acc;
use crate::cli::*;
use crate::evidence::Report;
use crate::impl_::lib_raw;
use crate::val::*;
use crate::yamlw::*;
use serde_json::{json, Value};

pub fn scalars() -> Vec<V> {
    let mut v: Vec<V> = ["x", "", "007", "true", "null", "1e3", "~", " a ", "é", "a: b", "#c", "- d", "it's", "q\"uote", "multi word", "yes", "0x1F", "1.0", "-5", "[1]", "{a}", "a,b", "ünï😀", "NULL", "False"].iter().map(|x| s(x)).collect();
    // control characters and the characters YAML 1.1 reads as line breaks (appended so that the indices above stay put)
    let ctl = ["x\u{0}y", "t\tb", "\u{1}", "a\u{7f}b", "a\u{85}b", "a\u{2028}b", "\u{feff}x"];
    v.extend(vec![i(0), i(-1), i(i64::MIN), i(i64::MAX), i(42), f(0.5), f(-2.25), f(1e20), f(1.0), f(0.0), V::Bool(true), V::Bool(false), V::Null]);
    v.extend(ctl.iter().map(|x| s(x)));
    v
}

pub fn documents(thorough: bool) -> Vec<V> {
    let sc = scalars();
    let mut out = vec![];
    for x in &sc {
        out.push(m(vec![("k1", x.clone())]));
        out.push(m(vec![("k1", l(vec![x.clone(), i(7)])), ("k2", m(vec![("k3", x.clone())]))]));
    }
    // pairs in both key orders, nested lists of maps
    let pick: Vec<V> = if thorough { sc.clone() } else { vec![sc[0].clone(), sc[2].clone(), sc[3].clone(), sc[25].clone(), sc[31].clone(), sc[33].clone(), sc[35].clone(), sc[37].clone()] };
    for a in &pick {
        for b in &pick {
            out.push(m(vec![("k1", a.clone()), ("k2", b.clone())]));
            out.push(m(vec![("k2", a.clone()), ("k1", b.clone())]));
            out.push(m(vec![("k1", l(vec![m(vec![("k2", a.clone()), ("k3", b.clone())]), b.clone()]))]));
        }
    }
    out.push(m(vec![("k1", l(vec![])), ("k2", m(vec![]))]));
    out.push(m(vec![("k1", l(vec![l(vec![i(1), i(2)]), l(vec![])]))]));
    out.push(m(vec![("zeta", i(1)), ("alpha", i(2)), ("mid", i(3))]));
    // a one-entry map with a null value next to lists (the shape the loader uses internally for `!Join [..]`), nulls and
    // empty collections in every neighbouring position
    let kn = || m(vec![("k", V::Null)]);
    out.push(m(vec![("k1", l(vec![kn(), l(vec![i(1), i(2)]), s("end")]))]));
    out.push(m(vec![("k1", l(vec![l(vec![i(1)]), kn(), l(vec![i(2)]), kn()]))]));
    out.push(m(vec![("k1", l(vec![kn(), l(vec![]), kn(), m(vec![])]))]));
    out.push(m(vec![("k1", l(vec![m(vec![("Fn::Join", V::Null)]), l(vec![s(","), l(vec![s("a")])])]))]));
    out.push(m(vec![("k1", kn()), ("k2", l(vec![i(1)])), ("k3", V::Null), ("k4", l(vec![V::Null, l(vec![V::Null])]))]));
    out.push(m(vec![("k1", l(vec![m(vec![("k", V::Null), ("j", i(1))]), l(vec![i(1)])]))]));
    out
}

/// thorough tier only: every string of the scalar universe as a key (top level and nested, next to itself as a value),
/// and every triple over a 14-element subset in three nested shapes
pub fn deep_documents() -> Vec<V> {
    let sc = scalars();
    let mut out = vec![];
    for x in &sc {
        if let V::Str(k) = x {
            if k.is_empty() || k.chars().any(|c| (c as u32) < 0x20 || matches!(c as u32, 0x7f..=0x9f | 0x2028 | 0x2029 | 0xfeff)) {
                continue;
            }
            out.push(V::Map(vec![(k.clone(), i(1))]));
            out.push(V::Map(vec![("k1".into(), V::Map(vec![(k.clone(), l(vec![x.clone()]))])), (k.clone(), x.clone())]));
            out.push(V::Map(vec![("k1".into(), l(vec![V::Map(vec![(k.clone(), V::Null), ("z".into(), x.clone())])]))]));
        }
    }
    let idx = [0usize, 1, 2, 3, 4, 7, 15, 17, 25, 27, 29, 30, 35, 37];
    let pick: Vec<V> = idx.iter().filter_map(|k| sc.get(*k).cloned()).collect();
    for a in &pick {
        for b in &pick {
            for c in &pick {
                out.push(m(vec![("k1", l(vec![a.clone(), m(vec![("k2", b.clone()), ("k3", l(vec![c.clone()]))])])), ("k4", m(vec![("k5", m(vec![("k6", a.clone())]))]))]));
                out.push(m(vec![("k1", a.clone()), ("k2", l(vec![l(vec![b.clone(), c.clone()]), l(vec![])])), ("k3", c.clone())]));
                out.push(m(vec![("k1", l(vec![a.clone(), b.clone(), c.clone()]))]));
            }
        }
    }
    out
}

fn type_op(v: &V) -> &'static str {
    match v {
        V::Null => "is_null",
        V::Bool(_) => "is_bool",
        V::Int(_) => "is_int",
        V::Float(_) => "is_float",
        V::Str(_) => "is_string",
        V::List(_) => "is_list",
        V::Map(_) => "is_struct",
        _ => unreachable!(),
    }
}

fn probes(v: &V, q: &str, out: &mut Vec<String>) {
    if !q.is_empty() {
        out.push(format!("{} {}", q, type_op(v)));
    }
    match v {
        V::Map(mm) => {
            for (k, x) in mm {
                // a key that reads as an integer is an index in a query (`.7` is `[7]`): such entries cannot be addressed by
                // name and are covered by the whole-document comparison only
                if k.parse::<i32>().is_ok() {
                    continue;
                }
                let simple = k.chars().next().map_or(false, |c| c.is_ascii_alphabetic()) && k.chars().all(|c| c.is_ascii_alphanumeric() || c == '_');
                let kq = if simple { k.clone() } else { V::Str(k.clone()).guard_q(if k.contains('\'') { '"' } else { '\'' }) };
                probes(x, &if q.is_empty() { kq } else { format!("{}.{}", q, kq) }, out);
            }
        }
        V::List(ll) => {
            for (n, x) in ll.iter().enumerate() {
                probes(x, &format!("{}[{}]", q, n), out);
            }
        }
        _ => {}
    }
}

/// rules file observing a document: literal equality, per-node type probes, a failing root clause that dumps the value
pub fn rules_for(doc: &V) -> (String, Vec<String>, bool) {
    let mut t = String::new();
    let mut names = vec![];
    let lit_ok = doc.guard_expressible() && !has_str(doc, &|s| s.ends_with('\\') || s.contains('\n') || s.contains('\u{0}'));
    if lit_ok {
        // pick the quote that needs no escaping when possible
        t.push_str(&format!("rule same {{ this == {} }}\n", doc.guard_q(if has_str(doc, &|s| s.contains('"')) && !has_str(doc, &|s| s.contains('\'')) { '\'' } else { '"' })));
        names.push("same".to_string());
    }
    let mut ps = vec![];
    probes(doc, "", &mut ps);
    for (k, p) in ps.iter().enumerate() {
        t.push_str(&format!("rule t{} {{ {} }}\n", k, p));
        names.push(format!("t{}", k));
    }
    t.push_str("rule dump { this == \"zzz-never-equal\" }\n");
    (t, names, lit_ok)
}
fn has_str(v: &V, f: &dyn Fn(&str) -> bool) -> bool {
    match v {
        V::Str(s) => f(s),
        V::List(l) => l.iter().any(|x| has_str(x, f)),
        V::Map(m) => m.iter().any(|(k, x)| f(k) || has_str(x, f)),
        _ => false,
    }
}

/// from a structured JSON report (object): (compliant names, value dumped by rule `dump`)
fn read_report(fr: &Value) -> (Vec<String>, Option<Value>, Vec<String>) {
    let comp: Vec<String> = fr["compliant"].as_array().map(|a| a.iter().filter_map(|x| x.as_str().map(|s| s.to_string())).collect()).unwrap_or_default();
    let mut dump = None;
    let mut failed = vec![];
    if let Some(nc) = fr["not_compliant"].as_array() {
        for r in nc {
            let name = r["Rule"]["name"].as_str().unwrap_or("").to_string();
            if name == "dump" {
                dump = r["Rule"]["checks"][0]["Clause"]["Binary"]["check"]["Resolved"]["from"]["value"].clone().into();
            }
            failed.push(name);
        }
    }
    (comp, dump, failed)
}

fn check_report(fr: &Value, doc: &V, names: &[String], loader: &str, layout: &str, text: &str, rules: &str, acc: &mut Acc) {
    let (comp, dump, failed) = read_report(fr);
    let want = doc.to_json_value();
    let replay = |obs: String| json!({"kind":"c11","loader":loader,"layout":layout,"data":text,"rules":rules,"expected":want.to_string(),"observed":obs});
    for n in names {
        if !comp.contains(n) {
            let kind = if n == "same" { "literal-equality" } else { "type-probe" };
            acc.violate(&format!("{}:{}:{}", kind, loader, layout.split('-').next().unwrap_or(layout)), format!("[{} / {}] rule {} is not PASS (failed: {:?}) for document {} written as `{}`", loader, layout, n, failed, want, text.trim()), replay(format!("{} not compliant", n)));
        }
    }
    match dump {
        Some(d) if d == want => {}
        other => {
            acc.violate(&format!("value-differs:{}:{}", loader, layout.split('-').next().unwrap_or(layout)), format!("[{} / {}] loaded value {} differs from the document {} written as `{}`", loader, layout, other.clone().map_or("<none>".to_string(), |v| v.to_string()), want, text.trim()), replay(other.map_or("<none>".to_string(), |v| v.to_string())));
        }
    }
}

fn indent_block(t: &str, n: usize) -> String {
    t.lines().map(|l| format!("{}{}", " ".repeat(n), l)).collect::<Vec<_>>().join("\n")
}

/// observe one (document text) through the three loaders
pub fn observe(doc: &V, text: &str, layout: &str, rules: &str, names: &[String], acc: &mut Acc) {
    // validate (libyaml loader)
    let ext = if layout.starts_with("json") { "json" } else { "yaml" };
    let rp = put("c11/r.guard", rules);
    let dp = put(&format!("c11/d.{}", ext), text);
    let o = cli_inproc(&sv(&["validate", "-r", &rp, "-d", &dp, "--structured", "-o", "json", "-S", "none"]), "");
    acc.traces += 1;
    *acc.outcomes.entry(format!("validate-exit-{}", o.status())).or_insert(0) += 1;
    match serde_json::from_str::<Value>(&o.out) {
        Ok(v) if v.get(0).is_some() && o.panic.is_none() => check_report(&v[0], doc, names, "validate", layout, text, rules, acc),
        _ => acc.violate(&format!("rejected:validate:{}", layout.split('-').next().unwrap_or(layout)), format!("[validate / {}] document not evaluated: code {:?} panic {:?} stderr {} | `{}`", layout, o.code, o.panic, o.err.chars().take(160).collect::<String>(), text.trim()), json!({"kind":"c11","loader":"validate","layout":layout,"data":text,"rules":rules,"expected":"evaluated","observed":format!("{:?}", o.code)})),
    }
    // run_checks (serde_json, then serde_yaml)
    acc.traces += 1;
    match lib_raw(rules, text, false) {
        Ok(Ok(sv_)) => match serde_json::from_str::<Value>(&sv_) {
            Ok(v) => check_report(&v, doc, names, "run_checks", layout, text, rules, acc),
            Err(e) => acc.violate("report-unreadable:run_checks", format!("{}", e), json!({"kind":"c11","loader":"run_checks","layout":layout,"data":text,"rules":rules,"expected":"JSON","observed":e.to_string()})),
        },
        other => acc.violate(&format!("rejected:run_checks:{}", layout.split('-').next().unwrap_or(layout)), format!("[run_checks / {}] document not evaluated: {:?} | `{}`", layout, other, text.trim()), json!({"kind":"c11","loader":"run_checks","layout":layout,"data":text,"rules":rules,"expected":"evaluated","observed":format!("{:?}", other)})),
    }
    // test (serde_yaml `input`)
    let mut tf = String::from("- name: c\n  input:\n");
    tf.push_str(&indent_block(text.trim_start_matches("---\n"), 4));
    tf.push_str("\n  expectations:\n    rules:\n");
    for n in names {
        tf.push_str(&format!("      {}: PASS\n", n));
    }
    tf.push_str("      dump: FAIL\n");
    let tp = put("c11/t.yaml", &tf);
    let o = cli_inproc(&sv(&["test", "-r", &rp, "-t", &tp]), "");
    acc.traces += 1;
    *acc.outcomes.entry(format!("test-exit-{}", o.status())).or_insert(0) += 1;
    if o.status() != 0 {
        let fails: Vec<&str> = o.out.lines().filter(|l| l.contains("Expected = ") && l.contains("Evaluated")).collect();
        acc.violate(&format!("test-loader:{}", layout.split('-').next().unwrap_or(layout)), format!("[test / {}] exit {} ({:?}; {}) for document {} written as `{}`", layout, o.status(), fails, o.code.clone().err().unwrap_or_default(), doc.json(), text.trim()), json!({"kind":"c11","loader":"test","layout":layout,"data":tf,"rules":rules,"expected":"exit 0","observed":format!("exit {} {:?}", o.status(), fails)}));
    }
}

// ------------------------------------------------------------------ intrinsic tags
const TAGS: [(&str, &str); 21] = [
    ("Ref", "Ref"),
    ("GetAtt", "Fn::GetAtt"),
    ("Base64", "Fn::Base64"),
    ("Sub", "Fn::Sub"),
    ("GetAZs", "Fn::GetAZs"),
    ("ImportValue", "Fn::ImportValue"),
    ("Condition", "Condition"),
    ("RefAll", "Fn::RefAll"),
    ("Select", "Fn::Select"),
    ("Split", "Fn::Split"),
    ("Join", "Fn::Join"),
    ("FindInMap", "Fn::FindInMap"),
    ("And", "Fn::And"),
    ("Equals", "Fn::Equals"),
    ("Contains", "Fn::Contains"),
    ("EachMemberIn", "Fn::EachMemberIn"),
    ("EachMemberEquals", "Fn::EachMemberEquals"),
    ("ValueOf", "Fn::ValueOf"),
    ("If", "Fn::If"),
    ("Not", "Fn::Not"),
    ("Or", "Fn::Or"),
];
const SCALAR_TAGS: [&str; 8] = ["Ref", "Base64", "Sub", "GetAZs", "ImportValue", "GetAtt", "Condition", "RefAll"];
const SEQ_TAGS: [&str; 15] = ["GetAtt", "Sub", "Select", "Split", "Join", "FindInMap", "And", "Equals", "Contains", "EachMemberIn", "EachMemberEquals", "ValueOf", "If", "Not", "Or"];

fn tag_cases() -> Vec<(String, String, V, bool)> {
    // (label, yaml text, expected long-form value, payload kind documented for the tag)
    let mut out = vec![];
    for (short, long) in TAGS {
        for payload in ["scalar", "sequence", "nested"] {
            let (ptxt, pval) = match payload {
                "scalar" => ("a.b".to_string(), s("a.b")),
                "sequence" => ("[p, q]".to_string(), l(vec![s("p"), s("q")])),
                _ => ("[!Ref p, q]".to_string(), l(vec![m(vec![("Ref", s("p"))]), s("q")])),
            };
            let documented = match payload {
                "scalar" => SCALAR_TAGS.contains(&short),
                _ => SEQ_TAGS.contains(&short),
            };
            let lv = V::Map(vec![(long.to_string(), pval.clone())]);
            for pos in ["map-value", "list-element", "top-level"] {
                let (text, val) = match pos {
                    "map-value" => (format!("k1: !{} {}\nk2: 1\n", short, ptxt), m(vec![("k1", lv.clone()), ("k2", i(1))])),
                    "list-element" => (format!("k1:\n  - !{} {}\n  - 1\n", short, ptxt), m(vec![("k1", l(vec![lv.clone(), i(1)]))])),
                    _ => (format!("!{} {}\n", short, ptxt), lv.clone()),
                };
                out.push((format!("!{}:{}:{}", short, payload, pos), text, val, documented));
            }
        }
    }
    out
}

// ------------------------------------------------------------------ rejections
fn rejected_inputs() -> Vec<(&'static str, &'static str)> {
    vec![
        ("int-key", "1: a\n"),
        ("bool-key", "true: a\n"),
        ("null-key", "~: a\n"),
        ("seq-key", "? [1]\n: a\n"),
        ("map-key", "? {a: 1}\n: b\n"),
        ("nested-int-key", "a:\n  2: b\n"),
        ("truncated-json", "{\"a\": [1,"),
        ("truncated-flow", "a: [1, 2\n"),
        ("unterminated-string", "a: \"abc\n"),
        ("bad-indent", "a:\n  b: 1\n c: 2\n"),
        ("empty", ""),
        ("whitespace-only", "  \n\n"),
        ("comment-only", "# nothing here\n"),
        ("tab-indent", "a:\n\tb: 1\n"),
        // a tagged scalar as a key is a map ({Ref: x}) in key position, not a string
        ("tagged-key", "!Ref x: v\n"),
        ("tagged-key-explicit", "? !Sub a\n: v\n"),
        ("nested-tagged-key", "a:\n  !GetAtt b.c: 1\n"),
        // a well-formed document followed by something else
        ("trailing-word", "{\"a\": 1} xyz"),
        ("trailing-brace", "{\"a\": 1}}"),
        ("trailing-comma", "{\"a\": 1},"),
        ("two-json-documents", "{\"a\": 1}{\"b\": 2}"),
        ("two-json-documents-lines", "{\"a\": 1}\n{\"b\": 2}\n"),
        ("trailing-text-after-end-marker", "a: 1\n...\nxyz: [\n"),
        ("two-yaml-documents", "a: 1\n---\nb: 2\n"),
        ("trailing-bracket-block", "a: 1\n]\n"),
    ]
}

pub fn run(tier: &str) -> i32 {
    let thorough = tier == "thorough";
    let mut rep = Report::new("C11", tier);
    let mut docs = documents(true);
    if thorough {
        docs.extend(deep_documents());
    }
    let lays = layouts_c11();
    let n = docs.len() * lays.len();
    let res = crate::par::run(n, rep.seed as u64, crate::par::deadline_secs(if thorough { 3000 } else { 45 }), Acc::new, |k, acc| {
        let (di, li) = (k / lays.len(), k % lays.len());
        let doc = &docs[di];
        let (rules, names, _) = rules_for(doc);
        let (text, _) = write(doc, &lays[li]);
        // JSON allows U+007F..U+009F, U+2028 and U+2029 unescaped inside strings; the YAML 1.1 loaders behind validate and
        // test treat them as non-printable / as line breaks. Such states get their own signature (cause = the character).
        let raw_special = lays[li].kind.starts_with("json") && has_str(doc, &|x| x.chars().any(|c| matches!(c as u32, 0x7f..=0x9f | 0x2028 | 0x2029)));
        if raw_special {
            let mut sub = Acc::new();
            observe(doc, &text, &lays[li].name(), &rules, &names, &mut sub);
            for v in sub.viols {
                let loader = v.replay["loader"].as_str().unwrap_or("?").to_string();
                let sig = if loader == "run_checks" { format!("json-raw-char:run_checks:{}", v.signature) } else { format!("json-string-with-raw-C1-or-line-separator:{}", loader) };
                acc.violate(&sig, v.what, v.replay);
            }
            acc.traces += sub.traces;
            for (k, c) in sub.outcomes {
                *acc.outcomes.entry(k).or_insert(0) += c;
            }
        } else {
            observe(doc, &text, &lays[li].name(), &rules, &names, acc);
        }
        acc.nontrivial += 1;
    }, Acc::merge);
    rep.states += res.done as u64 * 3;
    rep.transitions += res.done as u64 * 3;
    if res.capped {
        rep.caps_hit.push(format!("wall-clock cap: {} of {} (document, layout) pairs", res.done, n));
    }
    let mut acc = res.acc;

    // ---- tag table
    let tcs = tag_cases();
    for (label, text, val, documented) in &tcs {
        let (rules, names, _) = rules_for(val);
        let before = acc.viol_counts.values().sum::<u64>();
        let mut sub = Acc::new();
        observe(val, text, &format!("tag-{}", label), &rules, &names, &mut sub);
        // signatures of tag violations: tag:<payload-documented?>:<loader>
        for v in sub.viols {
            let loader = v.replay["loader"].as_str().unwrap_or("?").to_string();
            // F13: a tag used with the payload shape it is not documented for (`!Select x`, `!Ref [p]`) is
            // loaded as the bare payload by the libyaml loader (validate) but as the long form by the serde loaders
            let sig = if *documented { format!("tag:documented-payload:{}:{}", label.split(':').nth(1).unwrap_or("?"), loader) } else { format!("F13-tag-with-other-payload-shape:{}", loader) };
            acc.violate(&sig, format!("{} {}", label, v.what), v.replay);
        }
        acc.traces += sub.traces;
        for (k, c) in sub.outcomes {
            *acc.outcomes.entry(k).or_insert(0) += c;
        }
        let _ = before;
    }
    // unknown tags are not intrinsic functions: the value stays what it is in every loader (cross-loader agreement)
    rep.states += tcs.len() as u64 * 3;
    rep.transitions += tcs.len() as u64 * 3;

    // ---- numbers beyond the 64-bit integer range: every loader reads them as the nearest float (never a wrapped integer)
    // (integers that do not fit 64 bits at all are outside the property's domain: serde_yaml rejects them, libyaml's loader reads a float)
    let big = ["9223372036854775808", "18446744073709551615", "9223372036854775807.0", "1e19", "12345678901234567890"];
    // floats in every JSON-compatible spelling of the exponent
    for raw in ["1e-7", "1.5e+300", "5E-324", "1E5", "-2.5e-3", "1e+2", "2.5E+10", "0.0e0", "-0.0", "1.0E-5"] {
        let val = m(vec![("k1", f(raw.parse::<f64>().unwrap()))]);
        let rules = "rule t0 { k1 is_float }\nrule t2 { k1 !is_int }\nrule t3 { k1 !is_string }\nrule dump { this == \"zzz-never-equal\" }\n".to_string();
        let names = vec!["t0".to_string(), "t2".to_string(), "t3".to_string()];
        for (layout, text) in [("json-floatspelling", format!("{{\"k1\":{}}}", raw)), ("flow-floatspelling", format!("{{k1: {}}}\n", raw)), ("block-floatspelling", format!("k1: {}\n", raw))] {
            let mut sub = Acc::new();
            observe(&val, &text, layout, &rules, &names, &mut sub);
            for v in sub.viols {
                if v.signature.starts_with("value-differs") {
                    continue;
                }
                acc.violate(&format!("float-spelling:{}", v.signature), v.what, v.replay);
            }
            acc.traces += sub.traces;
            for (k, c) in sub.outcomes {
                *acc.outcomes.entry(k).or_insert(0) += c;
            }
        }
    }
    rep.states += 90;
    rep.transitions += 90;
    for raw in big {
        let val = m(vec![("k1", f(raw.parse::<f64>().unwrap()))]);
        let rules = "rule t0 { k1 is_float }\nrule t1 { k1 > 9000000000000000000.0 or k1 < 0.0 }\nrule t2 { k1 !is_int }\nrule dump { this == \"zzz-never-equal\" }\n".to_string();
        let names = vec!["t0".to_string(), "t1".to_string(), "t2".to_string()];
        for (layout, text) in [("json-bignum", format!("{{\"k1\":{}}}", raw)), ("flow-bignum", format!("{{k1: {}}}\n", raw)), ("block-bignum", format!("k1: {}\n", raw))] {
            let mut sub = Acc::new();
            observe(&val, &text, layout, &rules, &names, &mut sub);
            for v in sub.viols {
                // the dumped value is compared numerically below; `value-differs` from the textual comparison is not used here
                if v.signature.starts_with("value-differs") {
                    continue;
                }
                acc.violate(&format!("big-number:{}", v.signature), v.what, v.replay);
            }
            acc.traces += sub.traces;
            for (k, c) in sub.outcomes {
                *acc.outcomes.entry(k).or_insert(0) += c;
            }
        }
    }
    rep.states += big.len() as u64 * 9;
    rep.transitions += big.len() as u64 * 9;
    // ---- JSON spellings the writers never produce: \u escapes (BMP and surrogate pairs) and the integer spelled -0
    {
        let esc: Vec<(&str, String, V)> = vec![
            ("bmp", "{\"k1\":\"caf\\u00e9 \\u20ac\"}".to_string(), m(vec![("k1", s("caf\u{e9} \u{20ac}"))])),
            ("bmp", "{\"k1\":[\"\\u0041\",\"\\u00DF\"]}".to_string(), m(vec![("k1", l(vec![s("A"), s("\u{df}")]))])),
            ("surrogate-pair", "{\"k1\":\"\\ud83d\\ude00\"}".to_string(), m(vec![("k1", s("\u{1F600}"))])),
            ("surrogate-pair", "{\"k1\":{\"k2\":\"x\\uD834\\uDD1Ey\"}}".to_string(), m(vec![("k1", m(vec![("k2", s("x\u{1D11E}y"))]))])),
            ("minus-zero", "{\"k1\":-0}".to_string(), m(vec![("k1", i(0))])),
            ("minus-zero", "{\"k1\":[-0, 1]}".to_string(), m(vec![("k1", l(vec![i(0), i(1)]))])),
        ];
        for (kind, text, val) in &esc {
            let (rules, names, _) = rules_for(val);
            let mut sub = Acc::new();
            observe(val, text, "json-escapes", &rules, &names, &mut sub);
            for v in sub.viols {
                let loader = v.replay["loader"].as_str().unwrap_or("?").to_string();
                acc.violate(&format!("json-spelling:{}:{}", kind, loader), v.what, v.replay);
            }
            acc.traces += sub.traces;
            for (k, c) in sub.outcomes {
                *acc.outcomes.entry(k).or_insert(0) += c;
            }
        }
        rep.states += esc.len() as u64 * 3;
        rep.transitions += esc.len() as u64 * 3;
    }

    // ---- rejections: an error exit, never a verdict, never a panic
    let rj = rejected_inputs();
    for (label, text) in &rj {
        let rules = "rule r { this exists }\nrule q { a !exists or a exists }\n";
        let rp = put("c11/rj.guard", rules);
        let dp = put("c11/rj.yaml", text);
        for mode in ["plain", "structured"] {
            let mut a = sv(&["validate", "-r", &rp, "-d", &dp]);
            if mode == "structured" {
                a.extend(sv(&["--structured", "-o", "json", "-S", "none"]));
            }
            let o = cli_inproc(&a, "");
            acc.traces += 1;
            *acc.outcomes.entry(format!("reject-validate-exit-{}", o.status())).or_insert(0) += 1;
            if o.panic.is_some() || o.status() == 0 || o.status() == 19 {
                acc.violate(&format!("not-rejected:validate:{}", label), format!("[validate {}] `{}` gives status {} panic {:?}", mode, text.escape_debug(), o.status(), o.panic), json!({"kind":"cli","argv":a,"stdin":"","files":{"data":text,"rules":rules},"expected":"error exit","observed":format!("status {} panic {:?}", o.status(), o.panic)}));
            }
        }
        acc.traces += 1;
        match lib_raw(rules, text, false) {
            Ok(Err(_)) => {}
            other => acc.violate(&if text.trim().is_empty() || text.starts_with('#') { "run_checks-loads-empty-input-as-null".to_string() } else { format!("not-rejected:run_checks:{}", label) }, format!("[run_checks] `{}` gives {:?}", text.escape_debug(), other.map(|r| r.map(|s| s.chars().take(80).collect::<String>()))), json!({"kind":"lib","rules":rules,"data":text,"expected":"Err","observed":"not an error"})),
        }
        if !text.trim().is_empty() && !text.starts_with("---") && !text.starts_with('#') {
            let tf = format!("- input:\n{}\n  expectations:\n    rules:\n      r: PASS\n", indent_block(text, 4));
            let tp = put("c11/rj_t.yaml", &tf);
            let o = cli_inproc(&sv(&["test", "-r", &rp, "-t", &tp]), "");
            acc.traces += 1;
            if o.panic.is_some() || o.status() == 0 {
                acc.violate(&format!("not-rejected:test:{}", label), format!("[test] `{}` gives status {} panic {:?}", text.escape_debug(), o.status(), o.panic), json!({"kind":"cli","argv":["test"],"files":{"tests":tf,"rules":rules},"expected":"error exit","observed":format!("status {}", o.status())}));
            }
        }
    }
    rep.states += rj.len() as u64 * 4;
    rep.transitions += rj.len() as u64 * 4;

    rep.distinct_nontrivial = docs.len() as u64;
    rep.extra.insert("documents".into(), json!(docs.len()));
    rep.extra.insert("layouts".into(), json!(lays.iter().map(|l| l.name()).collect::<Vec<_>>()));
    rep.extra.insert("tag_cases".into(), json!(tcs.len()));
    rep.extra.insert("rejected_inputs".into(), json!(rj.iter().map(|r| r.0).collect::<Vec<_>>()));
    let (t0, _) = write(&docs[3], &lays[5]);
    rep.samples.push(json!({"document": docs[3].json(), "layout": lays[5].name(), "text": t0, "rules": rules_for(&docs[3]).0}));
    rep.samples.push(json!({"tag": tcs[0].0, "text": tcs[0].1, "long_form": tcs[0].2.json()}));
    rep.rule = "states = (typed document, serialisation layout, loader in {validate, test, run_checks}); per state a literal-equality rule, one type probe per node and the value dumped by a deliberately failing root clause are compared with the source document (key order, list order, int/float distinction); plus the full table of 21 intrinsic tags x {scalar, sequence, nested} payload x {map value, list element, top level} x loader against the long form, and a rejection set".into();
    rep.assumptions = vec!["strings that YAML 1.1 / 1.2 / Rust FromStr could read as non-strings are always quoted by the writer (the property restricts itself to JSON-compatible plain scalars)".into()];
    acc.into_report(&mut rep);
    cleanup_workdirs();
    rep.finish()
}
