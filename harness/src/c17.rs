//! C17 — input parameters are merged into the data without loss or silent override (DESIGN 5/C17).
use crate::c01::Acc;
use crate::cli::*;
use crate::evidence::Report;
use crate::impl_::St;
use crate::report::*;
use serde_json::json;

const KEYS: [(&str, &str); 5] = [("a", "1"), ("b", "\"x\""), ("c", "[1,2]"), ("d", "{\"k\":1}"), ("e", "true")];

fn rules_for(nkeys: usize) -> String {
    let mut s = String::new();
    s.push_str("rule ra { a == 1 }\nrule rb { b == \"x\" }\nrule rc { c[*] <= 2 }\n");
    if nkeys > 3 {
        s.push_str("rule rd { d.k == 1 }\n");
    }
    s.push_str("rule rab {\n  a exists\n  b exists\n}\n");
    s.push_str("rule rany { a exists or c exists }\n");
    if nkeys > 4 {
        s.push_str("rule re { e == true }\n");
    }
    s.push_str(&format!("rule rkeys {{ this[ keys == /^[a-e]$/ ] exists }}\nrule rcount {{\n  let n = count(this.*)\n  %n == {}\n}}\n", nkeys));
    s.push_str("rule rkeysb { some this[ keys == \"b\" ] == \"x\" }\n");
    s.push_str("rule rnone { zz !exists }\n");
    s
}

fn obj(keys: &[usize], override_val: Option<(usize, &str)>) -> String {
    let mut parts = vec![];
    for k in keys {
        let v = match override_val {
            Some((ok, ov)) if ok == *k => ov,
            _ => KEYS[*k].1,
        };
        parts.push(format!("\"{}\": {}", KEYS[*k].0, v));
    }
    format!("{{{}}}", parts.join(", "))
}

#[derive(Clone, Debug)]
struct Case {
    data: Vec<usize>,
    params: Vec<Vec<usize>>,
    /// duplicated key: (key, source index of the copy: 0 = data, i = param file i), same value?
    dup: Option<(usize, usize, bool)>,
}

fn perms<T: Clone>(v: &[T]) -> Vec<Vec<T>> {
    if v.len() <= 1 {
        return vec![v.to_vec()];
    }
    let mut out = vec![];
    for i in 0..v.len() {
        let mut rest = v.to_vec();
        let x = rest.remove(i);
        for mut p in perms(&rest) {
            p.insert(0, x.clone());
            out.push(p);
        }
    }
    out
}

fn cases(nkeys: usize, max_params: usize) -> Vec<Case> {
    let mut out = vec![];
    // assignment of every key to a source 0..=max_params (0 = data); param files used must be non-empty and contiguous 1..m
    let nsrc = max_params + 1;
    let total = nsrc.pow(nkeys as u32);
    for code in 0..total {
        let asg: Vec<usize> = (0..nkeys).map(|k| (code / nsrc.pow(k as u32)) % nsrc).collect();
        let m = *asg.iter().max().unwrap();
        if m == 0 {
            continue; // no parameter file
        }
        if !(1..=m).all(|p| asg.contains(&p)) {
            continue;
        }
        let data: Vec<usize> = (0..nkeys).filter(|k| asg[*k] == 0).collect();
        let params: Vec<Vec<usize>> = (1..=m).map(|p| (0..nkeys).filter(|k| asg[*k] == p).collect()).collect();
        // every order of the -i arguments
        for po in perms(&params) {
            out.push(Case { data: data.clone(), params: po.clone(), dup: None });
            // a parameter file that is an empty map, at every position among the others (it adds nothing and must lose nothing)
            if po.len() < max_params {
                for at in 0..=po.len() {
                    let mut pe = po.clone();
                    pe.insert(at, vec![]);
                    out.push(Case { data: data.clone(), params: pe, dup: None });
                }
            }
        }
        // overlap variants: one key also present in another source
        for k in 0..nkeys {
            for src in 0..=m {
                if src == asg[k] {
                    continue;
                }
                for same in [true, false] {
                    out.push(Case { data: data.clone(), params: params.clone(), dup: Some((k, src, same)) });
                }
            }
        }
    }
    out
}

fn statuses_plain(out: &str) -> Vec<(String, St)> {
    let pr = parse_plain(out, "sls");
    let mut v = vec![];
    for t in &pr.tables {
        v.extend(t.pass.iter().map(|n| (n.clone(), St::Pass)));
        v.extend(t.fail.iter().map(|n| (n.clone(), St::Fail)));
        v.extend(t.skip.iter().map(|n| (n.clone(), St::Skip)));
    }
    v.sort();
    v
}
fn statuses_structured(out: &str) -> Option<Vec<(String, St)>> {
    let reps = parse_structured_json(out).ok()?;
    let fr = reps.first()?;
    let mut l: Vec<(String, St)> = vec![];
    l.extend(fr.compliant.iter().map(|n| (bare(n), St::Pass)));
    l.extend(fr.not_applicable.iter().map(|n| (bare(n), St::Skip)));
    l.extend(fr.not_compliant.iter().map(|(n, _)| (bare(n), St::Fail)));
    l.sort();
    Some(l)
}

pub fn run(tier: &str) -> i32 {
    let thorough = tier == "thorough";
    let mut rep = Report::new("C17", tier);
    // quick: four keys; thorough: five
    let nkeys = if thorough { 5 } else { 4 };
    let rules = rules_for(nkeys);
    // quick: up to three parameter files; thorough: up to four (every key in its own file)
    let cs = cases(nkeys, if thorough { 4 } else { 3 });
    // `-2data`: the same data given as two files (every file must get the merged verdicts); `-dir`: the parameter files in
    // a directory that also holds files of other kinds sorting before, between and after them
    let modes = ["plain", "structured", "stdin", "payload-plain", "payload-structured", "plain-2data", "structured-2data", "plain-dir", "structured-dir", "plain-samename", "structured-samename", "plain-dotname", "structured-dotname", "junit", "sarif", "plain-link", "structured-link", "plain-dirlink", "structured-dirlink"];
    // baseline: the pre-merged document (any key order gives the same verdicts: checked by using both orders)
    let all: Vec<usize> = (0..nkeys).collect();
    let n = cs.len() * modes.len();
    let rules_ref = &rules;
    let res = crate::par::run(n, rep.seed as u64, crate::par::deadline_secs(if thorough { 3000 } else { 45 }), Acc::new, |k, acc| {
        let (ci, mode) = (k / modes.len(), modes[k % modes.len()]);
        let c = &cs[ci];
        let rp = put("c17/r.guard", rules_ref);
        // baseline
        let merged = obj(&all, None);
        let mp = put("c17/merged.json", &merged);
        let structured = mode.contains("structured");
        let xml_like = mode == "junit" || mode == "sarif";
        let base_args: Vec<String> = if xml_like { sv(&["--structured", "-o", mode, "-S", "none"]) } else if structured { sv(&["--structured", "-o", "json", "-S", "none"]) } else { sv(&["-S", "all"]) };
        let mut bargv = sv(&["validate", "-r", &rp, "-d", &mp]);
        bargv.extend(base_args.clone());
        let bo = cli_inproc(&bargv, "");
        let bst = if structured { statuses_structured(&bo.out).unwrap_or_default() } else { statuses_plain(&bo.out) };
        // the case
        let (mut data_keys, mut param_keys) = (c.data.clone(), c.params.clone());
        let mut ov: Option<(usize, &str)> = None;
        let mut dup_in_data = false;
        let mut dup_param: Option<usize> = None;
        if let Some((k, src, same)) = c.dup {
            if !same {
                ov = Some((k, "99"));
            }
            if src == 0 {
                data_keys.push(k);
                dup_in_data = true;
            } else {
                param_keys[src - 1].push(k);
                dup_param = Some(src - 1);
            }
        }
        let data_txt = obj(&data_keys, if dup_in_data { ov } else { None });
        let mut argv = sv(&["validate"]);
        let mut stdin = String::new();
        match mode {
            "junit" | "sarif" | "plain" | "structured" | "plain-dir" | "structured-dir" | "plain-link" | "structured-link" | "plain-dirlink" | "structured-dirlink" | "plain-samename" | "structured-samename" | "plain-dotname" | "structured-dotname" => {
                argv.extend(vec!["-r".into(), rp.clone(), "-d".into(), put("c17/data.json", &data_txt)]);
            }
            "plain-2data" | "structured-2data" => {
                argv.extend(vec!["-r".into(), rp.clone(), "-d".into(), put("c17/data.json", &data_txt), "-d".into(), put("c17/data2.json", &data_txt)]);
            }
            "stdin" => {
                argv.extend(vec!["-r".into(), rp.clone()]);
                stdin = data_txt.clone();
            }
            _ => {
                argv.push("--payload".into());
                stdin = json!({"rules":[rules_ref],"data":[data_txt]}).to_string();
            }
        }
        let mut ptxts = vec![];
        let dir_mode = mode.ends_with("-dir") || mode.ends_with("-dirlink");
        // `-link`: every parameter file is named through a symbolic link; `-dirlink`: the directory holds links to files kept elsewhere
        let link_to = |link: &str, target: &str| -> String {
            let lp = std::path::Path::new(target).parent().unwrap().parent().unwrap().join(link);
            std::fs::create_dir_all(lp.parent().unwrap()).ok();
            let _ = std::fs::remove_file(&lp);
            std::os::unix::fs::symlink(target, &lp).expect("symlink");
            lp.to_string_lossy().to_string()
        };
        if dir_mode {
            let d = crate::cli::reset_dir("c17/pd");
            for junk in ["a_notes.txt", "p0.md", "p1.json.bak", "zz.txt"] {
                put(&format!("c17/pd/{}", junk), "not a parameter file\n");
            }
            argv.push("-i".into());
            argv.push(d);
        }
        for (pi, pk) in param_keys.iter().enumerate() {
            let t = obj(pk, if dup_param == Some(pi) { ov } else { None });
            if mode.ends_with("-dirlink") {
                let real = put(&format!("c17/real/p{}.json", pi), &t);
                link_to(&format!("pd/p{}.json", pi), &real);
            } else if mode.ends_with("-link") {
                let real = put(&format!("c17/real/p{}.json", pi), &t);
                argv.push("-i".into());
                argv.push(link_to(&format!("l{}.json", pi), &real));
            } else if dir_mode {
                put(&format!("c17/pd/p{}.json", pi), &t);
            } else if mode.ends_with("-samename") {
                // every parameter file is called params.json, each in its own directory
                argv.push("-i".into());
                argv.push(put(&format!("c17/q{}/params.json", pi), &t));
            } else if mode.ends_with("-dotname") {
                // parameter files named explicitly whose names start with a dot
                argv.push("-i".into());
                argv.push(put(&format!("c17/.p{}.json", pi), &t));
            } else {
                argv.push("-i".into());
                argv.push(put(&format!("c17/p{}.json", pi), &t));
            }
            ptxts.push(t);
        }
        argv.extend(base_args);
        let o = cli_inproc(&argv, &stdin);
        acc.traces += 1;
        let label = format!("data={} params={:?} dup={:?} mode={}", data_txt, ptxts, c.dup, mode);
        let replay = |obs: String| json!({"kind":"cli","argv":argv,"stdin":stdin,"files":{"rules":rules_ref,"data":data_txt,"params":ptxts},"expected": if c.dup.is_some() { "error exit (non-zero, not 19), no panic".to_string() } else { format!("{:?}", bst) },"observed":obs});
        let class = if mode.starts_with("payload") { "payload" } else { "files" };
        if let Some(p) = &o.panic {
            let sig = if c.dup.is_some() && structured { "overlap-panics-in-structured-mode".to_string() } else { format!("panic:{}", mode) };
            acc.violate(&sig, format!("{}: panic {}", label, p), replay(format!("panic {}", p)));
            *acc.outcomes.entry("panic".into()).or_insert(0) += 1;
            return;
        }
        if c.dup.is_some() {
            let st = o.status();
            *acc.outcomes.entry(format!("overlap-exit-{}", st)).or_insert(0) += 1;
            if st == 0 || st == 19 {
                acc.violate(&format!("overlap-silently-accepted:{}:{}", class, if structured { "structured" } else { "plain" }), format!("{}: exit {} instead of an error", label, st), replay(format!("exit {}", st)));
            } else if o.err.trim().is_empty() && o.code.as_ref().err().map_or(true, |e| e.is_empty()) {
                acc.violate("overlap-no-message", format!("{}: error exit {} without a message", label, st), replay("no message".into()));
            }
            return;
        }
        *acc.outcomes.entry(format!("merge-exit-{}", o.status())).or_insert(0) += 1;
        if mode.ends_with("-2data") {
            // one report per data file, each equal to the merged document's
            let per_file: Vec<Vec<(String, St)>> = if structured {
                parse_structured_json(&o.out).unwrap_or_default().iter().map(|fr| {
                    let mut l: Vec<(String, St)> = vec![];
                    l.extend(fr.compliant.iter().map(|n| (bare(n), St::Pass)));
                    l.extend(fr.not_applicable.iter().map(|n| (bare(n), St::Skip)));
                    l.extend(fr.not_compliant.iter().map(|(n, _)| (bare(n), St::Fail)));
                    l.sort();
                    l
                }).collect()
            } else {
                parse_plain(&o.out, "sls").tables.iter().map(|t| {
                    let mut v: Vec<(String, St)> = vec![];
                    v.extend(t.pass.iter().map(|n| (n.clone(), St::Pass)));
                    v.extend(t.fail.iter().map(|n| (n.clone(), St::Fail)));
                    v.extend(t.skip.iter().map(|n| (n.clone(), St::Skip)));
                    v.sort();
                    v
                }).collect()
            };
            if per_file.len() != 2 || per_file.iter().any(|l| *l != bst) || o.status() != bo.status() {
                acc.violate(&format!("merge-differs:two-data-files:{}", if structured { "structured" } else { "plain" }), format!("{}: per-file verdicts {:?} exit {} but the merged document gives {:?} exit {}", label, per_file, o.status(), bst, bo.status()), replay(format!("{:?} exit {}", per_file, o.status())));
            }
            return;
        }
        if xml_like {
            // the report of the merged document, with the data file's name put in place
            let norm = |t: &str| crate::c05::mask_times(t).replace("merged.json", "DATA").replace("data.json", "DATA");
            if norm(&o.out) != norm(&bo.out) || o.status() != bo.status() {
                acc.violate(&format!("merge-differs:{}:{}", class, mode), format!("{}: the {} report (exit {}) differs from the one of the merged document (exit {})", label, mode, o.status(), bo.status()), replay(format!("exit {} report {}", o.status(), o.out.chars().take(300).collect::<String>())));
            }
            return;
        }
        let st = if structured { statuses_structured(&o.out).unwrap_or_default() } else { statuses_plain(&o.out) };
        if st != bst || o.status() != bo.status() {
            acc.violate(&format!("merge-differs:{}:{}", class, if structured { "structured" } else { "plain" }), format!("{}: verdicts {:?} exit {} but the merged document gives {:?} exit {}", label, st, o.status(), bst, bo.status()), replay(format!("{:?} exit {}", st, o.status())));
        }
    }, Acc::merge);
    // ---- a value means in a parameter file what it means in a data file: YAML scalars in every spelling, typed by the rules;
    //      the parameter file's keys in the data file instead (the union document written in the same spelling) give the same verdicts
    let mut res = res;
    let mut yn = 0u64;
    {
        let spell = ["1", "1.5", "1e3", "\"1\"", "true", "True", "TRUE", "null", "~", "Null", "0x10", "0o17", "012", "1_000", ".5", "+1", "yes", "on", ".inf", "-.inf", ".nan", "2001-01-01", "[1, True]", "{k: 0x10}", "'12'", "|-\n    12", ">-\n    true"];
        let probes = "rule t_str { P is_string }\nrule t_int { P is_int }\nrule t_float { P is_float }\nrule t_bool { P is_bool }\nrule t_null { P is_null }\nrule t_list { P is_list }\nrule t_map { P is_struct }\nrule v1 { P == 1 }\nrule v16 { P == 16 or P.k == 16 }\nrule vt { P == true or some P[*] == true }\n";
        let rp = put("c17y/r.guard", probes);
        for sp in spell {
            let param = format!("P: {}\n", sp);
            let data = "a: 1\n";
            let union = format!("a: 1\nP: {}\n", sp);
            let union2 = format!("P: {}\na: 1\n", sp);
            let pp = put("c17y/p.yaml", &param);
            let dp = put("c17y/d.yaml", data);
            let up = put("c17y/u.yaml", &union);
            let up2 = put("c17y/u2.yaml", &union2);
            for mode in ["plain", "structured"] {
                let extra = if mode == "plain" { sv(&["-S", "all"]) } else { sv(&["--structured", "-o", "json", "-S", "none"]) };
                let run = |args: Vec<String>| {
                    let mut a = sv(&["validate", "-r", &rp]);
                    a.extend(args);
                    a.extend(extra.clone());
                    let o = cli_inproc(&a, "");
                    let st = if mode == "plain" { statuses_plain(&o.out) } else { statuses_structured(&o.out).unwrap_or_default() };
                    (st, o.status(), a)
                };
                let (ms, mc, margv) = run(vec!["-d".into(), dp.clone(), "-i".into(), pp.clone()]);
                let (us, uc, _) = run(vec!["-d".into(), up.clone()]);
                let (us2, uc2, _) = run(vec!["-d".into(), up2.clone()]);
                yn += 3;
                res.acc.traces += 3;
                *res.acc.outcomes.entry(format!("yaml-param-exit-{}", mc)).or_insert(0) += 1;
                if (us, uc) != (us2.clone(), uc2) {
                    continue; // the union document itself depends on key order: nothing to compare with
                }
                if (ms.clone(), mc) != (us2.clone(), uc2) {
                    res.acc.violate(&format!("merge-differs:yaml-scalar-typing:{}", mode), format!("parameter file `{}` with data `{}`: verdicts {:?} exit {}; the union document gives {:?} exit {}", param.trim(), data.trim(), ms, mc, us2, uc2), json!({"kind":"cli","argv":margv,"stdin":"","files":{"rules":probes,"data":data,"params":[param],"union":union},"expected":format!("{:?} exit {}", us2, uc2),"observed":format!("{:?} exit {}", ms, mc)}));
                }
            }
        }
    }
    // ---- a key defined twice is an error whatever the values are: null, empty containers, false, 0, "" on either side
    {
        let rp = put("c17n/r.guard", "rule r { b exists }\n");
        let weak = ["null", "[]", "{}", "false", "0", "\"\""];
        for w1 in weak {
            for w2 in ["1", "null", w1] {
                let first = format!("{{\"a\": {}, \"b\": 1}}", w1);
                let second = format!("{{\"a\": {}}}", w2);
                let third = "{\"c\": 1}".to_string();
                let f1 = put("c17n/one.json", &first);
                let f2 = put("c17n/two.json", &second);
                let f3 = put("c17n/three.json", &third);
                for args in [vec!["-d", &f1, "-i", &f2], vec!["-d", &f2, "-i", &f1], vec!["-d", &f3, "-i", &f1, "-i", &f2], vec!["-d", &f3, "-i", &f2, "-i", &f1]] {
                    for extra in [vec![], vec!["--structured", "-o", "json", "-S", "none"]] {
                        let mut a = sv(&["validate", "-r", &rp]);
                        a.extend(args.iter().map(|x| x.to_string()));
                        a.extend(sv(&extra));
                        let o = cli_inproc(&a, "");
                        yn += 1;
                        res.acc.traces += 1;
                        let st = o.status();
                        *res.acc.outcomes.entry(format!("weak-overlap-exit-{}", st)).or_insert(0) += 1;
                        if o.panic.is_some() || st == 0 || st == 19 {
                            res.acc.violate(&format!("overlap-silently-accepted:weak-value:{}", if extra.is_empty() { "plain" } else { "structured" }), format!("the key `a` is defined as {} and as {} by two sources ({:?}): exit {} instead of an error", w1, w2, args, st), json!({"kind":"cli","argv":a,"stdin":"","files":{"one.json":first,"two.json":second,"three.json":third},"expected":"error exit","observed":format!("exit {}", st)}));
                        }
                    }
                }
            }
        }
    }
    rep.extra.insert("yaml_scalar_parameter_runs".into(), json!(yn));
    rep.states = res.done as u64 + yn;
    rep.transitions = res.done as u64 + yn;
    if res.capped {
        rep.caps_hit.push(format!("wall-clock cap: {} of {} states", res.done, n));
    }
    rep.distinct_nontrivial = cs.len() as u64;
    rep.extra.insert("key_distributions".into(), json!(cs.len()));
    rep.extra.insert("modes".into(), json!(modes));
    rep.samples.push(json!({"rules": rules, "data": obj(&[0], None), "params": [obj(&[1], None), obj(&[2], None)], "merged": obj(&all, None)}));
    rep.samples.push(json!({"overlap": {"data": obj(&[0, 1], None), "params": [obj(&[1, 2], Some((1, "99")))]}, "expected": "error exit"}));
    rep.rule = "states = (distribution of the top-level keys over the data file and 1..3 parameter files in every -i order, or an overlapping variant with one key duplicated between two sources with equal / different value, invocation mode); disjoint distributions must give the verdicts and exit code of the pre-merged document, overlapping ones an error exit with a message".into();
    rep.assumptions = vec!["payload modes are a labelled sub-class (signatures carry `payload`)".into()];
    let mut rep = rep;
    res.acc.into_report(&mut rep);
    cleanup_workdirs();
    rep.finish()
}
