#![allow(dead_code)]
mod ast;
mod c01;
mod c02;
mod c03;
mod c04;
mod c05;
mod c06;
mod c07;
mod c08;
mod c09;
mod c10;
mod c11;
mod yamlw;
mod c12;
mod report;
mod c13;
mod c14;
mod c15;
mod c16;
mod c17;
mod c18;
mod c19;
mod cli;
mod evidence;
mod impl_;
mod mre;
mod p2;
mod par;
mod reffn;
mod refsem;
mod replay;
mod universe;
mod val;

fn main() {
    let args: Vec<String> = std::env::args().collect();
    if args.len() < 2 {
        eprintln!("usage: gmc <Cnn> [--tier quick|thorough] [--replay path] | eval <rules> <data>");
        std::process::exit(2);
    }
    if args[1] == "--c08-worker" {
        c08::worker_main();
        return;
    }
    impl_::silence_panics();
    let id = args[1].as_str();
    let mut tier = std::env::var("VERIF_TIER").unwrap_or_else(|_| "quick".to_string());
    let mut replay: Option<String> = None;
    let mut i = 2;
    while i < args.len() {
        match args[i].as_str() {
            "--tier" if i + 1 < args.len() => {
                tier = args[i + 1].clone();
                i += 1;
            }
            "--replay" if i + 1 < args.len() => {
                replay = Some(args[i + 1].clone());
                i += 1;
            }
            _ => {}
        }
        i += 1;
    }
    if id == "record" {
        let rules = std::fs::read_to_string(&args[2]).unwrap();
        let data = std::fs::read_to_string(&args[3]).unwrap();
        match impl_::lib_raw(&rules, &data, args.len() <= 4) {
            Ok(Ok(s)) => println!("{}", s),
            other => println!("{:?}", other),
        }
        return;
    }
    if id == "cli" {
        let a: Vec<String> = args[2..].to_vec();
        let mut inp = String::new();
        if a.iter().any(|x| x == "--stdin") {
            use std::io::Read;
            std::io::stdin().read_to_string(&mut inp).ok();
        }
        let a: Vec<String> = a.into_iter().filter(|x| x != "--stdin").collect();
        let o = cli::cli_inproc(&a, &inp);
        println!("code={:?} status={} panic={:?}\n--stdout--\n{}--stderr--\n{}", o.code, o.status(), o.panic, o.out, o.err);
        let p = cli::cli_proc(&a, &inp, &[], None, 5000);
        println!("proc status={}\n--stdout--\n{}--stderr--\n{}", p.status, p.out, p.err);
        cli::cleanup_workdirs();
        return;
    }
    if id == "eval" {
        let rules = std::fs::read_to_string(&args[2]).unwrap();
        let data = std::fs::read_to_string(&args[3]).unwrap();
        println!("{}", impl_::lib_run(&rules, &data).short());
        if args.len() > 4 {
            println!("{:?}", impl_::lib_raw(&rules, &data, true));
        }
        return;
    }
    if let Some(p) = replay {
        std::process::exit(replay::replay(&p));
    }
    let code = match id {
        "C01" => c01::run(&tier),
        "C02" => c02::run(&tier),
        "C03" => c03::run(&tier),
        "C04" => c04::run(&tier),
        "C05" => c05::run(&tier),
        "C06" => c06::run(&tier),
        "C07" => c07::run(&tier),
        "C08" => c08::run(&tier),
        "C09" => c09::run(&tier),
        "C10" => c10::run(&tier),
        "C11" => c11::run(&tier),
        "C12" => c12::run(&tier),
        "C13" => c13::run(&tier),
        "C14" => c14::run(&tier),
        "C15" => c15::run(&tier),
        "C16" => c16::run(&tier),
        "C17" => c17::run(&tier),
        "C18" => c18::run(&tier),
        "C19" => c19::run(&tier),
        _ => {
            eprintln!("unknown check {}", id);
            2
        }
    };
    std::process::exit(code);
}
