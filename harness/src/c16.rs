//! C16 — `cfn-guard test` agrees with `cfn-guard validate` (DESIGN 5/C16).
use crate::ast::*;
use crate::c01::Acc;
use crate::cli::*;
use crate::evidence::Report;
use crate::impl_::{lib_run, Obs, St};
use crate::p2::*;
use crate::universe::*;
use crate::val::*;
use serde_json::{json, Value};
use std::collections::BTreeMap;

#[derive(Clone, Debug, Default, PartialEq)]
struct CaseRes {
    passed: Vec<(String, String)>,              // rule, status shown
    failed: Vec<(String, String, Vec<String>)>, // rule, expected, evaluated list
    unexpected: Vec<String>,                    // rules without expectation
}
impl CaseRes {
    fn norm(mut self) -> CaseRes {
        // the implicit default rule is called <rules file>/default: compare on the bare name
        let b = |n: &String| crate::report::bare(n);
        self.passed = self.passed.iter().map(|(n, e)| (b(n), e.clone())).collect();
        self.failed = self.failed.iter().map(|(n, e, v)| (b(n), e.clone(), v.clone())).collect();
        self.unexpected = self.unexpected.iter().map(b).collect();
        self.passed.sort();
        self.failed.sort();
        self.unexpected.sort();
        self
    }
}

fn parse_plain(text: &str) -> Vec<CaseRes> {
    let mut out: Vec<CaseRes> = vec![];
    let mut sec = "";
    for line in text.lines() {
        if line.starts_with("Test Case #") {
            out.push(CaseRes::default());
            sec = "";
            continue;
        }
        let cur = match out.last_mut() {
            Some(c) => c,
            None => continue,
        };
        let t = line.trim();
        if let Some(r) = t.strip_prefix("No Test expectation was set for Rule ") {
            cur.unexpected.push(r.to_string());
        } else if t == "PASS Rules:" {
            sec = "pass";
        } else if t == "FAIL Rules:" {
            sec = "fail";
        } else if line.starts_with("    ") && t.contains(": Expected = ") {
            let (name, rest) = t.split_once(": Expected = ").unwrap();
            if sec == "pass" {
                cur.passed.push((name.to_string(), rest.to_string()));
            } else if sec == "fail" {
                let (exp, ev) = rest.split_once(", Evaluated = ").unwrap_or((rest, "[]"));
                let evs: Vec<String> = ev.trim_matches(|c| c == '[' || c == ']').split(", ").filter(|s| !s.is_empty()).map(|s| s.to_string()).collect();
                cur.failed.push((name.to_string(), exp.to_string(), evs));
            }
        }
    }
    out.into_iter().map(|c| c.norm()).collect()
}

fn parse_structured(v: &Value) -> Result<Vec<CaseRes>, String> {
    // single-file mode prints one object, directory mode an array
    let objs: Vec<&Value> = match v {
        Value::Array(a) => a.iter().collect(),
        o => vec![o],
    };
    let mut out = vec![];
    for o in objs {
        if o.get("error").is_some() {
            return Err(format!("error result: {}", o["error"]));
        }
        for tc in o.get("test_cases").and_then(|t| t.as_array()).ok_or("no test_cases")? {
            let mut c = CaseRes::default();
            for p in tc["passed_rules"].as_array().ok_or("passed_rules")? {
                c.passed.push((p["name"].as_str().unwrap_or("").to_string(), p["evaluated"].as_str().unwrap_or("").to_string()));
            }
            for f in tc["failed_rules"].as_array().ok_or("failed_rules")? {
                c.failed.push((
                    f["name"].as_str().unwrap_or("").to_string(),
                    f["expected"].as_str().unwrap_or("").to_string(),
                    f["evaluated"].as_array().map(|a| a.iter().map(|x| x.as_str().unwrap_or("").to_string()).collect()).unwrap_or_default(),
                ));
            }
            for s in tc["skipped_rules"].as_array().ok_or("skipped_rules")? {
                c.unexpected.push(s["name"].as_str().unwrap_or("").to_string());
            }
            out.push(c.norm());
        }
    }
    Ok(out)
}

/// junit: (rule name, "pass"/"fail") per test case element, in order
fn parse_junit_rules(text: &str) -> Result<Vec<(String, String)>, String> {
    let cases = crate::report::parse_junit(text)?;
    Ok(cases.into_iter().map(|c| (crate::report::bare(&c.name), c.mark)).collect())
}

fn expected_case(statuses: &[(String, St)], exp: &BTreeMap<String, Option<St>>) -> CaseRes {
    let mut by: BTreeMap<String, Vec<St>> = BTreeMap::new();
    for (n, s) in statuses {
        by.entry(n.clone()).or_default().push(*s);
    }
    let mut c = CaseRes::default();
    for (n, sts) in by {
        match exp.get(&n).cloned().flatten() {
            None => c.unexpected.push(n),
            Some(e) => {
                let met = if e == St::Skip { sts.iter().all(|s| *s == St::Skip) } else { sts.iter().any(|s| *s == e) };
                if met {
                    c.passed.push((n, e.txt().to_string()));
                } else {
                    c.failed.push((n, e.txt().to_string(), sts.iter().map(|s| s.txt().to_string()).collect()));
                }
            }
        }
    }
    c.norm()
}

fn yaml_test_file(inputs: &[&String], exp: &BTreeMap<String, Option<St>>, default_key: &str) -> String {
    let mut s = String::new();
    for (k, d) in inputs.iter().enumerate() {
        s.push_str(&format!("- name: t{}\n  input: {}\n  expectations:\n    rules:", k, d));
        let given: Vec<(&String, St)> = exp.iter().filter_map(|(n, e)| e.map(|e| (n, e))).collect();
        if given.is_empty() {
            s.push_str(" {}\n");
        } else {
            s.push('\n');
            for (n, e) in given {
                // an expectation on the implicit default rule is keyed by <rules file>/default with -r and by <stem>/default
                // in directory mode
                let key = if n == "default" { default_key.to_string() } else { n.clone() };
                s.push_str(&format!("      {}: {}\n", key, e.txt()));
            }
        }
    }
    s
}

pub fn run(tier: &str) -> i32 {
    let thorough = tier == "thorough";
    let mut rep = Report::new("C16", tier);
    let g = Gen::standard(true);
    let b = bfs(&g, 3, 60_000);
    let all: Vec<File> = b.levels.iter().flatten().cloned().collect();
    let step = (all.len() / if thorough { 6000 } else { 220 }).max(1);
    let mut progs: Vec<File> = all.iter().step_by(step).cloned().collect();
    // same rule name defined two and three times
    let snf = same_name_family(false);
    progs.extend(snf.iter().step_by(if thorough { 2 } else { 37 }).cloned());
    let lp = leaf_pool();
    let mut w = rule("s", vec![vec![lp[1].clone()]]);
    w.when = Some(vec![vec![un(vec![key("b")], UnOp::Exists, false)]]);
    progs.push(File { lets: vec![], rules: vec![w.clone(), rule("s", vec![vec![lp[0].clone()]]), rule("s", vec![vec![lp[9].clone()]]), rule("u", vec![vec![named("s")]])], default: vec![] });
    // files with clauses outside any rule (the implicit default rule) next to named rules
    progs.push(File { lets: vec![], rules: vec![rule("r0", vec![vec![lp[1].clone()]])], default: vec![vec![lp[0].clone()], vec![lp[9].clone(), lp[1].clone()]] });
    progs.push(File { lets: vec![], rules: vec![], default: vec![vec![lp[0].clone()]] });
    progs.push(File { lets: vec![], rules: vec![w.clone(), rule("u", vec![vec![named("s")]])], default: vec![vec![lp[5].clone()]] });
    let docs: Vec<V> = docs_quick();
    let mut djs: Vec<String> = docs.iter().map(|d| d.json()).collect();
    // numbers beyond i64 (floats in every loader) with type-sensitive rules
    djs.push("{\"a\":9223372036854775808,\"b\":1}".to_string());
    djs.push("{\"a\":[18446744073709551615,1],\"b\":1.0}".to_string());
    progs.push(File { lets: vec![], rules: vec![rule("tf", vec![vec![un(vec![key("a")], UnOp::IsFloat, false), un(vec![key("a"), Part::All], UnOp::IsFloat, false).with_some(true)]]), rule("ti", vec![vec![un(vec![key("a")], UnOp::IsInt, false)]]), rule("tn", vec![vec![bin(vec![key("a")], BinOp::Lt, false, i(0)), bin(vec![key("a"), Part::All], BinOp::Lt, false, i(0)).with_some(true)]])], default: vec![] });
    let suites: Vec<Vec<usize>> = vec![vec![1], vec![0, 9], vec![2, 13, 20], vec![3, 8, 17, 25], vec![djs.len() - 2, djs.len() - 1]];
    let fmts = ["plain", "plain-v", "json", "yaml", "junit"];
    let stv = [None, Some(St::Pass), Some(St::Fail), Some(St::Skip)];
    // enumerate states
    let mut cases: Vec<(usize, usize, usize)> = vec![]; // program, suite, assignment code
    for (pi, p) in progs.iter().enumerate() {
        let mut names: Vec<String> = p.rules.iter().map(|r| r.name.clone()).collect();
        if !p.default.is_empty() {
            names.push("default".into());
        }
        names.sort();
        names.dedup();
        let k = names.len().min(3);
        for si in 0..suites.len() {
            for code in 0..4usize.pow(k as u32) {
                cases.push((pi, si, code));
            }
        }
    }
    let n = cases.len();
    let res = crate::par::run(n, rep.seed as u64, crate::par::deadline_secs(if thorough { 3000 } else { 45 }), Acc::new, |ci, acc| {
        let (pi, si, code) = cases[ci];
        let p = &progs[pi];
        let text = print_file(p);
        let mut names: Vec<String> = p.rules.iter().map(|r| r.name.clone()).collect();
        if !p.default.is_empty() {
            names.push("default".into());
        }
        names.sort();
        names.dedup();
        let mut exp: BTreeMap<String, Option<St>> = BTreeMap::new();
        for (k, nme) in names.iter().enumerate() {
            exp.insert(nme.clone(), if k < 3 { stv[(code / 4usize.pow(k as u32)) % 4] } else { None });
        }
        let inputs: Vec<&String> = suites[si].iter().map(|d| &djs[*d % djs.len()]).collect();
        // baseline through the library (the entry point behind validate)
        let mut want: Vec<CaseRes> = vec![];
        let mut errors = false;
        for d in &inputs {
            match lib_run(&text, d) {
                Obs::Ok(_, rs) => want.push(expected_case(&rs, &exp)),
                _ => errors = true,
            }
        }
        let tf_files = yaml_test_file(&inputs, &exp, "x.guard/default");
        let tf_dir = yaml_test_file(&inputs, &exp, "x/default");
        let tf = tf_files.clone();
        let want_exit = if want.iter().any(|c| !c.failed.is_empty()) { 7 } else { 0 };
        // a directory with this rules file between two others whose tests all match: the run exits as this file alone does
        if !errors && ci % 3 == 0 {
            reset_dir("c16dd");
            // the file under test and its neighbours have names that are prefixes of one another, with the characters that
            // sort before and after `.` following the shared part
            let this_name = ["m_this", "m_this-x", "m_this_x", "m_this0", "m"][(ci / 3) % 5];
            put(&format!("c16dd/{}.guard", this_name), &text);
            put(&format!("c16dd/tests/{}_tests.yaml", this_name), &yaml_test_file(&inputs, &exp, &format!("{}/default", this_name)));
            for nm in ["a_before", "z_after", "m", "m_this", "m_this-x", "m_this_x", "m_this0", "m_this_x_y"] {
                if nm == this_name {
                    continue;
                }
                put(&format!("c16dd/{}.guard", nm), "rule ok { zz !exists }\n");
                put(&format!("c16dd/tests/{}_tests.yaml", nm), "- input: {a: 1}\n  expectations:\n    rules:\n      ok: PASS\n");
            }
            for fmt in fmts {
                let mut argv = sv(&["test", "--dir"]);
                argv.push(workdir().join("c16dd").to_string_lossy().to_string());
                match fmt {
                    "plain" => {}
                    "plain-v" => argv.push("-v".into()),
                    f => argv.extend(sv(&["-o", f])),
                }
                let o = cli_inproc(&argv, "");
                acc.traces += 1;
                if o.panic.is_none() && o.status() != want_exit {
                    acc.violate(&format!("exit-code:{}:dir-of-three", fmt), format!("test --dir over three rules files exits {} but the only file with expectations that can fail exits {} alone | rules `{}` tests `{}`", o.status(), want_exit, text.trim(), tf.trim()), json!({"kind":"cli","argv":argv,"stdin":"","files":{"m_this.guard":text,"tests/m_this_tests.yaml":tf,"a_before.guard / z_after.guard":"rule ok { zz !exists }"},"expected":format!("exit {}", want_exit),"observed":format!("exit {}", o.status())}));
                }
            }
        }
        for dir_layout in [false, true] {
            let tag = if dir_layout { "c16d" } else { "c16f" };
            reset_dir(tag);
            let rp = put(&format!("{}/x.guard", tag), &text);
            // with -r the implicit default rule is named after the path as typed, in directory mode after the file stem
            let tf = if dir_layout { tf_dir.clone() } else { yaml_test_file(&inputs, &exp, &format!("{}/default", rp)) };
            let tp = put(&format!("{}/tests/x_tests.yaml", tag), &tf);
            for fmt in fmts {
                let mut argv = sv(&["test"]);
                if dir_layout {
                    argv.extend(vec!["--dir".to_string(), workdir().join(tag).to_string_lossy().to_string()]);
                } else {
                    argv.extend(vec!["-r".to_string(), rp.clone(), "-t".to_string(), tp.clone()]);
                }
                match fmt {
                    "plain" => {}
                    "plain-v" => argv.push("-v".into()),
                    f => argv.extend(sv(&["-o", f])),
                }
                let o = cli_inproc(&argv, "");
                acc.traces += 1;
                acc.nontrivial += 1;
                let replay = |obs: String| json!({"kind":"cli","argv":argv,"stdin":"","files":{"x.guard":text,"tests/x_tests.yaml":tf},"expected":format!("{:?} exit {}", want, want_exit),"observed":obs});
                let mut bad = |acc: &mut Acc, sig: &str, what: String| {
                    acc.violate(&format!("{}:{}:{}", sig, fmt, if dir_layout { "dir" } else { "files" }), format!("{} | rules `{}` tests `{}`", what, text.trim(), tf.trim()), replay(what.clone()));
                };
                if let Some(pn) = &o.panic {
                    bad(acc, "panic", format!("panic {}", pn));
                    continue;
                }
                if errors {
                    *acc.outcomes.entry("evaluation-error".into()).or_insert(0) += 1;
                    if o.status() == 0 {
                        bad(acc, "error-ignored", "validate raises an evaluation error on an input but test exits 0".into());
                    }
                    continue;
                }
                *acc.outcomes.entry(format!("exit-{}", o.status())).or_insert(0) += 1;
                if o.status() != want_exit {
                    bad(acc, "exit-code", format!("exit {} but expected {}", o.status(), want_exit));
                }
                let got: Result<Vec<CaseRes>, String> = match fmt {
                    "plain" | "plain-v" => Ok(parse_plain(&o.out)),
                    "json" => serde_json::from_str::<Value>(&o.out).map_err(|e| format!("not JSON: {}", e)).and_then(|v| parse_structured(&v)),
                    "yaml" => serde_yaml::from_str::<serde_yaml::Value>(&o.out).map_err(|e| format!("not YAML: {}", e)).and_then(|y| serde_json::to_value(&y).map_err(|e| e.to_string())).and_then(|v| parse_structured(&v)),
                    _ => {
                        // junit exposes pass / fail per rule with an expectation
                        match parse_junit_rules(&o.out) {
                            Err(e) => Err(e),
                            Ok(list) => {
                                let mut w: Vec<(String, String)> = vec![];
                                for c in &want {
                                    // the reporter emits the passed rules of a case first, then the failed ones
                                    let mut pz: Vec<(String, String)> = c.passed.iter().map(|(n, _)| (n.clone(), "pass".to_string())).collect();
                                    let mut fz: Vec<(String, String)> = c.failed.iter().map(|(n, _, _)| (n.clone(), "fail".to_string())).collect();
                                    pz.sort();
                                    fz.sort();
                                    w.extend(pz);
                                    w.extend(fz);
                                }
                                let mut g = list.clone();
                                let mut w2 = w.clone();
                                g.sort();
                                w2.sort();
                                if g != w2 {
                                    bad(acc, "rendering-differs", format!("junit marks {:?}, expected {:?}", list, w));
                                }
                                // the text of a failure names the expectation and every evaluated status, like the other renderings
                                let mut have: Vec<(String, String)> = crate::report::parse_junit(&o.out).unwrap_or_default().into_iter().filter(|c| c.mark == "fail").map(|c| (crate::report::bare(&c.name), c.failure_text.trim().to_string())).collect();
                                let mut wantf: Vec<(String, String)> = want.iter().flat_map(|c| c.failed.iter().map(|(n, e, ev)| (n.clone(), format!("Expected = {}, Evaluated = [{}]", e, ev.join(", "))))).collect();
                                have.sort();
                                wantf.sort();
                                if have != wantf {
                                    bad(acc, "rendering-differs-failure-text", format!("junit failure texts {:?}, the other renderings give {:?}", have, wantf));
                                }
                                for pb in crate::report::junit_counter_problems(&o.out) {
                                    bad(acc, "junit-counters", pb);
                                }
                                continue;
                            }
                        }
                    }
                };
                match got {
                    Err(e) => bad(acc, "output-unreadable", e),
                    Ok(g) => {
                        if g != want {
                            bad(acc, "result-differs", format!("test reports {:?}, validate + expectations give {:?}", g, want));
                        }
                    }
                }
            }
        }
    }, Acc::merge);
    let mut res = res;
    // ---- the validate command itself as the other side (its loader is not the one behind test and the library): number and
    //      scalar spellings x type-sensitive rules; test must report the statuses validate prints, met / unmet accordingly
    let mut vt = 0u64;
    {
        let texts = ["1e5", "2.5E-3", "1e22", "1E+2", "1.5", "-2", "0", "-0.0", "9223372036854775808", "\"1e5\"", "true", "null", "[1e5, 2]", "{\"k\": 1.0e0}"];
        let rules = "rule f { a is_float }\nrule i { a is_int }\nrule s { a is_string }\nrule g { a > 1.0 }\nrule l { some a[*] is_float }\nrule k { a.k is_float }\n";
        let names = ["f", "i", "s", "g", "l", "k"];
        let rp = put("c16v/x.guard", rules);
        for t in texts {
            let doc = format!("{{\"a\": {}}}", t);
            let dp = put("c16v/d.json", &doc);
            let vo = cli_inproc(&sv(&["validate", "-r", &rp, "-d", &dp, "-S", "all"]), "");
            let table = crate::report::parse_plain(&vo.out, "sls");
            let mut vst: BTreeMap<String, &str> = BTreeMap::new();
            for tb in &table.tables {
                for n in &tb.pass {
                    vst.insert(n.clone(), "PASS");
                }
                for n in &tb.fail {
                    vst.insert(n.clone(), "FAIL");
                }
                for n in &tb.skip {
                    vst.insert(n.clone(), "SKIP");
                }
            }
            if vst.len() != names.len() {
                continue; // validate raised an error on this input: nothing to compare
            }
            for flip in [None, Some(0usize), Some(3)] {
                let exp: Vec<String> = names.iter().enumerate().map(|(k, n)| {
                    let st = vst[*n];
                    let e = if flip == Some(k) { if st == "PASS" { "FAIL" } else { "PASS" } } else { st };
                    format!("\"{}\": \"{}\"", n, e)
                }).collect();
                let tf = format!("[{{\"name\": \"t\", \"input\": {}, \"expectations\": {{\"rules\": {{{}}}}}}}]", doc, exp.join(", "));
                let tp = put("c16v/x_tests.json", &tf);
                for fmt in [vec![], vec!["-o", "json"], vec!["-o", "junit"]] {
                    let mut argv = sv(&["test", "-r", &rp, "-t", &tp]);
                    argv.extend(sv(&fmt));
                    let o = cli_inproc(&argv, "");
                    vt += 1;
                    res.acc.traces += 1;
                    let want = if flip.is_some() { 7 } else { 0 };
                    if o.panic.is_some() || o.status() != want {
                        res.acc.violate(&format!("test-vs-validate-command:{}", if flip.is_some() { "unmet-not-reported" } else { "met-reported-unmet" }), format!("input {}: validate prints {:?}; test with {} exits {} (expected {}) | {}", doc, vst, if flip.is_some() { "one expectation flipped" } else { "exactly these expectations" }, o.status(), want, o.out.lines().filter(|l| l.contains("Expected")).take(3).collect::<Vec<_>>().join(" / ")), json!({"kind":"cli","argv":argv,"stdin":"","files":{"x.guard":rules,"x_tests.json":tf,"d.json":doc},"expected":format!("exit {}", want),"observed":format!("exit {}", o.status())}));
                    }
                }
            }
        }
    }
    // ---- the same for maps whose keys are not in alphabetical order, read through wildcards, key filters and key captures
    {
        let rules = "rule star { Servers.*.role == \"frontend\" }\nrule some_star { some Servers.*.role == \"frontend\" }\nrule keyf { Servers[ keys == /^w/ ].role == \"frontend\" }\nrule cap {\n  Servers[ name | role == \"frontend\" ] !empty\n  %name == \"web\"\n}\nrule capn {\n  Servers[ n2 | role == \"backend\" ] !empty\n  %n2 in [\"api\", \"db\"]\n}\nrule first { Servers.web.role == \"frontend\" }\n";
        let names = ["star", "some_star", "keyf", "cap", "capn", "first"];
        let rp = put("c16k/x.guard", rules);
        for doc in [
            "{\"Servers\": {\"web\": {\"role\": \"frontend\"}, \"api\": {\"role\": \"backend\"}, \"db\": {\"role\": \"backend\"}}}",
            "{\"Servers\": {\"db\": {\"role\": \"backend\"}, \"web\": {\"role\": \"frontend\"}, \"api\": {\"role\": \"backend\"}}}",
            "{\"Servers\": {\"api\": {\"role\": \"backend\"}, \"db\": {\"role\": \"backend\"}, \"web\": {\"role\": \"frontend\"}}}",
            "{\"Servers\": {\"zeta\": {\"role\": \"frontend\"}, \"web\": {\"role\": \"backend\"}, \"alpha\": {\"role\": \"frontend\"}}}",
        ] {
            let dp = put("c16k/d.json", doc);
            let vo = cli_inproc(&sv(&["validate", "-r", &rp, "-d", &dp, "-S", "all"]), "");
            let table = crate::report::parse_plain(&vo.out, "sls");
            let mut vst: BTreeMap<String, &str> = BTreeMap::new();
            for tb in &table.tables {
                for n in &tb.pass {
                    vst.insert(n.clone(), "PASS");
                }
                for n in &tb.fail {
                    vst.insert(n.clone(), "FAIL");
                }
                for n in &tb.skip {
                    vst.insert(n.clone(), "SKIP");
                }
            }
            if vst.len() != names.len() {
                continue;
            }
            let exp: Vec<String> = names.iter().map(|n| format!("\"{}\": \"{}\"", n, vst[*n])).collect();
            let tf = format!("[{{\"name\": \"t\", \"input\": {}, \"expectations\": {{\"rules\": {{{}}}}}}}]", doc, exp.join(", "));
            let tp = put("c16k/x_tests.json", &tf);
            for fmt in [vec![], vec!["-o", "json"]] {
                let mut argv = sv(&["test", "-r", &rp, "-t", &tp]);
                argv.extend(sv(&fmt));
                let o = cli_inproc(&argv, "");
                vt += 1;
                res.acc.traces += 1;
                if o.panic.is_some() || o.status() != 0 {
                    res.acc.violate("test-vs-validate-command:map-key-order", format!("input {}: validate prints {:?}; test with exactly these expectations exits {} | {}", doc, vst, o.status(), o.out.lines().filter(|l| l.contains("Expected")).take(3).collect::<Vec<_>>().join(" / ")), json!({"kind":"cli","argv":argv,"stdin":"","files":{"x.guard":rules,"x_tests.json":tf},"expected":"exit 0","observed":format!("exit {}", o.status())}));
                }
            }
        }
    }
    rep.extra.insert("test_vs_validate_command_runs".into(), json!(vt));
    rep.states = res.acc.nontrivial + vt;
    rep.transitions = res.acc.nontrivial + b.transitions + vt;
    if res.capped {
        rep.caps_hit.push(format!("wall-clock cap: {} of {} (program, suite, assignment) states", res.done, n));
    }
    rep.distinct_nontrivial = progs.len() as u64;
    rep.extra.insert("programs".into(), json!(progs.len()));
    rep.extra.insert("expectation_assignments".into(), json!("all 4^k assignments (PASS / FAIL / SKIP / none) for the first k <= 3 rule names"));
    rep.extra.insert("formats".into(), json!(fmts));
    rep.samples.push(json!({"rules": print_file(&progs[progs.len() - 1]), "tests": yaml_test_file(&[&djs[1], &djs[9]], &[("s".to_string(), Some(St::Skip)), ("u".to_string(), None)].into_iter().collect(), "x.guard/default")}));
    rep.rule = "states = (rules file incl. files with the same rule name defined several times, suite of 1..4 inputs, expectation assignment, output format, layout); the per-case passed / failed / unexpected sets and the evaluated statuses reported by test are compared with the closed-form rule of the property applied to the per-definition statuses of the library entry point on the same input; exit 0 / 7; all renderings compared with the same expectation".into();
    rep.assumptions = vec!["for a met expectation the reporter shows the expected status; for an unmet one the full list of per-definition statuses".into()];
    let mut rep = rep;
    res.acc.into_report(&mut rep);
    cleanup_workdirs();
    rep.finish()
}
