//! Adapters ("seams") to the implementation under test.
use std::panic::{catch_unwind, AssertUnwindSafe};

#[derive(Clone, Copy, Debug, PartialEq, Eq, Hash, PartialOrd, Ord)]
pub enum St {
    Pass,
    Fail,
    Skip,
}
impl St {
    pub fn parse(s: &str) -> Option<St> {
        match s {
            "PASS" => Some(St::Pass),
            "FAIL" => Some(St::Fail),
            "SKIP" => Some(St::Skip),
            _ => None,
        }
    }
    pub fn txt(&self) -> &'static str {
        match self {
            St::Pass => "PASS",
            St::Fail => "FAIL",
            St::Skip => "SKIP",
        }
    }
}

/// Observation of one library evaluation.
#[derive(Clone, Debug, PartialEq)]
pub enum Obs {
    /// file status, per-rule (name, status) in record order
    Ok(St, Vec<(String, St)>),
    /// evaluation / parse error (message kept for diagnostics only)
    Err(String),
    Panic(String),
    /// rules text was empty / comments only (run_checks returns "")
    Empty,
}
impl Obs {
    pub fn short(&self) -> String {
        match self {
            Obs::Ok(f, rs) => format!(
                "file={} {}",
                f.txt(),
                rs.iter().map(|(n, s)| format!("{}={}", n, s.txt())).collect::<Vec<_>>().join(" ")
            ),
            Obs::Err(e) => format!("ERR({})", e.chars().take(100).collect::<String>()),
            Obs::Panic(p) => format!("PANIC({})", p.chars().take(100).collect::<String>()),
            Obs::Empty => "EMPTY".into(),
        }
    }
    pub fn class(&self) -> &'static str {
        match self {
            Obs::Ok(St::Pass, _) => "PASS",
            Obs::Ok(St::Fail, _) => "FAIL",
            Obs::Ok(St::Skip, _) => "SKIP",
            Obs::Err(_) => "ERROR",
            Obs::Panic(_) => "PANIC",
            Obs::Empty => "EMPTY",
        }
    }
}

pub fn silence_panics() {
    std::panic::set_hook(Box::new(|_| {}));
}

pub fn panic_msg(e: Box<dyn std::any::Any + Send>) -> String {
    if let Some(s) = e.downcast_ref::<&str>() {
        s.to_string()
    } else if let Some(s) = e.downcast_ref::<String>() {
        s.clone()
    } else {
        "?".into()
    }
}

/// Raw library call; returns the JSON text of the verbose record or the non-verbose report.
pub fn lib_raw(rules: &str, data: &str, verbose: bool) -> Result<Result<String, String>, String> {
    let r = catch_unwind(AssertUnwindSafe(|| {
        cfn_guard::run_checks(
            cfn_guard::ValidateInput { content: data, file_name: "d.json" },
            cfn_guard::ValidateInput { content: rules, file_name: "r.guard" },
            verbose,
        )
    }));
    match r {
        Err(p) => Err(panic_msg(p)),
        Ok(Ok(s)) => Ok(Ok(s)),
        Ok(Err(e)) => Ok(Err(e.to_string())),
    }
}

/// Library evaluation, verbose record parsed into per-rule statuses.
pub fn lib_run(rules: &str, data: &str) -> Obs {
    match lib_raw(rules, data, true) {
        Err(p) => Obs::Panic(p),
        Ok(Err(e)) => Obs::Err(e),
        Ok(Ok(s)) => {
            if s.is_empty() {
                return Obs::Empty;
            }
            match serde_json::from_str::<serde_json::Value>(&s) {
                Ok(v) => obs_from_record(&v),
                Err(e) => Obs::Err(format!("record not JSON: {}", e)),
            }
        }
    }
}

pub fn lib_record(rules: &str, data: &str) -> Result<serde_json::Value, Obs> {
    match lib_raw(rules, data, true) {
        Err(p) => Err(Obs::Panic(p)),
        Ok(Err(e)) => Err(Obs::Err(e)),
        Ok(Ok(s)) => {
            if s.is_empty() {
                return Err(Obs::Empty);
            }
            serde_json::from_str::<serde_json::Value>(&s).map_err(|e| Obs::Err(format!("record not JSON: {}", e)))
        }
    }
}

pub fn obs_from_record(v: &serde_json::Value) -> Obs {
    let fs = v
        .get("container")
        .and_then(|c| c.get("FileCheck"))
        .and_then(|f| f.get("status"))
        .and_then(|s| s.as_str())
        .and_then(St::parse);
    let fs = match fs {
        Some(s) => s,
        None => return Obs::Err("record root is not a FileCheck".into()),
    };
    let mut rules = vec![];
    if let Some(ch) = v.get("children").and_then(|c| c.as_array()) {
        for c in ch {
            if let Some(rc) = c.get("container").and_then(|c| c.get("RuleCheck")) {
                let n = rc.get("name").and_then(|s| s.as_str()).unwrap_or("?").to_string();
                let n = n.strip_prefix("r.guard/").map(|s| s.to_string()).unwrap_or(n);
                match rc.get("status").and_then(|s| s.as_str()).and_then(St::parse) {
                    Some(s) => rules.push((n, s)),
                    None => return Obs::Err("rule status missing".into()),
                }
            }
        }
    }
    Obs::Ok(fs, rules)
}
