//! C04 — verdicts do not depend on the order or repetition of clauses and rules (DESIGN 5/C04).
//! Differential, implementation against itself: every permutation (<= 4 items) of the lines of a
//! block, the alternatives of a line and the rules of a file; duplication of any line / alternative;
//! duplication of a rule under a fresh name. BFS depth 1 over all base programs, depth 2 over the
//! smallest ones.
use crate::ast::*;
use crate::c01::Acc;
use crate::evidence::Report;
use crate::impl_::{lib_run, Obs, St};
use crate::p2::*;
use crate::universe::*;
use crate::val::*;
use serde_json::json;

fn perms(n: usize) -> Vec<Vec<usize>> {
    fn rec(cur: &mut Vec<usize>, used: &mut Vec<bool>, n: usize, out: &mut Vec<Vec<usize>>) {
        if cur.len() == n {
            out.push(cur.clone());
            return;
        }
        for k in 0..n {
            if !used[k] {
                used[k] = true;
                cur.push(k);
                rec(cur, used, n, out);
                cur.pop();
                used[k] = false;
            }
        }
    }
    let mut out = vec![];
    rec(&mut vec![], &mut vec![false; n], n, &mut out);
    out.into_iter().filter(|p| p.iter().enumerate().any(|(i, k)| i != *k)).collect()
}

fn cnf_sites_clause(c: &Clause, out: &mut Vec<Vec<usize>>, path: &mut Vec<usize>) {
    match c {
        Clause::Block { body, .. } => {
            path.push(0);
            cnf_sites(body, out, path);
            path.pop();
        }
        Clause::When { cond, body, .. } => {
            path.push(0);
            cnf_sites(cond, out, path);
            path.pop();
            path.push(1);
            cnf_sites(body, out, path);
            path.pop();
        }
        Clause::TypeBlock { body, .. } => {
            path.push(1);
            cnf_sites(body, out, path);
            path.pop();
        }
        _ => {}
    }
}
/// a site is addressed by a path: [rule, (0 = when | 1 = body), (line, alt, (0 = cond | 1 = body))*]
fn cnf_sites(c: &Cnf, out: &mut Vec<Vec<usize>>, path: &mut Vec<usize>) {
    out.push(path.clone());
    for (li, line) in c.iter().enumerate() {
        for (ai, alt) in line.iter().enumerate() {
            path.push(li);
            path.push(ai);
            cnf_sites_clause(alt, out, path);
            path.pop();
            path.pop();
        }
    }
}
fn cnf_at<'a>(f: &'a mut File, path: &[usize]) -> &'a mut Cnf {
    let r = &mut f.rules[path[0]];
    let mut cur: &mut Cnf = if path[1] == 0 { r.when.as_mut().unwrap() } else { &mut r.body };
    let mut k = 2;
    while k < path.len() {
        let (li, ai, which) = (path[k], path[k + 1], path[k + 2]);
        let cl = &mut cur[li][ai];
        cur = match cl {
            Clause::Block { body, .. } => body,
            Clause::When { cond, body, .. } => {
                if which == 0 {
                    cond
                } else {
                    body
                }
            }
            Clause::TypeBlock { body, .. } => body,
            _ => unreachable!(),
        };
        k += 3;
    }
    cur
}
fn all_sites(f: &File) -> Vec<Vec<usize>> {
    let mut out = vec![];
    for (ri, r) in f.rules.iter().enumerate() {
        if let Some(w) = &r.when {
            cnf_sites(w, &mut out, &mut vec![ri, 0]);
        }
        cnf_sites(&r.body, &mut out, &mut vec![ri, 1]);
    }
    out
}

/// (label, transformed file, rule-name map new->old for the comparison)
pub fn transforms(f: &File) -> Vec<(String, File, Vec<(String, String)>)> {
    let mut ident: Vec<(String, String)> = f.rules.iter().map(|r| (r.name.clone(), r.name.clone())).collect();
    ident.dedup();
    ident.sort();
    ident.dedup();
    let mut out = vec![];
    for site in all_sites(f) {
        let mut probe = f.clone();
        let cnf = cnf_at(&mut probe, &site).clone();
        let tag = format!("{:?}", site);
        if cnf.len() >= 2 && cnf.len() <= 4 {
            for p in perms(cnf.len()) {
                let mut g = f.clone();
                *cnf_at(&mut g, &site) = p.iter().map(|k| cnf[*k].clone()).collect();
                out.push((format!("permute-lines{}{:?}", tag, p), g, ident.clone()));
            }
        }
        for (li, line) in cnf.iter().enumerate() {
            if line.len() >= 2 && line.len() <= 4 {
                for p in perms(line.len()) {
                    let mut g = f.clone();
                    cnf_at(&mut g, &site)[li] = p.iter().map(|k| line[*k].clone()).collect();
                    out.push((format!("permute-alternatives{}l{}{:?}", tag, li, p), g, ident.clone()));
                }
            }
            // repeat the line as an extra conjunct (at the end and directly after itself)
            let mut g = f.clone();
            cnf_at(&mut g, &site).push(line.clone());
            out.push((format!("repeat-line{}l{}", tag, li), g, ident.clone()));
            if li + 1 != cnf.len() {
                let mut g = f.clone();
                cnf_at(&mut g, &site).insert(li + 1, line.clone());
                out.push((format!("repeat-line-adjacent{}l{}", tag, li), g, ident.clone()));
            }
            for (ai, alt) in line.iter().enumerate() {
                let mut g = f.clone();
                cnf_at(&mut g, &site)[li].push(alt.clone());
                out.push((format!("repeat-alternative{}l{}a{}", tag, li, ai), g, ident.clone()));
                let mut g = f.clone();
                cnf_at(&mut g, &site)[li].insert(0, alt.clone());
                out.push((format!("repeat-alternative-front{}l{}a{}", tag, li, ai), g, ident.clone()));
            }
        }
    }
    // rules: every order; duplicate under a fresh name (before and after the original)
    if f.rules.len() >= 2 && f.rules.len() <= 4 {
        for p in perms(f.rules.len()) {
            // same-named definitions are order-dependent by design (first non-SKIP counts): keep their relative order
            let keeps = (0..p.len()).all(|x| (x + 1..p.len()).all(|y| f.rules[p[x]].name != f.rules[p[y]].name || p[x] < p[y]));
            if !keeps {
                continue;
            }
            let mut g = f.clone();
            g.rules = p.iter().map(|k| f.rules[*k].clone()).collect();
            out.push((format!("permute-rules{:?}", p), g, ident.clone()));
        }
    }
    for (ri, r) in f.rules.iter().enumerate() {
        if r.params.is_some() || f.rules.iter().filter(|x| x.name == r.name).count() > 1 {
            continue;
        }
        for front in [false, true] {
            let mut g = f.clone();
            let mut d = r.clone();
            d.name = format!("{}dup", r.name);
            while f.rules.iter().any(|x| x.name == d.name) {
                d.name.push('x');
            }
            let mut map = ident.clone();
            map.push((d.name.clone(), r.name.clone()));
            if front {
                g.rules.insert(0, d);
            } else {
                g.rules.push(d);
            }
            out.push((format!("duplicate-rule{}{}", ri, if front { "-front" } else { "" }), g, map));
        }
    }
    out
}

/// statuses of all definitions carrying this name, in file order
fn status_of(o: &Obs, name: &str) -> Vec<St> {
    match o {
        Obs::Ok(_, rs) => rs.iter().filter(|(n, _)| n == name).map(|(_, s)| *s).collect(),
        _ => vec![],
    }
}

pub fn compare(base_t: &str, base_o: &Obs, label: &str, g_t: &str, g_o: &Obs, map: &[(String, String)], dj: &str, acc: &mut Acc) {
    for (o, t) in [(base_o, base_t), (g_o, g_t)] {
        if let Obs::Panic(p) = o {
            acc.violate("panic", format!("panic {} rules `{}` data {}", p, t.trim(), dj), json!({"kind":"lib","rules":t,"data":dj,"expected":"no panic","observed":o.short()}));
            return;
        }
    }
    let (bf, gf) = match (base_o, g_o) {
        (Obs::Ok(bf, _), Obs::Ok(gf, _)) => (*bf, *gf),
        _ => {
            // a parse error is not an evaluation error: an ordering that the parser rejects while another is accepted
            let pe = |o: &Obs| matches!(o, Obs::Err(e) if e.contains("Parser Error") || e.contains("Parsing Error"));
            if pe(base_o) != pe(g_o) {
                let kind = label.split(|c: char| c == '[' || c.is_ascii_digit()).next().unwrap_or(label).to_string();
                acc.violate(&format!("{}:one-order-does-not-parse", kind), format!("{}: `{}` gives {} but `{}` gives {}", label, base_t.trim(), base_o.short(), g_t.trim(), g_o.short()), json!({"kind":"lib2","rules":base_t,"rules2":g_t,"data":dj,"expected":"both orders parse","observed":format!("{} vs {}", base_o.short(), g_o.short())}));
                return;
            }
            // "provided no ordering raises an evaluation error": counted, not compared
            *acc.outcomes.entry("some-ordering-errors".into()).or_insert(0) += 1;
            return;
        }
    };
    *acc.outcomes.entry(bf.txt().into()).or_insert(0) += 1;
    let kind = label.split(|c: char| c == '[' || c.is_ascii_digit()).next().unwrap_or(label).to_string();
    let mut diffs = vec![];
    for (newn, oldn) in map {
        let a = status_of(base_o, oldn);
        let b = status_of(g_o, newn);
        if a != b && !(newn != oldn && a.len() == 1 && b.len() == 1 && a == b) {
            diffs.push(format!("{}:{:?}->{}:{:?}", oldn, a, newn, b));
        }
    }
    // file status: duplicating a rule adds a rule with the same status, so the fold is unchanged
    if bf != gf {
        diffs.push(format!("file:{:?}->{:?}", bf, gf));
    }
    if !diffs.is_empty() {
        acc.violate(&kind, format!("{} changes {} | base `{}` transformed `{}` data {}", label, diffs.join(","), base_t.trim(), g_t.trim(), dj), json!({"kind":"lib2","rules":base_t,"rules2":g_t,"data":dj,"expected":"same statuses","observed":format!("{} vs {}", base_o.short(), g_o.short())}));
    }
}

/// hand-written pool: lets at every scope, forward/backward references, memo-sensitive shapes, 4-item collections
pub fn extra_pool() -> Vec<File> {
    let a = || vec![key("a")];
    let lp = leaf_pool();
    let mut out = vec![];
    let fl = vec![Let { name: "v".into(), val: Arg::Q(false, a()) }, Let { name: "w".into(), val: Arg::Lit(l(vec![i(1), i(2)])) }];
    let vleaf = bin(vec![Part::Var("v".into())], BinOp::In, false, Arg_lit_to_v(&Arg::Lit(l(vec![i(1), i(2)]))));
    // %v referenced from two rules, a rule referenced twice, forward + backward references
    out.push(File {
        lets: fl.clone(),
        rules: vec![
            rule("r0", vec![vec![named("r2")], vec![vleaf.clone()]]),
            rule("r1", vec![vec![vleaf.clone(), lp[1].clone()], vec![named("r2").with_not(true), named("r2")]]),
            rule("r2", vec![vec![lp[0].clone()], vec![lp[9].clone(), lp[1].clone()]]),
            rule("r3", vec![vec![named("r0")], vec![named("r2")]]),
        ],
        default: vec![],
    });
    // four lines, four alternatives
    out.push(file1(rule("r0", vec![vec![lp[0].clone()], vec![lp[1].clone()], vec![lp[5].clone()], vec![lp[11].clone()]])));
    out.push(file1(rule("r0", vec![vec![lp[0].clone(), lp[6].clone(), lp[5].clone(), lp[11].clone()]])));
    // rule-level and block-level lets
    let mut r = rule(
        "r0",
        vec![
            vec![bin(vec![Part::Var("x".into())], BinOp::Eq, false, i(1))],
            vec![Clause::Block {
                some: false,
                q: vec![key("a"), Part::All],
                not_empty: false,
                lets: vec![Let { name: "y".into(), val: Arg::Q(false, vec![key("b")]) }],
                body: vec![vec![bin(vec![Part::Var("y".into())], BinOp::Eq, false, i(1)), un(vec![key("a")], UnOp::Exists, false)], vec![un(vec![Part::Var("y".into())], UnOp::Exists, false)]],
            }],
            vec![un(vec![Part::Var("x".into())], UnOp::Exists, false)],
        ],
    );
    r.lets = vec![Let { name: "x".into(), val: Arg::Q(false, a()) }];
    out.push(file1(r));
    // when-skipped rule referenced by others, in both orders
    let mut sk = rule("s", vec![vec![lp[0].clone()]]);
    sk.when = Some(vec![vec![un(vec![key("b")], UnOp::Exists, false)]]);
    out.push(File { lets: vec![], rules: vec![rule("u", vec![vec![named("s")], vec![lp[1].clone()]]), sk.clone(), rule("t", vec![vec![named("s").with_not(true)]])], default: vec![] });
    // same-named definitions (first skips on documents without b) with users before, between and after them
    for l2 in [lp[0].clone(), lp[1].clone(), lp[11].clone()] {
        out.push(File { lets: vec![], rules: vec![rule("u", vec![vec![named("s")]]), sk.clone(), rule("s", vec![vec![l2.clone()]]), rule("t", vec![vec![named("s").with_not(true)]])], default: vec![] });
        out.push(File { lets: vec![], rules: vec![sk.clone(), rule("u", vec![vec![named("s")]]), rule("s", vec![vec![l2.clone()]])], default: vec![] });
    }
    // memoised variables: `some` / plain query variables at file, rule and block scope, referenced once and several times
    // (a repeated clause or a permuted rule is the second reader of the memo)
    for some in [true, false] {
        for q in [vec![key("a"), Part::All, key("b")], vec![key("a"), Part::All], vec![key("a")], vec![key("a"), Part::Filter(vec![vec![un(vec![key("b")], UnOp::Exists, false)]])]] {
            let lets = vec![Let { name: "sv".into(), val: Arg::Q(some, q.clone()) }];
            let sv = || vec![Part::Var("sv".into())];
            let leaves = [bin(sv(), BinOp::Eq, false, i(1)), un(sv(), UnOp::Exists, false), un(sv(), UnOp::Empty, true), un(sv(), UnOp::IsInt, false), bin(sv(), BinOp::In, false, l(vec![i(1), i(2)]))];
            for (k, c) in leaves.iter().enumerate() {
                out.push(File { lets: lets.clone(), rules: vec![rule("r0", vec![vec![c.clone()]])], default: vec![] });
                out.push(File { lets: lets.clone(), rules: vec![rule("r0", vec![vec![c.clone()]]), rule("r1", vec![vec![leaves[(k + 1) % leaves.len()].clone()]])], default: vec![] });
                let mut r = rule("r0", vec![vec![c.clone()], vec![lp[0].clone(), leaves[(k + 2) % leaves.len()].clone()]]);
                r.lets = lets.clone();
                out.push(file1(r));
            }
            out.push(file1(rule("r0", vec![vec![Clause::Block { some: false, q: vec![Part::This], not_empty: false, lets: lets.clone(), body: vec![vec![leaves[0].clone()], vec![leaves[1].clone()]] }]])));
        }
    }
    // keys written in another spelling convention than the data (the evaluator falls back on case conversions), on structs
    // that hold one key in two spellings: the fallback must not depend on what was looked up before
    let k = |path: &[&str]| -> Query { path.iter().map(|p| key(p)).collect() };
    let cc = [
        bin(k(&["Cfg", "bucket_name"]), BinOp::Eq, false, s("camel")),
        bin(k(&["Other", "some_key"]), BinOp::Eq, false, i(1)),
        bin(k(&["Cfg", "BucketName"]), BinOp::Eq, false, s("pascal")),
        un(k(&["cfg", "bucketName"]), UnOp::Exists, false),
        bin(k(&["Other", "SOME_KEY"]), BinOp::Eq, false, i(1)),
        bin(k(&["Cfg", "bucket_name"]), BinOp::Eq, false, s("pascal")),
    ];
    for a in 0..cc.len() {
        for b in 0..cc.len() {
            if a < b {
                out.push(file1(rule("r0", vec![vec![cc[a].clone()], vec![cc[b].clone()]])));
                out.push(File { lets: vec![], rules: vec![rule("r0", vec![vec![cc[a].clone()]]), rule("r1", vec![vec![cc[b].clone()]])], default: vec![] });
                out.push(file1(rule("r0", vec![vec![cc[a].clone(), cc[b].clone()], vec![cc[(a + b) % cc.len()].clone()]])));
            }
        }
    }
    // literal variables defined inside a rule / block and used on the right-hand side of == and in, under all / some
    {
        let lv = |name: &str, v: V| Let { name: name.into(), val: Arg::Lit(v) };
        let rv = |name: &str| Arg::Q(false, vec![Part::Var(name.into())]);
        let bq = |q: Query, op: BinOp, some: bool, rhs: Arg| Clause::Binary { not: false, some, q, op, opneg: false, rhs, msg: None };
        for (val, qs) in [
            (i(1), vec![vec![key("a")], vec![key("a"), Part::All], vec![key("a"), Part::All, key("b")]]),
            (l(vec![i(1), i(2)]), vec![vec![key("a")], vec![key("a"), Part::All], vec![key("a"), Part::All, key("a")]]),
            (l(vec![i(1)]), vec![vec![key("a")], vec![key("a"), Part::All]]),
            (s("x"), vec![vec![key("a")], vec![key("a"), key("b")], vec![key("a"), Part::All]]),
        ] {
            for q in qs {
                for some in [false, true] {
                    for op in [BinOp::Eq, BinOp::In] {
                        let mut r = rule("r0", vec![vec![bq(q.clone(), op, some, rv("v"))], vec![lp[1].clone()]]);
                        r.lets = vec![lv("v", val.clone())];
                        out.push(file1(r));
                        // the same inside a query block and a when block
                        out.push(file1(rule("r0", vec![vec![Clause::Block { some: false, q: vec![Part::This], not_empty: false, lets: vec![lv("v", val.clone())], body: vec![vec![bq(q.clone(), op, some, rv("v"))]] }]])));
                        out.push(file1(rule("r0", vec![vec![Clause::When { cond: vec![vec![un(a(), UnOp::Exists, false)]], lets: vec![lv("v", val.clone())], body: vec![vec![bq(q.clone(), op, some, rv("v"))]] }]])));
                    }
                }
            }
        }
    }
    // when blocks whose condition is an `or` line with an alternative that cannot be evaluated (undefined variable, undefined
    // rule): an evaluation error in every order on the pinned tree; if a tree gives statuses, not order-dependent ones
    for bad in [un(vec![Part::Var("nosuch".into())], UnOp::Exists, false), named("nosuchrule")] {
        for good in [un(a(), UnOp::Exists, false), lp[1].clone()] {
            out.push(file1(rule("r0", vec![vec![Clause::When { cond: vec![vec![bad.clone(), good.clone()]], lets: vec![], body: vec![vec![lp[0].clone()]] }]])));
            out.push(file1(rule("r0", vec![vec![Clause::When { cond: vec![vec![good.clone()], vec![good.clone(), bad.clone()]], lets: vec![], body: vec![vec![lp[0].clone()]] }], vec![lp[1].clone()]])));
        }
    }
    // rules whose `when` guards hold queries that differ only inside a filter
    {
        let guard = |n: i64| vec![vec![un(vec![key("a"), Part::Filter(vec![vec![bin(vec![key("b")], BinOp::Eq, false, i(n))]])], UnOp::Empty, true)]];
        let mut x = rule("rx", vec![vec![un(a(), UnOp::Exists, false)]]);
        x.when = Some(guard(1));
        let mut y = rule("ry", vec![vec![un(a(), UnOp::Exists, false)]]);
        y.when = Some(guard(2));
        let mut z = rule("rz", vec![vec![lp[0].clone()]]);
        z.when = Some(vec![vec![un(vec![key("a"), Part::Filter(vec![vec![un(vec![key("a")], UnOp::Exists, false)]])], UnOp::Empty, true)]]);
        out.push(File { lets: vec![], rules: vec![x.clone(), y.clone()], default: vec![] });
        out.push(File { lets: vec![], rules: vec![x.clone(), y.clone(), z.clone(), rule("ru", vec![vec![named("rx")], vec![named("ry").with_not(true)]])], default: vec![] });
        out.push(File { lets: vec![], rules: vec![rule("ru", vec![vec![named("ry")]]), z, y, x], default: vec![] });
    }
    // keys that begin with a keyword of the language (or, OR, not, in, when, some, exists, keys, let, rule): the first token
    // of a line decides nothing about the line before it
    {
        let kk = |n: &str| vec![key(n)];
        let kc = vec![
            bin(kk("order"), BinOp::Eq, false, i(1)),
            un(kk("ORigin"), UnOp::Exists, false),
            bin(kk("origin"), BinOp::Eq, false, s("x")),
            un(kk("notes"), UnOp::Exists, true),
            bin(kk("inner"), BinOp::In, false, l(vec![i(1), i(2)])),
            un(kk("whenever"), UnOp::IsString, false),
            bin(kk("somekey"), BinOp::Eq, true, i(5)),
            un(kk("existsx"), UnOp::Exists, false),
            bin(vec![key("a"), key("order")], BinOp::Eq, false, i(1)),
            un(a(), UnOp::Exists, false),
            bin(kk("b"), BinOp::Eq, false, i(1)),
        ];
        // ... and nothing about a bare rule reference on the line before it (operators written as words: in, exists, empty, is_*)
        let kw = vec![
            bin(kk("index"), BinOp::Eq, false, i(1)),
            bin(kk("inner"), BinOp::In, false, l(vec![i(1), i(2)])),
            un(kk("existsx"), UnOp::Exists, false),
            bin(kk("emptyx"), BinOp::Eq, false, i(0)),
            bin(kk("is_listed"), BinOp::Eq, false, i(1)),
            bin(kk("INdex"), BinOp::Eq, false, i(1)),
            bin(kk("notes"), BinOp::Eq, false, i(1)),
            bin(kk("order"), BinOp::Eq, false, i(1)),
        ];
        for c in &kw {
            out.push(File { lets: vec![], rules: vec![rule("ra", vec![vec![un(a(), UnOp::Exists, false)]]), rule("r0", vec![vec![named("ra")], vec![c.clone()]])], default: vec![] });
            out.push(File { lets: vec![], rules: vec![rule("ra", vec![vec![un(a(), UnOp::Exists, false)]]), rule("r0", vec![vec![named("ra").with_not(true)], vec![c.clone()], vec![named("ra")]])], default: vec![] });
        }
        for x in 0..kc.len() {
            for y in (x + 1)..kc.len() {
                out.push(file1(rule("r0", vec![vec![kc[x].clone()], vec![kc[y].clone()]])));
                out.push(file1(rule("r0", vec![vec![kc[x].clone(), kc[y].clone()], vec![kc[(x + y) % kc.len()].clone()]])));
            }
        }
    }
    // inside parameterised rules: plain queries, named-rule references, nested calls
    {
        let base_rule = rule("rb", vec![vec![un(a(), UnOp::Exists, false)]]);
        let pv = || vec![Part::Var("x".into())];
        let p1 = Rule { name: "pa".into(), params: Some(vec!["x".into()]), when: None, lets: vec![], body: vec![vec![un(a(), UnOp::Exists, false)], vec![bin(pv(), BinOp::Eq, false, i(1))]] };
        let p2 = Rule { name: "pb".into(), params: Some(vec!["x".into()]), when: None, lets: vec![], body: vec![vec![named("rb")], vec![un(pv(), UnOp::Exists, false)]] };
        let p3 = Rule { name: "pc".into(), params: Some(vec!["x".into()]), when: None, lets: vec![], body: vec![vec![Clause::Call { not: false, name: "pa".into(), args: vec![Arg::Q(false, pv())], msg: None }]] };
        let call = |n: &str, q: Query| Clause::Call { not: false, name: n.into(), args: vec![Arg::Q(false, q)], msg: None };
        for (k, q) in [a(), vec![key("b")], vec![key("a"), Part::All]].into_iter().enumerate() {
            out.push(File { lets: vec![], rules: vec![base_rule.clone(), p1.clone(), p2.clone(), p3.clone(), rule("r0", vec![vec![call("pa", q.clone())]]), rule("r1", vec![vec![call("pb", q.clone())], vec![lp[k].clone()]]), rule("r2", vec![vec![call("pc", q.clone()), lp[1].clone()]])], default: vec![] });
        }
        // (a named-rule reference inside a query block is not in the grammar)
    }
    // rules that refer to each other in a cycle: an evaluation error in every order on the pinned tree (then nothing is
    // compared); if a tree gives them statuses, those must not depend on the order either
    for (na, nb) in [(true, true), (false, true), (false, false)] {
        out.push(File { lets: vec![], rules: vec![rule("ra", vec![vec![named("rb").with_not(na)]]), rule("rb", vec![vec![named("ra").with_not(nb)]]), rule("rc", vec![vec![named("ra")]])], default: vec![] });
        let mut wa = rule("ra", vec![vec![lp[0].clone()]]);
        wa.when = Some(vec![vec![named("rb").with_not(na)]]);
        let mut wb = rule("rb", vec![vec![lp[1].clone()]]);
        wb.when = Some(vec![vec![named("ra").with_not(nb)]]);
        out.push(File { lets: vec![], rules: vec![wa, wb, rule("rc", vec![vec![named("ra")], vec![named("rb").with_not(true)]])], default: vec![] });
        out.push(File { lets: vec![], rules: vec![rule("ra", vec![vec![named("rb").with_not(na)]]), rule("rb", vec![vec![named("rc").with_not(nb)]]), rule("rc", vec![vec![named("ra")]])], default: vec![] });
    }
    out
}

/// documents for the spelling-convention programs of the pool
pub fn case_docs() -> Vec<V> {
    vec![
        m(vec![("Cfg", m(vec![("bucketName", s("camel")), ("BucketName", s("pascal"))])), ("Other", m(vec![("SomeKey", i(1))]))]),
        m(vec![("Cfg", m(vec![("BucketName", s("pascal")), ("bucketName", s("camel"))])), ("Other", m(vec![("someKey", i(1)), ("SomeKey", i(2))]))]),
        m(vec![("Cfg", m(vec![("bucket_name", s("camel")), ("BucketName", s("pascal"))])), ("Other", m(vec![("some_key", i(1))]))]),
        // for the keyword-prefixed keys: the remainders after the keyword (der, igin, tes, ner, ever, key, x) exist too, with other values
        m(vec![("a", m(vec![("order", i(1))])), ("order", i(2)), ("der", i(1)), ("origin", s("y")), ("igin", s("x")), ("notes", i(0)), ("tes", i(1)), ("inner", i(3)), ("ner", i(1)), ("whenever", i(1)), ("ever", s("s")), ("somekey", i(5)), ("key", i(1)), ("b", i(1))]),
        m(vec![("a", i(1)), ("order", i(1)), ("der", i(2)), ("ORigin", s("x")), ("origin", s("x")), ("igin", s("y")), ("inner", i(1)), ("ner", i(9)), ("whenever", s("s")), ("somekey", i(1)), ("key", i(5)), ("existsx", i(1)), ("x", i(1)), ("b", i(2)), ("index", i(1)), ("dex", i(2)), ("emptyx", i(0)), ("is_listed", i(1)), ("INdex", i(2)), ("notes", i(1))]),
    ]
}
#[allow(non_snake_case)]
fn Arg_lit_to_v(a: &Arg) -> V {
    match a {
        Arg::Lit(v) => v.clone(),
        _ => V::Null,
    }
}

pub fn run(tier: &str) -> i32 {
    let thorough = tier == "thorough";
    let mut rep = Report::new("C04", tier);
    let g = Gen::standard(thorough);
    let b = bfs(&g, 3, if thorough { 200_000 } else { 60_000 });
    // (the hand-written pool first: a wall-clock cap then cuts the tail of the BFS universe only)
    let mut base: Vec<File> = extra_pool();
    let npool = base.len();
    if thorough {
        base.extend(b.levels.iter().flatten().cloned());
    } else {
        // quick: all of sizes 1-2, and an evenly spaced covering subset of size 3
        base.extend(b.levels[0].iter().cloned());
        base.extend(b.levels[1].iter().cloned());
        let l3 = &b.levels[2];
        let step = (l3.len() / 2500).max(1);
        base.extend(l3.iter().step_by(step).cloned());
    }
    let small = npool + b.levels[0].len() + b.levels[1].len();
    let mut docs: Vec<V> = if thorough { docs_quick() } else { docs_quick().into_iter().step_by(2).collect() };
    docs.extend(case_docs());
    let djs: Vec<String> = docs.iter().map(|d| d.json()).collect();
    let nbase = base.len();
    let res = crate::par::run(nbase, rep.seed as u64, crate::par::deadline_secs(if thorough { 3000 } else { 45 }), Acc::new, |k, acc| {
        let f = &base[k];
        let bt = print_file(f);
        let bos: Vec<Obs> = djs.iter().map(|dj| lib_run(&bt, dj)).collect();
        acc.traces += djs.len() as u64;
        let ts = transforms(f);
        for (label, gf, map) in &ts {
            let gt = print_file(gf);
            for (di, dj) in djs.iter().enumerate() {
                let go = lib_run(&gt, dj);
                acc.traces += 1;
                acc.nontrivial += 1;
                compare(&bt, &bos[di], label, &gt, &go, map, dj, acc);
            }
            // depth 2 on the smallest programs: a second transformation applied to the transformed program
            if k >= npool && k < small && k % 4 == 0 {
                for (label2, gf2, map2) in transforms(gf).into_iter().step_by(3) {
                    let gt2 = print_file(&gf2);
                    // compose maps: new2 -> new1 -> old
                    let comp: Vec<(String, String)> = map2.iter().filter_map(|(n2, n1)| map.iter().find(|(a, _)| a == n1).map(|(_, o)| (n2.clone(), o.clone()))).collect();
                    for (di, dj) in djs.iter().enumerate().step_by(3) {
                        let go = lib_run(&gt2, dj);
                        acc.traces += 1;
                        acc.nontrivial += 1;
                        compare(&bt, &bos[di], &format!("{}+{}", label, label2), &gt2, &go, &comp, dj, acc);
                    }
                }
            }
        }
    }, Acc::merge);
    let mut res = res;
    // ---- the test command judges a rule that is defined several times on all of its definitions: permuting the definitions
    //      (and the other rules of the file) changes neither the exit code nor what is reported for any rule
    {
        use crate::cli::{cleanup_workdirs, cli_inproc, put, sv};
        let defs = ["rule r { a == 1 }\n", "rule r { a == 2 }\n", "rule r when z exists { a == 1 }\n", "rule q { a exists }\n"];
        // multisets of 2..3 definitions over {PASS, FAIL, SKIP definitions of r, another rule q}
        let mut sets: Vec<Vec<usize>> = vec![];
        for x in 0..4 {
            for y in x..4 {
                sets.push(vec![x, y]);
                for z in y..4 {
                    sets.push(vec![x, y, z]);
                }
            }
        }
        let mut tp = 0u64;
        for set in &sets {
            if !set.iter().any(|k| *k < 3) {
                continue;
            }
            for exp in ["PASS", "FAIL", "SKIP"] {
                let tf = format!("- name: t\n  input: {{a: 1}}\n  expectations:\n    rules:\n      r: {}\n", exp);
                for fmt in [vec![], vec!["-o", "json"]] {
                    let mut seen: Vec<(Vec<usize>, i32, String)> = vec![];
                    for perm in perms(set.len()) {
                        let order: Vec<usize> = perm.iter().map(|k| set[*k]).collect();
                        let text: String = order.iter().map(|k| defs[*k]).collect();
                        let rp = put("c04t/x.guard", &text);
                        let tpth = put("c04t/x_tests.yaml", &tf);
                        let mut argv = sv(&["test", "-r", &rp, "-t", &tpth]);
                        argv.extend(sv(&fmt));
                        let o = cli_inproc(&argv, "");
                        tp += 1;
                        res.acc.traces += 1;
                        // the report, with the definitions' order taken out: sorted lines
                        let mut lines: Vec<&str> = o.out.lines().collect();
                        lines.sort();
                        seen.push((order, o.status(), lines.join("\n")));
                    }
                    let first = seen[0].clone();
                    for (order, st, _) in &seen[1..] {
                        if *st != first.1 {
                            res.acc.violate("test-command-definition-order", format!("test exits {} with the definitions in the order {:?} and {} in the order {:?} (expectation r: {})", first.1, first.0, st, order, exp), json!({"kind":"cli","argv":["test","-r","x.guard","-t","x_tests.yaml"],"stdin":"","files":{"x.guard": order.iter().map(|k| defs[*k]).collect::<String>(),"x_tests.yaml":tf,"other order": first.0.iter().map(|k| defs[*k]).collect::<String>()},"expected":format!("exit {}", first.1),"observed":format!("exit {}", st)}));
                            break;
                        }
                    }
                }
            }
        }
        cleanup_workdirs();
        rep.extra.insert("test_command_permutation_runs".into(), json!(tp));
    }
    // ---- the history dimension across documents: a rule referenced by name has the status of its own evaluation on *this*
    //      document whether or not it was evaluated before - several data files in one validate run, in every order, must each
    //      get the statuses they get alone (the referenced rule's status differs between the documents)
    {
        use crate::cli::{cleanup_workdirs, cli_inproc, put, sv};
        use crate::report::parse_plain;
        let programs = [
            "rule base { a == 1 }\nrule user {\n  base\n}\nrule nuser {\n  not base\n}\nrule wuser when base { b exists }\n",
            "rule user {\n  base\n}\nrule base when z exists { a == 1 }\nrule nuser {\n  not base or\n  b exists\n}\n",
            "let v = a\nrule base { %v == 1 }\nrule mid {\n  base\n}\nrule top {\n  mid\n  base\n}\nrule other when not mid { a exists }\n",
            "rule p(x) { %x == 1 }\nrule base { p(a) }\nrule user {\n  base\n  p(a)\n}\n",
        ];
        let docs = ["{\"a\":1,\"b\":1,\"z\":1}", "{\"a\":2,\"z\":1}", "{\"b\":1}", "{\"a\":1}"];
        let statuses = |out: &str| -> Vec<(String, Vec<(String, St)>)> {
            parse_plain(out, "sls").tables.iter().map(|t| {
                let mut v: Vec<(String, St)> = vec![];
                v.extend(t.pass.iter().map(|n| (n.clone(), St::Pass)));
                v.extend(t.fail.iter().map(|n| (n.clone(), St::Fail)));
                v.extend(t.skip.iter().map(|n| (n.clone(), St::Skip)));
                v.sort();
                (t.data.rsplit('/').next().unwrap_or("").to_string(), v)
            }).collect()
        };
        let mut hist = 0u64;
        let mut distinct: std::collections::BTreeSet<String> = Default::default();
        for (pi, prog) in programs.iter().enumerate() {
            let rp = put("c04h/r.guard", prog);
            let dps: Vec<String> = docs.iter().enumerate().map(|(k, d)| put(&format!("c04h/d{}.json", k), d)).collect();
            // alone
            let mut alone: Vec<Vec<(String, St)>> = vec![];
            for dp in &dps {
                let o = cli_inproc(&sv(&["validate", "-r", &rp, "-d", dp, "-S", "all"]), "");
                let st = statuses(&o.out);
                alone.push(st.first().map(|x| x.1.clone()).unwrap_or_default());
                distinct.insert(format!("{:?}", alone.last().unwrap()));
            }
            // every ordered selection of 2 and 3 documents
            let mut sels: Vec<Vec<usize>> = vec![];
            for x in 0..docs.len() {
                for y in 0..docs.len() {
                    if x == y { continue; }
                    sels.push(vec![x, y]);
                    for z in 0..docs.len() {
                        if z != x && z != y { sels.push(vec![x, y, z]); }
                    }
                }
            }
            for sel in &sels {
                for extra in [vec!["-S", "all"], vec!["-S", "all", "-v"], vec!["-S", "all", "-o", "json"]] {
                    let mut argv = sv(&["validate", "-r", &rp]);
                    for k in sel {
                        argv.push("-d".into());
                        argv.push(dps[*k].clone());
                    }
                    argv.extend(sv(&extra));
                    let o = cli_inproc(&argv, "");
                    hist += 1;
                    res.acc.traces += 1;
                    let got = statuses(&o.out);
                    for k in sel {
                        let name = format!("d{}.json", k);
                        let mine = got.iter().find(|(n, _)| *n == name).map(|x| x.1.clone());
                        if mine.as_ref() != Some(&alone[*k]) {
                            res.acc.violate("status-depends-on-earlier-documents", format!("program {} with data files {:?} ({:?}): {} gets {:?}, alone it gets {:?}", pi, sel, extra, name, mine, alone[*k]), json!({"kind":"cli","argv":argv,"stdin":"","files":{"r.guard":prog,"docs":docs},"expected":format!("{:?}", alone[*k]),"observed":format!("{:?}", mine)}));
                        }
                    }
                }
            }
        }
        cleanup_workdirs();
        if distinct.len() < 4 {
            res.acc.violate("machinery:history-section-vacuous", format!("only {} distinct status vectors", distinct.len()), json!({}));
        }
        rep.extra.insert("document_history_runs".into(), json!(hist));
    }
    rep.states = res.acc.traces;
    rep.transitions = res.acc.nontrivial + b.transitions;
    if res.capped {
        rep.caps_hit.push(format!("wall-clock cap: {} of {} base programs", res.done, nbase));
    }
    rep.distinct_nontrivial = nbase as u64;
    rep.extra.insert("base_programs".into(), json!(nbase));
    rep.extra.insert("transformed_states".into(), json!(res.acc.nontrivial));
    rep.extra.insert("permutation_bound".into(), json!("all permutations of collections of <= 4 items; larger collections are not permuted (no sampling)"));
    let ex = &base[base.len() - 5];
    rep.samples.push(json!({"base": print_file(ex), "transformations": transforms(ex).iter().take(6).map(|t| t.0.clone()).collect::<Vec<_>>()}));
    rep.samples.push(json!({"base": print_file(&base[20]), "data": djs[0]}));
    rep.rule = "states = (program, document) for base and transformed programs; transitions = transformation edges (permute lines / alternatives / rules, repeat a line / alternative, duplicate a rule); per edge the per-rule statuses (through the name bijection) and the file status are compared unless an ordering raises an evaluation error".into();
    rep.assumptions = vec!["rule names are distinct in base programs (same-named definitions are order-dependent by design: first non-SKIP)".into()];
    let mut rep = rep;
    res.acc.into_report(&mut rep);
    rep.finish()
}
