//! C13 — comparison operators form a coherent algebra (DESIGN 5/C13).
//! Closed universe: all ordered pairs of ~40 values x six operators x both polarities x prefix not,
//! right-hand side as literal and as query; ranges; membership; regex table.
use crate::ast::*;
use crate::c01::Acc;
use crate::evidence::Report;
use crate::impl_::{lib_run, Obs, St};
use crate::refsem::{binary_lit, QR};
use crate::val::*;
use serde_json::json;

pub fn universe(thorough: bool) -> Vec<V> {
    let mut u = vec![
        i(0),
        i(1),
        i(-1),
        i(2),
        i(i64::MIN),
        i(i64::MAX),
        f(0.0),
        f(-0.0),
        f(0.5),
        f(-2.5),
        f(1e308),
        f(5e-324),
        f(1.0),
        s(""),
        s("a"),
        s("ab"),
        s("b"),
        s("B"),
        s("é"),
        s("10"),
        s("9"),
        V::Bool(true),
        V::Bool(false),
        V::Null,
        l(vec![]),
        l(vec![i(1)]),
        l(vec![i(1), i(2)]),
        l(vec![i(2), i(1)]),
        l(vec![s("a")]),
        l(vec![l(vec![i(1)])]),
        m(vec![]),
        m(vec![("a", i(1))]),
        m(vec![("a", i(1)), ("b", i(2))]),
        m(vec![("b", i(2)), ("a", i(1))]),
        m(vec![("a", l(vec![i(1)]))]),
        m(vec![("a", i(2))]),
        i(3),
        f(2.0),
        s("a b"),
        f(1.5),
        // neighbours beyond 2^53: distinct integers that one f64 cannot tell apart
        i(i64::MAX - 1),
        i(9007199254740992),
        i(9007199254740993),
    ];
    if thorough {
        u.extend(vec![
            l(vec![i(1), i(2), i(3)]),
            l(vec![i(1), s("a"), V::Null]),
            m(vec![("a", i(1)), ("b", i(2)), ("c", i(3))]),
            m(vec![("c", i(3)), ("a", i(1)), ("b", i(2))]),
            l(vec![f(0.5), f(1.5)]),
            s("A"),
            s("aa"),
            i(10),
            i(9),
            f(-0.5),
        ]);
    }
    u
}

/// every value up to a size bound over a small atom set (lists up to 2 / 3 elements, maps over keys a, b, c in every key order)
pub fn generated_universe(thorough: bool) -> Vec<V> {
    let atoms = vec![i(0), i(1), i(-1), i(2), i(i64::MAX), f(0.0), f(-0.0), f(1.0), f(0.5), f(1e308), s(""), s("a"), s("b"), s("ab"), s("A"), s("1"), V::Bool(true), V::Bool(false), V::Null];
    let small = vec![i(1), i(2), f(1.0), s("a"), s("1"), V::Bool(true), V::Null];
    let tiny = vec![i(1), s("a"), V::Null, l(vec![i(1)])];
    let mut u = atoms.clone();
    u.push(l(vec![]));
    let mut elems = small.clone();
    elems.push(l(vec![i(1)]));
    elems.push(l(vec![]));
    elems.push(m(vec![("a", i(1))]));
    for a in &elems {
        u.push(l(vec![a.clone()]));
        for b in &elems {
            u.push(l(vec![a.clone(), b.clone()]));
            if thorough {
                for c in &small {
                    u.push(l(vec![a.clone(), b.clone(), c.clone()]));
                }
            }
        }
    }
    u.push(m(vec![]));
    let keys = ["a", "b", "c"];
    for (ka, k1) in keys.iter().enumerate() {
        for a in &tiny {
            u.push(m(vec![(k1, a.clone())]));
            for (kb, k2) in keys.iter().enumerate() {
                if ka == kb {
                    continue;
                }
                for b in &tiny {
                    u.push(m(vec![(k1, a.clone()), (k2, b.clone())]));
                    if thorough {
                        for (kc, k3) in keys.iter().enumerate() {
                            if kc == ka || kc == kb {
                                continue;
                            }
                            for c in [i(1), s("a")] {
                                u.push(m(vec![(k1, a.clone()), (k2, b.clone()), (k3, c.clone())]));
                            }
                        }
                    }
                }
            }
        }
    }
    u.push(m(vec![("a", m(vec![("a", i(1))]))]));
    u.push(m(vec![("a", m(vec![("a", i(2))]))]));
    u
}

const OPS: [(BinOp, bool, &str); 6] = [
    (BinOp::Eq, false, "eq"),
    (BinOp::Eq, true, "ne"),
    (BinOp::Lt, false, "lt"),
    (BinOp::Le, false, "le"),
    (BinOp::Gt, false, "gt"),
    (BinOp::Ge, false, "ge"),
];

fn rules_file(rhs: &Arg) -> File {
    let mut f = File::default();
    for (op, neg, name) in OPS.iter() {
        for not in [false, true] {
            let c = Clause::Binary { not, some: false, q: vec![key("x")], op: *op, opneg: *neg, rhs: rhs.clone(), msg: None };
            f.rules.push(rule(&format!("{}{}", if not { "n" } else { "p" }, name), vec![vec![c]]));
        }
    }
    f
}

fn scalar(v: &V) -> bool {
    matches!(v, V::Int(_) | V::Float(_) | V::Str(_) | V::Bool(_) | V::Null)
}
fn ordered_same(v: &V, w: &V) -> Option<std::cmp::Ordering> {
    match (v, w) {
        (V::Int(a), V::Int(b)) => Some(a.cmp(b)),
        (V::Float(a), V::Float(b)) => a.partial_cmp(b),
        (V::Str(a), V::Str(b)) => Some(a.as_bytes().cmp(b.as_bytes())),
        _ => None,
    }
}

fn get(rs: &[(String, St)], n: &str) -> Option<St> {
    rs.iter().find(|(k, _)| k == n).map(|(_, s)| *s)
}

/// checks one ordered pair in one form; `form` = "lit" | "query"
fn check_pair(v: &V, w: &V, form: &str, acc: &mut Acc) {
    let rhs = if form == "lit" { Arg::Lit(w.clone()) } else { Arg::Q(false, vec![key("y")]) };
    let file = rules_file(&rhs);
    let text = print_file(&file);
    let doc = V::Map(vec![("x".into(), v.clone()), ("y".into(), w.clone())]);
    let dj = doc.json();
    let obs = lib_run(&text, &dj);
    acc.traces += 1;
    let replay = |exp: &str| json!({"kind":"lib","rules": text, "data": dj, "expected": exp, "observed": obs.short()});
    let rs = match &obs {
        Obs::Ok(_, rs) => rs.clone(),
        other => {
            *acc.outcomes.entry(other.class().to_string()).or_insert(0) += 1;
            acc.violate(&format!("{}-unexpected-{}", form, other.class()), format!("x={} y={} form={}: {}", v.json(), w.json(), form, other.short()), replay("statuses"));
            return;
        }
    };
    let st = |n: &str| get(&rs, n).unwrap();
    for (_, _, name) in OPS.iter() {
        *acc.outcomes.entry(format!("{}", st(&format!("p{}", name)).txt())).or_insert(0) += 1;
    }
    let pass = |n: &str| st(n) == St::Pass;
    let mut bad = |sig: &str, what: String| {
        acc.violate(&format!("{}-{}", form, sig), format!("x={} y={} form={}: {} [{}]", v.json(), w.json(), form, what, obs.short()), replay(&what));
    };
    // (1) same ordered scalar type: trichotomy in the native order, <= and >= derived
    if let Some(o) = ordered_same(v, w) {
        use std::cmp::Ordering::*;
        // (prefix `not` on comparable values is the complement: on equal values `not <` and `not >` hold)
        let want = [("peq", o == Equal), ("plt", o == Less), ("pgt", o == Greater), ("ple", o != Greater), ("pge", o != Less), ("pne", o != Equal), ("nlt", o != Less), ("ngt", o != Greater), ("nle", o == Greater), ("nge", o == Less)];
        for (n, b) in want {
            if pass(n) != b {
                bad("order", format!("{} should be {}", n, if b { "PASS" } else { "FAIL" }));
            }
        }
    } else if scalar(v) && scalar(w) {
        // (3) different or unordered scalar types
        let same_t = v.t() == w.t();
        if !same_t {
            for n in ["peq", "pne", "plt", "ple", "pgt", "pge"] {
                if pass(n) {
                    bad(if n == "pne" { "ne-holds-for-different-types" } else { "different-types-satisfy" }, format!("{} PASSes for values of different types", n));
                }
            }
        } else {
            // bool/bool, null/null: == by value, != its complement
            let e = v == w;
            if pass("peq") != e {
                bad("eq-same-type", format!("== should be {}", e));
            }
            if pass("pne") == e {
                bad("ne-same-type", format!("!= should be {}", !e));
            }
            if matches!(v, V::Bool(_)) {
                for n in ["plt", "ple", "pgt", "pge"] {
                    if pass(n) {
                        bad("unordered-type-satisfies", format!("{} PASSes for an unordered type", n));
                    }
                }
            }
            // null is not an ordered type either; the tool orders it explicitly (null <= null and null >= null hold)
            if matches!(v, V::Null) {
                for n in ["plt", "ple", "pgt", "pge"] {
                    if pass(n) {
                        bad("null-is-ordered", format!("{} PASSes for null against null", n));
                    }
                }
            }
        }
    }
    // maps: == by key set and values irrespective of key order; maps are unordered
    if let (V::Map(_), V::Map(_)) = (v, w) {
        let e = crate::c13::struct_eq(v, w);
        if pass("peq") != e {
            bad("map-eq", format!("== should be {}", e));
        }
        for n in ["plt", "ple", "pgt", "pge"] {
            if pass(n) {
                bad("unordered-type-satisfies", format!("{} PASSes for maps", n));
            }
        }
    }
    // a map and a scalar are values of different types: nothing holds
    if (matches!(v, V::Map(_)) && scalar(w)) || (scalar(v) && matches!(w, V::Map(_))) {
        for n in ["peq", "pne", "plt", "ple", "pgt", "pge"] {
            if pass(n) {
                bad("different-types-satisfy-map-scalar", format!("{} PASSes for a map and a scalar", n));
            }
        }
    }
    // lists compare element-wise in order (two loaded lists: the query form)
    if let (V::List(_), V::List(_), "query") = (v, w, form) {
        if pass("peq") != struct_eq(v, w) {
            bad("list-eq", format!("== should be {}", struct_eq(v, w)));
        }
    }
    // prefix not: operator-level equivalents (C03 cross-check on the algebra universe)
    for (a, b) in [("neq", "pne"), ("nne", "peq")] {
        if st(a) != st(b) {
            bad("prefix-not", format!("{} is {} but {} is {}", a, st(a).txt(), b, st(b).txt()));
        }
    }
    // agreement with the native kernel K5/K6 for the literal form
    if form == "lit" {
        for (op, neg, name) in OPS.iter() {
            let e = binary_lit(&[QR::R(v.clone())], *op, *neg, w, false);
            if st(&format!("p{}", name)) != e {
                bad("kernel", format!("p{} is {} but the reference kernel says {}", name, st(&format!("p{}", name)).txt(), e.txt()));
            }
        }
    }
}

pub fn struct_eq(a: &V, b: &V) -> bool {
    match (a, b) {
        (V::Map(x), V::Map(y)) => x.len() == y.len() && x.iter().all(|(k, v)| y.iter().any(|(k2, v2)| k == k2 && struct_eq(v, v2))),
        (V::List(x), V::List(y)) => x.len() == y.len() && x.iter().zip(y.iter()).all(|(p, q)| struct_eq(p, q)),
        (V::Float(x), V::Float(y)) => x == y,
        _ => a == b,
    }
}

pub fn run(tier: &str) -> i32 {
    let thorough = tier == "thorough";
    let mut rep = Report::new("C13", tier);
    let u = universe(thorough);
    // ---- all ordered pairs
    let mut cases: Vec<(usize, usize, &str)> = vec![];
    for a in 0..u.len() {
        for b in 0..u.len() {
            if u[b].guard_expressible() && !matches!(u[b], V::Int(i64::MIN)) {
                cases.push((a, b, "lit"));
            }
            cases.push((a, b, "query"));
        }
    }
    let res = crate::par::run(cases.len(), rep.seed as u64, None, Acc::new, |k, acc| {
        let (a, b, form) = cases[k];
        check_pair(&u[a], &u[b], form, acc);
    }, Acc::merge);
    rep.states += cases.len() as u64;
    rep.transitions += cases.len() as u64 * 12;
    let mut acc = res.acc;

    // ---- generated universe: every value of bounded size over a small atom set, all ordered pairs, both right-hand-side
    //      forms, the six operators x prefix not, against the reference interpreter (a complete oracle, also for list operands)
    let g = generated_universe(thorough);
    let gcases = g.len() * g.len() * 2;
    let gr = crate::par::run(gcases, rep.seed as u64, crate::par::deadline_secs(if thorough { 3000 } else { 40 }), Acc::new, |k, acc| {
        let (a, b, form) = (k / 2 / g.len(), (k / 2) % g.len(), k % 2);
        let (v, w) = (&g[a], &g[b]);
        if form == 0 && !w.guard_expressible() {
            return;
        }
        check_pair(v, w, if form == 0 { "lit" } else { "query" }, acc);
    }, Acc::merge);
    rep.states += gcases as u64;
    rep.transitions += gcases as u64 * 12;
    if gr.capped {
        rep.exhaustive = false;
        rep.caps_hit.push(format!("generated-universe pairs: wall-clock cap; {} of {} states done", gr.done, gcases));
    }
    rep.extra.insert("generated_universe_size".into(), json!(g.len()));
    acc = Acc::merge(acc, gr.acc);

    // ---- symmetry / reflexivity of == (both forms), needs two evaluations per unordered pair
    let mut sym_states = 0u64;
    for form in ["lit", "query"] {
        for a in 0..u.len() {
            for b in a..u.len() {
                let (v, w) = (&u[a], &u[b]);
                if form == "lit" && !(v.guard_expressible() && w.guard_expressible() && !matches!(v, V::Int(i64::MIN)) && !matches!(w, V::Int(i64::MIN))) {
                    continue;
                }
                // lists on either side are subject to the documented scalar/list flexibility (K6); symmetry is
                // stated for loaded values compared as wholes, so restrict to non-list operands
                if matches!(v, V::List(_)) != matches!(w, V::List(_)) {
                    continue;
                }
                sym_states += 1;
                let mk = |x: &V, y: &V| -> (String, String) {
                    let rhs = if form == "lit" { Arg::Lit(y.clone()) } else { Arg::Q(false, vec![key("y")]) };
                    let f = file1(rule("r", vec![vec![Clause::Binary { not: false, some: false, q: vec![key("x")], op: BinOp::Eq, opneg: false, rhs, msg: None }]]));
                    (print_file(&f), V::Map(vec![("x".into(), x.clone()), ("y".into(), y.clone())]).json())
                };
                let (t1, d1) = mk(v, w);
                let (t2, d2) = mk(w, v);
                let o1 = lib_run(&t1, &d1);
                let o2 = lib_run(&t2, &d2);
                acc.traces += 2;
                if o1.class() != o2.class() {
                    acc.violate(&format!("{}-eq-not-symmetric", form), format!("{} == {} is {} but {} == {} is {}", v.json(), w.json(), o1.class(), w.json(), v.json(), o2.class()), json!({"kind":"lib","rules":t1,"data":d1,"rules2":t2,"data2":d2,"expected":"same status","observed": format!("{} vs {}", o1.short(), o2.short())}));
                }
                if a == b && o1.class() != "PASS" && !matches!(v, V::Float(x) if x.is_nan()) {
                    acc.violate(&format!("{}-eq-not-reflexive", form), format!("{} == itself is {}", v.json(), o1.class()), json!({"kind":"lib","rules":t1,"data":d1,"expected":"file=PASS r=PASS","observed": o1.short()}));
                }
            }
        }
    }
    rep.states += sym_states;
    rep.transitions += sym_states * 2;

    // ---- ranges: all four bracket forms x bound pairs x values, `in` and `==`
    let ints = [0i64, 1, 2, 3];
    let flts = [0.5f64, 1.5, 2.5];
    let mut rcases: Vec<(V, V)> = vec![];
    for il in [false, true] {
        for ih in [false, true] {
            for lo in ints {
                for hi in ints {
                    rcases.extend(u.iter().map(|v| (v.clone(), rng_i(lo, hi, il, ih))));
                }
            }
            for lo in flts {
                for hi in flts {
                    rcases.extend(u.iter().map(|v| (v.clone(), rng_f(lo, hi, il, ih))));
                }
            }
        }
    }
    let rr = crate::par::run(rcases.len(), 0, None, Acc::new, |k, acc| {
        let (v, r) = &rcases[k];
        for (op, opneg) in [(BinOp::In, false), (BinOp::In, true), (BinOp::Eq, false)] {
            let c = Clause::Binary { not: false, some: false, q: vec![key("x")], op, opneg, rhs: Arg::Lit(r.clone()), msg: None };
            let t = print_file(&file1(rule("r", vec![vec![c]])));
            let d = V::Map(vec![("x".into(), v.clone())]).json();
            let o = lib_run(&t, &d);
            acc.traces += 1;
            // native oracle
            let within = match (v, r) {
                (V::Int(x), V::Range(lo, hi, il, ih)) => match (&**lo, &**hi) {
                    (V::Int(a), V::Int(b)) => Some((if *il { a <= x } else { a < x }) && (if *ih { x <= b } else { x < b })),
                    _ => None,
                },
                (V::Float(x), V::Range(lo, hi, il, ih)) => match (&**lo, &**hi) {
                    (V::Float(a), V::Float(b)) => Some((if *il { a <= x } else { a < x }) && (if *ih { x <= b } else { x < b })),
                    _ => None,
                },
                _ => None,
            };
            let want = match (within, v) {
                (Some(b), _) => Some(if b != opneg { St::Pass } else { St::Fail }),
                // values of another type are never inside (and never satisfy the negated form either: not comparable)
                (None, V::List(_)) => None, // list operands: K6 [pin], covered by C01
                (None, _) => Some(St::Fail),
            };
            *acc.outcomes.entry(format!("range-{}", o.class())).or_insert(0) += 1;
            if let Some(wst) = want {
                let got = match &o {
                    Obs::Ok(s, _) => Some(*s),
                    _ => None,
                };
                if got != Some(wst) {
                    acc.violate("range-membership", format!("x={} `{}`: expected {} observed {}", v.json(), t.trim(), wst.txt(), o.short()), json!({"kind":"lib","rules":t,"data":d,"expected":format!("file={} r={}", wst.txt(), wst.txt()),"observed":o.short()}));
                }
            }
        }
    }, Acc::merge);
    rep.states += rcases.len() as u64 * 3;
    rep.transitions += rcases.len() as u64 * 3;
    acc = Acc::merge(acc, rr.acc);

    // ---- membership in list literals: X in [v1..vn] iff X equals some vi (scalar X)
    // (maps are members by key set and values, whatever the key order on either side)
    let sc: Vec<V> = u.iter().filter(|v| (scalar(v) || matches!(v, V::Map(_))) && v.guard_expressible() && !matches!(v, V::Int(i64::MIN))).cloned().collect();
    let mut lists: Vec<Vec<V>> = vec![];
    let pick: Vec<V> = vec![i(1), i(0), f(1.0), s("a"), s("1"), V::Bool(true), V::Null, f(0.5), m(vec![("b", i(2)), ("a", i(1))]), m(vec![("a", i(1))]), V::Regex("^a".into()), V::Regex("b$".into())];
    for a in &pick {
        lists.push(vec![a.clone()]);
        for b in &pick {
            lists.push(vec![a.clone(), b.clone()]);
            if thorough {
                for c in &pick {
                    lists.push(vec![a.clone(), b.clone(), c.clone()]);
                }
            }
        }
    }
    let mcases: Vec<(V, Vec<V>)> = sc.iter().flat_map(|x| lists.iter().map(move |ls| (x.clone(), ls.clone()))).collect();
    let mr = crate::par::run(mcases.len(), 0, None, Acc::new, |k, acc| {
        let (x, ls) = &mcases[k];
        for opneg in [false, true] {
            let c = Clause::Binary { not: false, some: false, q: vec![key("x")], op: BinOp::In, opneg, rhs: Arg::Lit(V::List(ls.clone())), msg: None };
            let t = print_file(&file1(rule("r", vec![vec![c]])));
            let d = V::Map(vec![("x".into(), x.clone())]).json();
            let o = lib_run(&t, &d);
            acc.traces += 1;
            // a regular expression member matches strings (ranges inside list literals are not documented and not generated)
            let is_member = ls.iter().any(|e| match (e, x) {
                (V::Regex(p), V::Str(sx)) => crate::mre::search(p, sx) == Some(true),
                (V::Regex(_), _) => false,
                _ => e.t() == x.t() && struct_eq(e, x),
            });
            let want = if is_member != opneg { St::Pass } else { St::Fail };
            *acc.outcomes.entry(format!("member-{}", o.class())).or_insert(0) += 1;
            if !matches!(&o, Obs::Ok(s, _) if *s == want) {
                acc.violate("list-membership", format!("x={} `{}`: expected {} observed {}", x.json(), t.trim(), want.txt(), o.short()), json!({"kind":"lib","rules":t,"data":d,"expected":format!("file={} r={}", want.txt(), want.txt()),"observed":o.short()}));
            }
        }
    }, Acc::merge);
    rep.states += mcases.len() as u64 * 2;
    rep.transitions += mcases.len() as u64 * 2;
    acc = Acc::merge(acc, mr.acc);

    // ---- membership of a list value in a list of lists: the value is compared as a whole, `X in [l1..ln]` iff X equals some li;
    // `not in` and a prefix `not` hold exactly when `in` does not
    let lpool: Vec<V> = vec![V::List(vec![]), V::List(vec![i(1)]), V::List(vec![i(1), i(2)]), V::List(vec![i(2), i(1)]), V::List(vec![i(5), i(6)]), V::List(vec![s("a")]), V::List(vec![f(1.0)]), V::List(vec![V::List(vec![i(1), i(2)])]), V::List(vec![i(1), V::List(vec![i(2)])]), V::List(vec![i(1), i(2), i(3)])];
    let mut lls: Vec<Vec<V>> = vec![];
    for a in &lpool {
        lls.push(vec![a.clone()]);
        for b in &lpool {
            lls.push(vec![a.clone(), b.clone()]);
            if thorough {
                for c in &lpool {
                    lls.push(vec![a.clone(), b.clone(), c.clone()]);
                }
            }
        }
    }
    let lcases: Vec<(V, Vec<V>)> = lpool.iter().flat_map(|x| lls.iter().map(move |ls| (x.clone(), ls.clone()))).collect();
    let lr = crate::par::run(lcases.len(), 0, None, Acc::new, |k, acc| {
        let (x, ls) = &lcases[k];
        for (not, opneg) in [(false, false), (false, true), (true, false), (true, true)] {
            let c = Clause::Binary { not, some: false, q: vec![key("x")], op: BinOp::In, opneg, rhs: Arg::Lit(V::List(ls.clone())), msg: None };
            let t = print_file(&file1(rule("r", vec![vec![c]])));
            let d = V::Map(vec![("x".into(), x.clone())]).json();
            let o = lib_run(&t, &d);
            acc.traces += 1;
            let is_member = ls.iter().any(|e| struct_eq(e, x));
            let want = if is_member != (opneg != not) { St::Pass } else { St::Fail };
            *acc.outcomes.entry(format!("list-member-{}", o.class())).or_insert(0) += 1;
            if !matches!(&o, Obs::Ok(s, _) if *s == want) {
                acc.violate("list-in-list-of-lists", format!("x={} `{}`: expected {} observed {}", x.json(), t.trim(), want.txt(), o.short()), json!({"kind":"lib","rules":t,"data":d,"expected":format!("file={} r={}", want.txt(), want.txt()),"observed":o.short()}));
            }
        }
    }, Acc::merge);
    rep.states += lcases.len() as u64 * 4;
    rep.transitions += lcases.len() as u64 * 4;
    acc = Acc::merge(acc, lr.acc);

    // ---- regex table
    let pats = ["a", "^a", "a$", "^a$", "a.c", "a*", "ab+", "(ab)+c", "[a-c]+", "[^a]", "\\d+", "a|b", "(?i)AB", "^$", "ab{2}c", "b{2}", "a{1,2}b", "x{0}a", "\\d{3}", "(ab){2}", "b{2,}", "ab{2}", "a{2}$"];
    let strs = ["", "a", "ab", "abc", "ba", "aXc", "ababc", "AB", "xaby", "123", "a1", "é", "abab", "c", "B", "a\nc", "abbc", "xabbcx", "ab{2}c", "abbbc", "aab", "b{2}", "a{2}"];
    let mut rx = 0u64;
    for p in pats {
        for sv in strs {
            let c = Clause::Binary { not: false, some: false, q: vec![key("x")], op: BinOp::Eq, opneg: false, rhs: Arg::Lit(V::Regex(p.into())), msg: None };
            let t = print_file(&file1(rule("r", vec![vec![c]])));
            let d = V::Map(vec![("x".into(), s(sv))]).json();
            let o = lib_run(&t, &d);
            acc.traces += 1;
            rx += 1;
            let want = match crate::mre::search(p, sv) {
                Some(true) => St::Pass,
                Some(false) => St::Fail,
                None => continue,
            };
            *acc.outcomes.entry(format!("regex-{}", o.class())).or_insert(0) += 1;
            if !matches!(&o, Obs::Ok(st, _) if *st == want) {
                acc.violate("regex-match", format!("\"{}\" == /{}/ expected {} observed {}", sv, p, want.txt(), o.short()), json!({"kind":"lib","rules":t,"data":d,"expected":format!("file={} r={}", want.txt(), want.txt()),"observed":o.short()}));
            }
        }
    }
    rep.states += rx;
    rep.transitions += rx;

    // ---- string equality and membership on map keys (`m[ keys <op> .. ]`): keys that are prefixes, suffixes, infixes and
    //      case variants of one another; the number of selected entries is read with count()
    let knames = ["env", "environment", "nv", "Env", "e", "en", "vironment", "x"];
    let mut kx = 0u64;
    // every subset of three distinct keys out of the eight (56), every literal of the eight
    for a in 0..knames.len() {
        for b in (a + 1)..knames.len() {
            for c2 in (b + 1)..knames.len() {
                let keys = [knames[a], knames[b], knames[c2]];
                let d = format!("{{\"m\":{{{}}}}}", keys.iter().enumerate().map(|(k, n)| format!("\"{}\":{}", n, k)).collect::<Vec<_>>().join(","));
                for lit in knames {
                    let eq = keys.iter().filter(|k| **k == lit).count();
                    let forms: Vec<(String, usize)> = vec![
                        (format!("keys == \"{}\"", lit), eq),
                        (format!("keys != \"{}\"", lit), 3 - eq),
                        (format!("keys in [\"{}\"]", lit), eq),
                        (format!("keys not in [\"{}\"]", lit), 3 - eq),
                        (format!("keys in [\"{}\", \"zz\"]", lit), eq),
                        (format!("keys == /^{}$/", lit), eq),
                    ];
                    for (f, want_n) in forms {
                        let t = format!("rule r {{\n  let n = count(m[ {} ])\n  %n == {}\n}}\n", f, want_n);
                        let o = lib_run(&t, &d);
                        acc.traces += 1;
                        kx += 1;
                        *acc.outcomes.entry(format!("keys-{}", o.class())).or_insert(0) += 1;
                        if !matches!(&o, Obs::Ok(st, _) if *st == St::Pass) {
                            acc.violate("key-filter-string-equality", format!("keys {:?}, filter `{}`: expected {} selected entries, observed {}", keys, f, want_n, o.short()), json!({"kind":"lib","rules":t,"data":d,"expected":"file=PASS r=PASS","observed":o.short()}));
                        }
                    }
                }
            }
        }
    }
    rep.states += kx;
    rep.transitions += kx;

    rep.distinct_nontrivial = (u.len() * u.len()) as u64;
    rep.samples.push(json!({"pair": [u[1].json(), u[14].json()], "forms": ["x == \"a\" (literal)", "x == y (query)"], "doc": "{\"x\":1,\"y\":\"a\"}"}));
    rep.samples.push(json!({"range": "x in r(0,2]", "values": "all universe values"}));
    rep.extra.insert("universe_size".into(), json!(u.len()));
    rep.extra.insert("ordered_pairs".into(), json!(u.len() * u.len()));
    rep.rule = "states = (ordered value pair, rhs form) with all six operators x prefix-not evaluated per state, plus range, list-membership and regex tables; laws (trichotomy, derived <=/>=, reflexivity, symmetry, map key-order insensitivity, different/unordered types satisfy nothing) checked on the implementation's own results and against the native comparison kernel".into();
    rep.assumptions = vec!["list operands follow the pinned one-level flattening (K6) and are checked against the kernel, not against the scalar laws".into()];
    acc.into_report(&mut rep);
    rep.finish()
}
