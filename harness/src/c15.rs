//! C15 — variables and parameterised rules are transparent abstractions (DESIGN 5/C15).
//! Differential, implementation against itself: for every program and every occurrence of a
//! literal or query in it, abstract the occurrence into `let v = ...` at each legal scope (file,
//! rule, enclosing block) and refer to it as %v; add second references before/after (memo history),
//! unused variables, shadowing definitions; and the inverse for parameterised rules.
use crate::ast::*;
use crate::c01::Acc;
use crate::evidence::Report;
use crate::impl_::{lib_run, Obs, St};
use crate::p2::*;
use crate::universe::*;
use crate::val::*;
use serde_json::json;

#[derive(Clone, Debug)]
enum ScopeRef {
    File,
    Rule(usize),
    /// the Block / When clause at cnf path + (line, alt)
    Clause(Vec<usize>, usize, usize),
}

#[derive(Clone, Debug)]
struct Site {
    path: Vec<usize>, // cnf path (c04 addressing)
    li: usize,
    ai: usize,
    /// true when the clause's context is not the document root (inside a query block / type block)
    in_value_ctx: bool,
    /// scopes from outermost to innermost; the flag says whether that scope's context equals the clause's context
    scopes: Vec<(ScopeRef, bool)>,
    in_cond: bool,
}

fn cnf_at<'a>(f: &'a mut File, path: &[usize]) -> &'a mut Cnf {
    let r = &mut f.rules[path[0]];
    let mut cur: &mut Cnf = if path[1] == 0 { r.when.as_mut().unwrap() } else { &mut r.body };
    let mut k = 2;
    while k < path.len() {
        let (li, ai, which) = (path[k], path[k + 1], path[k + 2]);
        let cl = &mut cur[li][ai];
        cur = match cl {
            Clause::Block { body, .. } => body,
            Clause::When { cond, body, .. } => {
                if which == 0 {
                    cond
                } else {
                    body
                }
            }
            Clause::TypeBlock { body, .. } => body,
            _ => unreachable!(),
        };
        k += 3;
    }
    cur
}

fn collect(c: &Cnf, path: &mut Vec<usize>, scopes: &mut Vec<(ScopeRef, bool)>, in_value: bool, in_cond: bool, out: &mut Vec<Site>) {
    for (li, line) in c.iter().enumerate() {
        for (ai, alt) in line.iter().enumerate() {
            match alt {
                Clause::Unary { .. } | Clause::Binary { .. } => {
                    out.push(Site { path: path.clone(), li, ai, in_value_ctx: in_value, scopes: scopes.clone(), in_cond });
                }
                Clause::Block { body, .. } => {
                    // entering a query block changes the context: outer scopes no longer share it
                    let mut sc: Vec<(ScopeRef, bool)> = scopes.iter().map(|(s, _)| (s.clone(), false)).collect();
                    sc.push((ScopeRef::Clause(path.clone(), li, ai), true));
                    path.extend([li, ai, 1]);
                    collect(body, path, &mut sc, true, false, out);
                    path.truncate(path.len() - 3);
                }
                Clause::When { cond, body, .. } => {
                    path.extend([li, ai, 0]);
                    collect(cond, path, scopes, in_value, true, out);
                    path.truncate(path.len() - 3);
                    let mut sc = scopes.clone();
                    sc.push((ScopeRef::Clause(path.clone(), li, ai), true));
                    path.extend([li, ai, 1]);
                    collect(body, path, &mut sc, in_value, false, out);
                    path.truncate(path.len() - 3);
                }
                _ => {}
            }
        }
    }
}

fn sites(f: &File) -> Vec<Site> {
    let mut out = vec![];
    for (ri, r) in f.rules.iter().enumerate() {
        if r.params.is_some() {
            continue;
        }
        if let Some(w) = &r.when {
            // rule-level `when` conditions see file-level variables only
            collect(w, &mut vec![ri, 0], &mut vec![(ScopeRef::File, true)], false, true, &mut out);
        }
        collect(&r.body, &mut vec![ri, 1], &mut vec![(ScopeRef::File, true), (ScopeRef::Rule(ri), true)], false, false, &mut out);
    }
    out
}

fn add_let(f: &mut File, sc: &ScopeRef, l: Let, front: bool) {
    let lets: &mut Vec<Let> = match sc {
        ScopeRef::File => &mut f.lets,
        ScopeRef::Rule(ri) => &mut f.rules[*ri].lets,
        ScopeRef::Clause(path, li, ai) => match &mut cnf_at(f, path)[*li][*ai] {
            Clause::Block { lets, .. } | Clause::When { lets, .. } => lets,
            _ => unreachable!(),
        },
    };
    if front {
        lets.insert(0, l);
    } else {
        lets.push(l);
    }
}

fn scope_tag(s: &ScopeRef) -> &'static str {
    match s {
        ScopeRef::File => "file",
        ScopeRef::Rule(_) => "rule",
        ScopeRef::Clause(..) => "block",
    }
}

/// (label, transformed file)
fn transforms(f: &File) -> Vec<(String, File)> {
    let mut out = vec![];
    let fresh = "zq";
    for s in sites(f) {
        let mut probe = f.clone();
        let cl = cnf_at(&mut probe, &s.path)[s.li][s.ai].clone();
        for (sc, same_ctx) in &s.scopes {
            let tag = scope_tag(sc);
            // ---- literal right-hand side -> variable (legal at every enclosing scope)
            if let Clause::Binary { rhs: Arg::Lit(lit), .. } = &cl {
                let mut g = f.clone();
                if let Clause::Binary { rhs, .. } = &mut cnf_at(&mut g, &s.path)[s.li][s.ai] {
                    *rhs = Arg::Q(false, vec![Part::Var(fresh.into())]);
                }
                add_let(&mut g, sc, Let { name: fresh.into(), val: Arg::Lit(lit.clone()) }, false);
                out.push((format!("literal-rhs@{}", tag), g.clone()));
                // memo history: another rule refers to the variable first / afterwards (file scope only)
                if matches!(sc, ScopeRef::File) {
                    for first in [true, false] {
                        let mut h = g.clone();
                        let extra = rule("zz", vec![vec![un(vec![Part::Var(fresh.into())], UnOp::Exists, false)]]);
                        if first {
                            h.rules.insert(0, extra);
                        } else {
                            h.rules.push(extra);
                        }
                        out.push((format!("literal-rhs@file+second-reference-{}", if first { "before" } else { "after" }), h));
                    }
                }
            }
            // ---- a key of the left-hand query -> interpolated string variable `a.%v` (legal at every enclosing scope)
            if let Clause::Unary { q, .. } | Clause::Binary { q, .. } = &cl {
                if !matches!(q.first(), Some(Part::Var(_))) {
                    for j in 1..q.len() {
                        if let Part::Key(kname) = &q[j] {
                            let mut g = f.clone();
                            match &mut cnf_at(&mut g, &s.path)[s.li][s.ai] {
                                Clause::Unary { q, .. } | Clause::Binary { q, .. } => q[j] = Part::Var(fresh.into()),
                                _ => {}
                            }
                            add_let(&mut g, sc, Let { name: fresh.into(), val: Arg::Lit(s_(kname)) }, false);
                            out.push((format!("key-interpolation{}@{}", if j + 1 == q.len() { "-last" } else { "" }, tag), g));
                        }
                    }
                }
            }
            // ---- whole left-hand query -> variable: legal where the scope's context is the clause's context
            let (q, is_empty_op) = match &cl {
                Clause::Unary { q, op, .. } => (q.clone(), *op == UnOp::Empty),
                Clause::Binary { q, .. } => (q.clone(), false),
                _ => continue,
            };
            if !*same_ctx || matches!(q.first(), Some(Part::Var(_)) | Some(Part::This)) {
                continue;
            }
            // prefixes of the query: `let v = <first k parts>` and `%v<rest>`
            for k in 1..=q.len() {
                let (pre, rest) = (q[..k].to_vec(), q[k..].to_vec());
                if k == q.len() && is_empty_op {
                    continue; // documented exception: emptiness on a bare variable tests the result set
                }
                if matches!(pre.last(), Some(Part::Filter(_))) && rest.is_empty() && is_empty_op {
                    continue;
                }
                let mut nq = vec![Part::Var(fresh.into())];
                nq.extend(rest.clone());
                let mut g = f.clone();
                match &mut cnf_at(&mut g, &s.path)[s.li][s.ai] {
                    Clause::Unary { q, .. } | Clause::Binary { q, .. } => *q = nq,
                    _ => {}
                }
                add_let(&mut g, sc, Let { name: fresh.into(), val: Arg::Q(false, pre.clone()) }, false);
                let sub = match rest.first() {
                    Some(Part::All) => "-then-all-indices",
                    Some(Part::Filter(_)) => "-then-filter",
                    Some(Part::Star) => "-then-star",
                    Some(Part::Idx(_)) => "-then-index",
                    Some(Part::Key(_)) => "-then-key",
                    _ => "",
                };
                let whole = if rest.is_empty() { "whole" } else { "prefix" };
                out.push((format!("query-{}{}@{}", whole, sub, tag), g.clone()));
                if matches!(sc, ScopeRef::File) && rest.is_empty() {
                    for first in [true, false] {
                        let mut h = g.clone();
                        let extra = rule("zz", vec![vec![un(vec![Part::Var(fresh.into())], UnOp::Exists, false), un(vec![Part::Var(fresh.into())], UnOp::Exists, true)]]);
                        if first {
                            h.rules.insert(0, extra);
                        } else {
                            h.rules.push(extra);
                        }
                        out.push((format!("query-whole@file+second-reference-{}", if first { "before" } else { "after" }), h));
                    }
                    // shadowing: an outer definition with another meaning, the inner one must win
                    if f.rules.len() == 1 && s.path[1] == 1 && s.path.len() == 2 {
                        let mut h = f.clone();
                        match &mut cnf_at(&mut h, &s.path)[s.li][s.ai] {
                            Clause::Unary { q, .. } | Clause::Binary { q, .. } => *q = vec![Part::Var(fresh.into())],
                            _ => {}
                        }
                        add_let(&mut h, &ScopeRef::Rule(s.path[0]), Let { name: fresh.into(), val: Arg::Q(false, pre.clone()) }, false);
                        add_let(&mut h, &ScopeRef::File, Let { name: fresh.into(), val: Arg::Lit(s_("other")) }, false);
                        out.push(("shadowing-inner-wins".into(), h));
                    }
                }
            }
        }
        // ---- parameterised rule: clause  <->  f(arg) with rule f(p) { clause[%p] }
        if !s.in_cond || true {
            if let Clause::Binary { not: false, q, op, opneg, rhs: Arg::Lit(lit), some, .. } = &cl {
                // literal argument
                let body = Clause::Binary { not: false, some: *some, q: q.clone(), op: *op, opneg: *opneg, rhs: Arg::Q(false, vec![Part::Var("p".into())]), msg: None };
                let mut g = f.clone();
                cnf_at(&mut g, &s.path)[s.li][s.ai] = Clause::Call { not: false, name: "pf".into(), args: vec![Arg::Lit(lit.clone())], msg: None };
                g.rules.push(Rule { name: "pf".into(), params: Some(vec!["p".into()]), when: None, lets: vec![], body: vec![vec![body]] });
                out.push(("param-rule-literal-arg".into(), g));
            }
            // two parameters, called with call-site variables that carry the parameters' names the other way round: the
            // arguments are evaluated at the call site, before any parameter is bound
            if let Clause::Binary { not: false, q, op, opneg, rhs, some, .. } = &cl {
                let rhs_ok = match rhs {
                    Arg::Lit(_) => true,
                    Arg::Q(_, rq) => !matches!(rq.first(), Some(Part::Var(_)) | Some(Part::This)),
                    _ => false,
                };
                if rhs_ok && !matches!(q.first(), Some(Part::Var(_)) | Some(Part::This)) && s.path.len() == 2 && s.path[1] == 1 {
                    // only for clauses directly in a rule body (the call-site variables are defined at rule level)
                    let body = Clause::Binary { not: false, some: *some, q: vec![Part::Var("xa".into())], op: *op, opneg: *opneg, rhs: Arg::Q(false, vec![Part::Var("xb".into())]), msg: None };
                    let mut g = f.clone();
                    cnf_at(&mut g, &s.path)[s.li][s.ai] = Clause::Call { not: false, name: "pf2".into(), args: vec![Arg::Q(false, vec![Part::Var("xb".into())]), Arg::Q(false, vec![Part::Var("xa".into())])], msg: None };
                    // call site: xb holds the left-hand query, xa the right-hand side; parameters (xa, xb) receive (%xb, %xa)
                    add_let(&mut g, &ScopeRef::Rule(s.path[0]), Let { name: "xb".into(), val: Arg::Q(false, q.clone()) }, false);
                    add_let(&mut g, &ScopeRef::Rule(s.path[0]), Let { name: "xa".into(), val: rhs.clone() }, false);
                    g.rules.push(Rule { name: "pf2".into(), params: Some(vec!["xa".into(), "xb".into()]), when: None, lets: vec![], body: vec![vec![body]] });
                    out.push(("param-rule-two-args-swapped-names".into(), g));
                }
            }
            match &cl {
                Clause::Unary { not: false, q, .. } | Clause::Binary { not: false, q, .. } if !matches!(q.first(), Some(Part::Var(_)) | Some(Part::This)) => {
                    let is_empty = matches!(&cl, Clause::Unary { op: UnOp::Empty, .. });
                    if !is_empty {
                        let mut body = cl.clone();
                        match &mut body {
                            Clause::Unary { q, .. } | Clause::Binary { q, .. } => *q = vec![Part::Var("p".into())],
                            _ => {}
                        }
                        let mut g = f.clone();
                        cnf_at(&mut g, &s.path)[s.li][s.ai] = Clause::Call { not: false, name: "pq".into(), args: vec![Arg::Q(false, q.clone())], msg: None };
                        g.rules.push(Rule { name: "pq".into(), params: Some(vec!["p".into()]), when: None, lets: vec![], body: vec![vec![body]] });
                        out.push(("param-rule-query-arg".into(), g));
                    }
                }
                _ => {}
            }
        }
    }
    // ---- unused variables at every scope never influence a verdict
    let mut scs: Vec<ScopeRef> = vec![ScopeRef::File];
    for ri in 0..f.rules.len() {
        if f.rules[ri].params.is_none() {
            scs.push(ScopeRef::Rule(ri));
        }
    }
    for s in sites(f) {
        for (sc, _) in &s.scopes {
            if let ScopeRef::Clause(..) = sc {
                scs.push(sc.clone());
            }
        }
    }
    let mut seen = std::collections::HashSet::new();
    for sc in scs {
        if !seen.insert(format!("{:?}", sc)) {
            continue;
        }
        // (the last four raise an evaluation error if they are ever evaluated: a variable nobody reads must not be)
        for val in [
            Arg::Lit(i(7)),
            Arg::Q(false, vec![key("a"), key("b")]),
            Arg::Q(false, vec![key("nosuch"), Part::All, key("x")]),
            Arg::Call("count".into(), vec![Arg::Q(false, vec![key("a")])]),
            Arg::Call("parse_int".into(), vec![Arg::Lit(s_("not a number"))]),
            Arg::Call("parse_int".into(), vec![Arg::Q(false, vec![key("a")])]),
            Arg::Q(false, vec![Part::Var("nosuchvariable".into())]),
            Arg::Call("regex_replace".into(), vec![Arg::Lit(s_("x")), Arg::Lit(s_("(")), Arg::Lit(s_("y"))]),
        ] {
            let mut g = f.clone();
            add_let(&mut g, &sc, Let { name: "unused".into(), val }, true);
            out.push((format!("unused-variable@{}", scope_tag(&sc)), g));
        }
    }
    out
}

fn s_(x: &str) -> V {
    V::Str(x.into())
}

fn rule_statuses(o: &Obs, names: &[String]) -> Option<Vec<Option<St>>> {
    match o {
        Obs::Ok(_, rs) => Some(names.iter().map(|n| rs.iter().find(|(k, _)| k == n).map(|(_, s)| *s)).collect()),
        _ => None,
    }
}

pub fn run(tier: &str) -> i32 {
    let thorough = tier == "thorough";
    let mut rep = Report::new("C15", tier);
    let g = Gen::standard(thorough);
    let b = bfs(&g, 3, if thorough { 200_000 } else { 60_000 });
    let mut base: Vec<File> = vec![];
    base.extend(b.levels[0].iter().cloned());
    base.extend(b.levels[1].iter().cloned());
    // literal-rich pool: every literal of the alphabet on the right of ==, in, <=
    for lit in lits_full() {
        for op in [BinOp::Eq, BinOp::In, BinOp::Le] {
            for q in [vec![key("a")], vec![key("a"), Part::All]] {
                base.push(file1(rule("r0", vec![vec![bin(q.clone(), op, false, lit.clone())]])));
                base.push(file1(rule("r0", vec![vec![bin(q.clone(), op, false, lit.clone()).with_some(true)]])));
                if op.has_neg() {
                    base.push(file1(rule("r0", vec![vec![bin(q.clone(), op, true, lit.clone())]])));
                }
            }
        }
    }
    // unary checks on keyed paths whose value may be an empty list / struct / string (key interpolation must not change them)
    for q in [vec![key("a"), key("b")], vec![key("a"), key("a")], vec![key("a"), Part::All, key("b")], vec![key("a"), Part::Star], vec![key("a"), key("b"), Part::All]] {
        for op in [UnOp::Empty, UnOp::Exists, UnOp::IsList, UnOp::IsString, UnOp::IsStruct] {
            for opneg in [false, true] {
                for some in [false, true] {
                    base.push(file1(rule("r0", vec![vec![un(q.clone(), op, opneg).with_some(some)]])));
                }
            }
        }
    }
    // keys that exist in two spellings in the data: an interpolated key must select what the key written in place selects
    // (every spelling exists exactly in the documents added below: the fallback on other spellings, which applies to written
    // keys only, never comes into play)
    for (path, lit) in [(["Cfg", "BucketName"], s_("pascal")), (["Cfg", "bucketName"], s_("camel")), (["Cfg", "bucket_name"], s_("snake")), (["Other", "SomeKey"], i(1)), (["Other", "someKey"], i(2)), (["Other", "some_key"], i(3))] {
        let q: Query = path.iter().map(|p| key(p)).collect();
        base.push(file1(rule("r0", vec![vec![bin(q.clone(), BinOp::Eq, false, lit.clone())]])));
        base.push(file1(rule("r0", vec![vec![un(q.clone(), UnOp::Exists, false)], vec![bin(q, BinOp::Eq, true, lit)]])));
    }
    // the largest BFS level last: a wall-clock cap on a loaded machine then cuts its tail and nothing else
    let l3 = &b.levels[2];
    let step = if thorough { 1 } else { (l3.len() / 1200).max(1) };
    base.extend(l3.iter().step_by(step).cloned());
    // `some` variables with partly unresolved values referenced from two rules
    let docs = docs_quick();
    let mut docs2 = docs.clone();
    docs2.extend(vec![
        m(vec![("a", l(vec![m(vec![("b", i(1))]), m(vec![])]))]),
        m(vec![("a", l(vec![i(1), i(1)]))]),
        m(vec![("a", s("prod")), ("b", i(1))]),
        m(vec![("a", l(vec![m(vec![("x", i(1))]), m(vec![("x", i(1))])]))]),
        m(vec![("a", m(vec![("b", l(vec![]))]))]),
        m(vec![("a", m(vec![("b", m(vec![])), ("a", s(""))]))]),
        m(vec![("a", m(vec![("b", s("")), ("a", l(vec![]))]))]),
        m(vec![("a", l(vec![m(vec![("b", l(vec![]))]), m(vec![("b", l(vec![i(1)]))])]))]),
    ]);
    docs2.push(m(vec![("Cfg", m(vec![("BucketName", s_("pascal")), ("bucketName", s_("camel")), ("bucket_name", s_("snake"))])), ("Other", m(vec![("SomeKey", i(1)), ("someKey", i(2)), ("some_key", i(3))]))]));
    docs2.push(m(vec![("Cfg", m(vec![("bucket_name", s_("snake")), ("bucketName", s_("camel")), ("BucketName", s_("pascal"))])), ("Other", m(vec![("some_key", i(3)), ("SomeKey", i(1)), ("someKey", i(2))]))]));
    let djs: Vec<String> = docs2.iter().map(|d| d.json()).collect();
    let nbase = base.len();
    let res = crate::par::run(nbase, rep.seed as u64, crate::par::deadline_secs(if thorough { 3000 } else { 45 }), Acc::new, |k, acc| {
        let f = &base[k];
        let names: Vec<String> = f.rules.iter().filter(|r| r.params.is_none()).map(|r| r.name.clone()).collect();
        let bt = print_file(f);
        let bos: Vec<Obs> = djs.iter().map(|dj| lib_run(&bt, dj)).collect();
        acc.traces += djs.len() as u64;
        for (label, gf) in transforms(f) {
            let gt = print_file(&gf);
            for (di, dj) in djs.iter().enumerate() {
                let go = lib_run(&gt, dj);
                acc.traces += 1;
                acc.nontrivial += 1;
                if let Obs::Panic(p) = &go {
                    acc.violate("panic", format!("panic {} rules `{}` data {}", p, gt.trim(), dj), json!({"kind":"lib","rules":gt,"data":dj,"expected":"no panic","observed":go.short()}));
                    continue;
                }
                let (a, b2) = (rule_statuses(&bos[di], &names), rule_statuses(&go, &names));
                *acc.outcomes.entry(bos[di].class().to_string()).or_insert(0) += 1;
                let same = match (&a, &b2) {
                    (Some(x), Some(y)) => x == y,
                    (None, None) => true, // both raise an evaluation error
                    _ => false,
                };
                if !same {
                    let mut kind = label.split('+').next().unwrap_or(&label).to_string();
                    if kind.starts_with("query-prefix-then-filter") || kind.starts_with("query-prefix-then-all-indices") {
                        // known finding K-VAR: `[*]` (explicit, or implied before a filter) directly after a variable is
                        // dropped, so a list/map held by the variable is not iterated. Attributed only when the model
                        // of exactly that pinned behaviour predicts the observation.
                        let exp = crate::refsem::eval_file(&gf, &docs2[di], crate::refsem::Variant::default());
                        if crate::c01::agree(&exp, &go) {
                            kind = "K-VAR-wildcard-after-variable-dropped".to_string();
                        }
                    }
                    acc.violate(&kind, format!("{}: base {} vs abstracted {} | base `{}` abstracted `{}` data {}", label, bos[di].short(), go.short(), bt.trim(), gt.trim(), dj), json!({"kind":"lib2","rules":bt,"rules2":gt,"data":dj,"expected":"same statuses","observed":format!("{} vs {}", bos[di].short(), go.short())}));
                }
            }
        }
    }, Acc::merge);

    // `let v = some Q`: every reference sees the same (filtered) value
    let mut acc = res.acc;
    let mut extra_states = 0u64;
    for q in [vec![key("a"), Part::All, key("b")], vec![key("a"), Part::All, key("x")], vec![key("a"), Part::All]] {
        for scope_file in [true, false] {
            let l = Let { name: "sv".into(), val: Arg::Q(true, q.clone()) };
            let c1 = bin(vec![Part::Var("sv".into())], BinOp::Eq, false, i(1));
            let mut r1 = rule("r1", vec![vec![c1.clone()]]);
            let mut r2 = rule("r2", vec![vec![c1.clone()]]);
            let mut f = File { lets: vec![], rules: vec![], default: vec![] };
            if scope_file {
                f.lets.push(l.clone());
            } else {
                r1.lets.push(l.clone());
                r2.lets.push(l.clone());
            }
            f.rules = vec![r1, r2, rule("r3", vec![vec![Clause::When { cond: vec![vec![un(vec![Part::Var("sv".into())], UnOp::Empty, true)]], lets: vec![], body: vec![vec![c1.clone()]] }]])];
            if !scope_file {
                f.rules[2].lets.push(l.clone());
            }
            let t = print_file(&f);
            for dj in &djs {
                let o = lib_run(&t, dj);
                acc.traces += 1;
                extra_states += 1;
                if let Obs::Ok(_, rs) = &o {
                    let g = |n: &str| rs.iter().find(|(k, _)| k == n).map(|(_, s)| *s);
                    if g("r1") != g("r2") {
                        acc.violate("references-see-different-values", format!("r1 and r2 hold the same clause on %sv but are {:?} / {:?}; rules `{}` data {}", g("r1"), g("r2"), t.trim(), dj), json!({"kind":"lib","rules":t,"data":dj,"expected":"r1 == r2","observed":o.short()}));
                    }
                    // r3 = `when %sv !empty { same clause }` must equal r1 unless the guard skips it
                    if g("r3") != g("r1") && g("r3") != Some(St::Skip) {
                        acc.violate("references-see-different-values", format!("guarded reference differs: r1 {:?} r3 {:?}; rules `{}` data {}", g("r1"), g("r3"), t.trim(), dj), json!({"kind":"lib","rules":t,"data":dj,"expected":"r3 == r1 or SKIP","observed":o.short()}));
                    }
                }
            }
        }
    }
    // ---- an inner definition shadows an outer one from its own scope inwards, not before: the guard of the block (or rule)
    //      that holds the inner definition still sees the outer variable; renaming the inner variable changes nothing
    {
        let shapes: Vec<(&str, &str)> = vec![
            ("when-block", "let m = OUTER\nrule r0 {\n  when %m == 1 {\n    let INNER_NAME = INNER\n    BODY\n  }\n}\n"),
            ("when-block-in-block", "let m = OUTER\nrule r0 {\n  this {\n    when %m == 1 {\n      let INNER_NAME = INNER\n      BODY\n    }\n  }\n}\n"),
            ("rule-when", "let m = OUTER\nrule r0 when %m == 1 {\n  let INNER_NAME = INNER\n  BODY\n}\n"),
            ("rule-level-outer", "rule r0 {\n  let m = OUTER\n  when %m == 1 {\n    let INNER_NAME = INNER\n    BODY\n  }\n}\n"),
            ("type-block-when", "let m = OUTER\nrule r0 {\n  T when %m == 1 {\n    let INNER_NAME = INNER\n    BODY\n  }\n}\n"),
        ];
        let outers = ["a", "1", "b", "[1]"];
        let inners = ["b", "2", "a", "\"x\""];
        let bodies = ["%INNER_NAME == 1", "%INNER_NAME exists", "a exists", "%INNER_NAME == 2\n    b exists"];
        let mut docs: Vec<String> = djs.iter().step_by(3).cloned().collect();
        docs.push("{\"Resources\":{\"r\":{\"Type\":\"T\",\"a\":1,\"b\":2}},\"a\":1,\"b\":2}".to_string());
        docs.push("{\"Resources\":{\"r\":{\"Type\":\"T\",\"a\":2,\"b\":1}},\"a\":1,\"b\":1}".to_string());
        for (label, shape) in &shapes {
            for o in outers {
                for inn in inners {
                    for body in bodies {
                        let mk = |name: &str| shape.replace("BODY", body).replace("INNER_NAME", name).replace("OUTER", o).replace("INNER", inn);
                        let (ta, tb) = (mk("m"), mk("m2"));
                        for dj in &docs {
                            let (oa, ob) = (lib_run(&ta, dj), lib_run(&tb, dj));
                            acc.traces += 2;
                            extra_states += 2;
                            if oa.short() != ob.short() && !(matches!(oa, Obs::Err(_)) && matches!(ob, Obs::Err(_))) {
                                acc.violate(&format!("inner-definition-seen-by-its-own-guard:{}", label), format!("naming the inner variable like the outer one changes the verdict: {} vs {} | `{}` data {}", oa.short(), ob.short(), ta.trim(), dj), json!({"kind":"lib2","rules":ta,"rules2":tb,"data":dj,"expected":ob.short(),"observed":oa.short()}));
                            }
                        }
                    }
                }
            }
        }
    }
    rep.states = acc.traces;
    rep.transitions = acc.nontrivial + b.transitions + extra_states;
    if res.capped {
        rep.caps_hit.push(format!("wall-clock cap: {} of {} base programs", res.done, nbase));
    }
    rep.distinct_nontrivial = nbase as u64;
    rep.extra.insert("base_programs".into(), json!(nbase));
    rep.extra.insert("abstraction_edges".into(), json!(acc.nontrivial));
    let ex = &base[900.min(base.len() - 1)];
    rep.samples.push(json!({"base": print_file(ex), "abstractions": transforms(ex).iter().take(8).map(|t| json!({"label": t.0, "rules": print_file(&t.1)})).collect::<Vec<_>>()}));
    rep.rule = "states = (program, document) for base and abstracted programs; transitions = abstraction edges (literal -> let at file/rule/block scope, query or query prefix -> let at every scope sharing the clause's context, second reference before/after, unused variable, shadowing, parameterised-rule call for literal and query arguments); statuses of the original rules are compared on the implementation".into();
    rep.assumptions = vec!["the documented exception (emptiness test on a bare variable / filter result tests the result set) is excluded from the comparison".into()];
    acc.into_report(&mut rep);
    rep.finish()
}
