//! `./check Cnn --replay <path>`: re-runs the state stored in a replay artefact without the explorer.
//! Exit 1 (with a VIOLATION line) when the stored violating observation reproduces, 0 when it no
//! longer does, 2 when the two re-executions disagree (nondeterministic machinery).
use crate::impl_::lib_run;
use serde_json::Value;

pub fn replay(path: &str) -> i32 {
    let t = match std::fs::read_to_string(path) {
        Ok(t) => t,
        Err(e) => {
            eprintln!("cannot read {}: {}", path, e);
            return 2;
        }
    };
    let v: Value = match serde_json::from_str(&t) {
        Ok(v) => v,
        Err(e) => {
            eprintln!("not a replay file: {}", e);
            return 2;
        }
    };
    let r = &v["replay"];
    let prop = v["property"].as_str().unwrap_or("?");
    let kind = r["kind"].as_str().unwrap_or("");
    println!("property: {}\nsignature: {}\nwhat: {}", prop, v["signature"].as_str().unwrap_or(""), v["what"].as_str().unwrap_or(""));
    let g = |k: &str| r[k].as_str().unwrap_or("").to_string();
    match kind {
        "lib" | "lib2" | "record" | "c11" => {
            let mut obs = vec![];
            for (rk, dk) in [("rules", "data"), ("rules2", "data2")] {
                if r.get(rk).is_none() {
                    continue;
                }
                let data = if r.get(dk).is_some() { g(dk) } else { g("data") };
                let (o1, o2) = (lib_run(&g(rk), &data), lib_run(&g(rk), &data));
                if o1 != o2 {
                    eprintln!("MACHINERY: replay not deterministic");
                    return 2;
                }
                println!("--- {}:\n{}\n--- data: {}\n=> {}", rk, g(rk).trim_end(), data, o1.short());
                obs.push(o1.short());
            }
            let recorded = r["observed"].as_str().map(|s| s.to_string()).unwrap_or_else(|| r["observed"].to_string());
            let now = obs.join(" vs ");
            println!("recorded observation: {}\nobservation now:      {}\nexpected:             {}", recorded, now, r["expected"]);
            let expected = r["expected"].as_str().unwrap_or("");
            // reproduces when the observation equals the recorded violating one, or (for stored expectations in
            // the same notation) still differs from the expectation
            let reproduces = recorded == now || (kind == "lib" && obs.len() == 1 && expected.starts_with("file=") && expected != obs[0]) || (kind == "lib2" && obs.len() == 2 && obs[0] != obs[1] && expected.contains("same"));
            if reproduces {
                println!("VIOLATION property={} replay={}", prop, path);
                1
            } else {
                println!("does not reproduce on the current tree");
                0
            }
        }
        "c08" => {
            let case = r["case"].clone();
            let (outs, _) = crate::c08::run_isolated(&[case.clone()], 5_000, None);
            let (outs2, _) = crate::c08::run_isolated(&[case], 5_000, None);
            let a = outs.first().map(|o| o.outcome.clone()).unwrap_or_default();
            let b = outs2.first().map(|o| o.outcome.clone()).unwrap_or_default();
            if a != b {
                eprintln!("MACHINERY: replay not deterministic ({} vs {})", a, b);
                return 2;
            }
            println!("outcome now: {} {}", a, outs.first().map(|o| o.detail.to_string()).unwrap_or_default());
            if a != "ok" {
                println!("VIOLATION property={} replay={}", prop, path);
                1
            } else {
                println!("does not reproduce on the current tree");
                0
            }
        }
        _ => {
            // command-line states: the artefact holds argv, stdin and the file contents; print a reproduction recipe
            println!("argv: {}\nstdin: {}\nfiles: {}\nexpected: {}\nrecorded observation: {}", r["argv"], r["stdin"], serde_json::to_string_pretty(&r["files"]).unwrap_or_default(), r["expected"], r["observed"]);
            println!("(command-line state: write the files above, run `cfn-guard <argv>` with the stored paths replaced, compare with `expected`; re-running `./check {} --tier quick` re-explores it)", prop);
            0
        }
    }
}
