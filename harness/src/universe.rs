//! Shared alphabets: values, documents, query parts, literals, clause pools (DESIGN section 3).
//! All generators are deterministic enumerators; no RNG anywhere.
use crate::ast::*;
use crate::val::*;

pub fn scalars() -> Vec<V> {
    vec![i(1), i(2), s("x"), s(""), V::Bool(true), V::Null, f(1.5)]
}

pub fn v1() -> Vec<V> {
    let mut v = scalars();
    v.extend(vec![l(vec![]), l(vec![i(1)]), l(vec![i(1), i(2)]), l(vec![i(2), s("x")]), l(vec![s("x")]), l(vec![i(1), i(1)])]);
    v.extend(vec![m(vec![]), m(vec![("a", i(1))]), m(vec![("a", i(1)), ("b", s("x"))]), m(vec![("b", i(2))])]);
    v
}

fn w() -> Vec<V> {
    vec![i(1), s("x"), l(vec![]), l(vec![i(1)]), m(vec![]), m(vec![("a", i(1))]), m(vec![("a", i(2))]), l(vec![i(1), i(2)])]
}

/// filter-free value universe (validated in round 0 against 1.04 M traces)
pub fn v2() -> Vec<V> {
    let mut v = v1();
    let w = w();
    for x in &w {
        v.push(l(vec![x.clone()]));
    }
    for x in &w[..5] {
        for y in &w[3..] {
            v.push(l(vec![x.clone(), y.clone()]));
        }
    }
    for x in &w {
        v.push(m(vec![("a", x.clone())]));
    }
    for x in &w[..4] {
        for y in &w[4..] {
            v.push(m(vec![("a", x.clone()), ("b", y.clone())]));
        }
    }
    v
}

/// values that make filters select / reject / skip (round-0 filter universe)
pub fn filter_vals() -> Vec<V> {
    let el: Vec<V> = vec![
        i(1),
        s("x"),
        l(vec![]),
        m(vec![]),
        m(vec![("a", i(1))]),
        m(vec![("b", i(1))]),
        m(vec![("a", i(1)), ("b", i(1))]),
        m(vec![("a", s("x")), ("b", i(2))]),
        m(vec![("b", l(vec![i(1)]))]),
        m(vec![("a", i(2)), ("b", i(1))]),
        l(vec![m(vec![("b", i(1))])]),
        m(vec![("a", m(vec![("b", i(1))]))]),
        m(vec![("b", s("s"))]),
    ];
    let mut v = el.clone();
    for x in &el {
        v.push(l(vec![x.clone()]));
    }
    for x in &el[3..9] {
        for y in &el[3..9] {
            v.push(l(vec![x.clone(), y.clone()]));
        }
    }
    for x in &el[3..] {
        v.push(m(vec![("a", x.clone())]));
    }
    for x in &el[4..8] {
        for y in &el[4..8] {
            v.push(m(vec![("a", x.clone()), ("b", y.clone())]));
        }
    }
    v
}

fn dedup(v: Vec<V>) -> Vec<V> {
    let mut out: Vec<V> = vec![];
    for x in v {
        if !out.contains(&x) {
            out.push(x);
        }
    }
    out
}

/// Documents {a: v [, b: w]}.  `bs` = alphabet for the sibling key b (None = absent).
pub fn docs_from(vals: &[V], bs: &[Option<V>]) -> Vec<V> {
    let mut out = vec![];
    for b in bs {
        let mut base: Vec<(String, V)> = vec![];
        if let Some(bv) = b {
            base.push(("b".to_string(), bv.clone()));
        }
        // a absent
        out.push(V::Map(base.clone()));
        for v in vals {
            let mut mm = vec![("a".to_string(), v.clone())];
            mm.extend(base.clone());
            out.push(V::Map(mm));
        }
    }
    out
}

pub fn docs_full() -> Vec<V> {
    let mut vals = v2();
    vals.extend(filter_vals());
    let vals = dedup(vals);
    docs_from(&vals, &[None, Some(i(1)), Some(l(vec![i(1), i(2)]))])
}

/// covering subset D_q for composite programs and quick tiers
pub fn docs_quick() -> Vec<V> {
    let vals = vec![
        i(1),
        i(2),
        s("x"),
        s(""),
        V::Bool(true),
        V::Null,
        f(1.5),
        l(vec![]),
        l(vec![i(1)]),
        l(vec![i(1), i(2)]),
        l(vec![i(2), s("x")]),
        m(vec![]),
        m(vec![("a", i(1))]),
        m(vec![("a", i(1)), ("b", s("x"))]),
        m(vec![("b", i(1))]),
        m(vec![("b", i(2))]),
        l(vec![m(vec![("a", i(1)), ("b", i(1))])]),
        l(vec![m(vec![("a", i(2)), ("b", i(1))]), m(vec![("a", i(1)), ("b", i(2))])]),
        l(vec![m(vec![("b", i(2))])]),
        l(vec![l(vec![i(1)]), l(vec![i(2)])]),
        m(vec![("a", m(vec![("b", i(1))]))]),
        m(vec![("a", l(vec![i(1)])), ("b", m(vec![("a", i(1))]))]),
    ];
    let mut d = docs_from(&vals, &[None]);
    d.extend(docs_from(&vals[..4], &[Some(i(1))]));
    d.extend(docs_from(&vals[16..19], &[Some(i(1)), Some(i(2))]));
    d
}

// ---------------- literals
pub fn lits_full() -> Vec<V> {
    vec![
        i(1),
        i(2),
        s("x"),
        l(vec![i(1), i(2)]),
        l(vec![i(1)]),
        l(vec![l(vec![i(1)]), l(vec![i(2)])]),
        l(vec![l(vec![i(1), i(2)])]),
        l(vec![]),
        rng_i(1, 2, true, true),
        rng_i(1, 2, false, false),
        V::Regex("x".into()),
        V::Bool(true),
        V::Null,
        f(1.5),
        m(vec![("a", i(1))]),
        s("xyz"),
        l(vec![i(1), s("x")]),
        rng_f(1.0, 2.0, true, false),
        l(vec![V::Regex("^x".into()), s("y"), i(1)]),
        l(vec![V::Regex("y".into()), V::Regex("x$".into())]),
    ]
}
pub fn lits_quick() -> Vec<V> {
    vec![i(1), s("x"), l(vec![i(1), i(2)]), l(vec![i(1)]), rng_i(1, 2, true, true), V::Null, l(vec![]), l(vec![V::Regex("^x".into()), s("y"), i(1)])]
}

// ---------------- queries
pub fn tails() -> Vec<Vec<Part>> {
    vec![vec![], vec![key("a")], vec![key("b")], vec![Part::Star], vec![Part::All], vec![Part::Idx(0)], vec![Part::Idx(1)]]
}

/// filter-free queries: head a, then up to `n` tail parts
pub fn queries_plain(n: usize) -> Vec<Query> {
    let t = tails();
    let mut out: Vec<Query> = vec![vec![key("a")]];
    let mut frontier = out.clone();
    for _ in 0..n {
        let mut next = vec![];
        for q in &frontier {
            for tl in &t[1..] {
                let mut qq = q.clone();
                qq.extend(tl.clone());
                next.push(qq);
            }
        }
        out.extend(next.clone());
        frontier = next;
    }
    out
}

pub fn filter_bodies() -> Vec<Cnf> {
    let a = || vec![key("a")];
    let b = || vec![key("b")];
    vec![
        vec![vec![bin(b(), BinOp::Eq, false, i(1))]],
        vec![vec![un(a(), UnOp::Exists, false)]],
        vec![vec![bin(b(), BinOp::Eq, false, i(1)), bin(a(), BinOp::Eq, false, s("x"))]],
        vec![vec![bin(b(), BinOp::Eq, false, i(1))], vec![un(a(), UnOp::Exists, false)]],
        vec![vec![un(b(), UnOp::Empty, false)]],
        vec![vec![bin(
            vec![key("b"), Part::Filter(vec![vec![bin(a(), BinOp::Ge, false, i(1))]])],
            BinOp::Eq,
            false,
            i(1),
        )]],
    ]
}

/// filter queries: a + pre + [F] + post
pub fn queries_filter(bodies: &[Cnf]) -> Vec<Query> {
    let pre: Vec<Vec<Part>> = vec![vec![], vec![Part::Star], vec![Part::All], vec![key("a")]];
    let post: Vec<Vec<Part>> = vec![vec![], vec![key("a")], vec![key("b")], vec![Part::All], vec![Part::Star], vec![Part::Idx(0)]];
    let mut out = vec![];
    for p in &pre {
        for fb in bodies {
            for po in &post {
                let mut q = vec![key("a")];
                q.extend(p.clone());
                q.push(Part::Filter(fb.clone()));
                q.extend(po.clone());
                out.push(q);
            }
        }
    }
    out
}

/// All single clauses over a query: unary ops x polarity, binary ops x polarity x literals,
/// x {all, some} x prefix {none, not}
pub fn clauses_for(q: &Query, lits: &[V], unops: &[UnOp], binops: &[BinOp], with_not: bool) -> Vec<Clause> {
    let mut out = vec![];
    let nots: &[bool] = if with_not { &[false, true] } else { &[false] };
    for &not in nots {
        for some in [false, true] {
            for &op in unops {
                for opneg in [false, true] {
                    out.push(Clause::Unary { not, some, q: q.clone(), op, opneg, msg: None });
                }
            }
            for &op in binops {
                for opneg in [false, true] {
                    if opneg && !op.has_neg() {
                        continue;
                    }
                    for lt in lits {
                        out.push(Clause::Binary { not, some, q: q.clone(), op, opneg, rhs: Arg::Lit(lt.clone()), msg: None });
                    }
                }
            }
        }
    }
    out
}

/// leaf pool for composite programs (each of PASS/FAIL/SKIP/ERROR occurs on some doc of D_q)
pub fn leaf_pool() -> Vec<Clause> {
    let a = || vec![key("a")];
    let fb = |c: Clause| Part::Filter(vec![vec![c]]);
    vec![
        bin(a(), BinOp::Eq, false, i(1)),
        un(a(), UnOp::Exists, false),
        un(vec![key("b")], UnOp::Exists, true),
        bin(vec![key("a"), Part::All], BinOp::Eq, false, i(1)),
        bin(vec![key("a"), Part::All], BinOp::Eq, false, i(1)).with_some(true),
        un(vec![key("a"), fb(bin(vec![key("b")], BinOp::Eq, false, i(1)))], UnOp::Empty, true),
        bin(vec![key("a"), fb(bin(vec![key("b")], BinOp::Eq, false, i(1))), key("a")], BinOp::Eq, false, i(1)),
        un(a(), UnOp::Empty, false),
        bin(vec![key("a"), key("b")], BinOp::Eq, false, s("x")),
        un(a(), UnOp::IsList, false),
        bin(a(), BinOp::In, false, l(vec![i(1), i(2)])),
        bin(a(), BinOp::Eq, true, i(1)),
    ]
}
