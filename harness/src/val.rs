//! Harness-side value type: documents and Guard literals. Independent of the crate under test.
use std::fmt::Write;

#[derive(Clone, Debug, PartialEq)]
pub enum V {
    Null,
    Bool(bool),
    Int(i64),
    Float(f64),
    Str(String),
    List(Vec<V>),
    Map(Vec<(String, V)>),
    // literal-only
    Regex(String),
    /// lo, hi, inclusive-lo, inclusive-hi (both ints, or both floats)
    Range(Box<V>, Box<V>, bool, bool),
}

pub fn s(x: &str) -> V {
    V::Str(x.to_string())
}
pub fn i(x: i64) -> V {
    V::Int(x)
}
pub fn f(x: f64) -> V {
    V::Float(x)
}
pub fn l(x: Vec<V>) -> V {
    V::List(x)
}
pub fn m(x: Vec<(&str, V)>) -> V {
    V::Map(x.into_iter().map(|(k, v)| (k.to_string(), v)).collect())
}
pub fn rng_i(lo: i64, hi: i64, il: bool, ih: bool) -> V {
    V::Range(Box::new(V::Int(lo)), Box::new(V::Int(hi)), il, ih)
}
pub fn rng_f(lo: f64, hi: f64, il: bool, ih: bool) -> V {
    V::Range(Box::new(V::Float(lo)), Box::new(V::Float(hi)), il, ih)
}

#[derive(Clone, Copy, Debug, PartialEq, Eq, Hash)]
pub enum T {
    Null,
    Bool,
    Int,
    Float,
    Str,
    List,
    Map,
    Regex,
    Range,
}

impl V {
    pub fn t(&self) -> T {
        match self {
            V::Null => T::Null,
            V::Bool(_) => T::Bool,
            V::Int(_) => T::Int,
            V::Float(_) => T::Float,
            V::Str(_) => T::Str,
            V::List(_) => T::List,
            V::Map(_) => T::Map,
            V::Regex(_) => T::Regex,
            V::Range(..) => T::Range,
        }
    }
    pub fn get(&self, k: &str) -> Option<&V> {
        match self {
            V::Map(m) => m.iter().find(|(kk, _)| kk == k).map(|(_, v)| v),
            _ => None,
        }
    }
    pub fn is_doc_value(&self) -> bool {
        match self {
            V::Regex(_) | V::Range(..) => false,
            V::List(l) => l.iter().all(|x| x.is_doc_value()),
            V::Map(m) => m.iter().all(|(_, x)| x.is_doc_value()),
            _ => true,
        }
    }

    /// JSON text (documents only).
    pub fn json(&self) -> String {
        let mut o = String::new();
        self.json_into(&mut o);
        o
    }
    fn json_into(&self, o: &mut String) {
        match self {
            V::Null => o.push_str("null"),
            V::Bool(b) => o.push_str(if *b { "true" } else { "false" }),
            V::Int(n) => write!(o, "{}", n).unwrap(),
            V::Float(x) => o.push_str(&float_txt(*x)),
            V::Str(s) => json_str(s, o),
            V::List(l) => {
                o.push('[');
                for (i, x) in l.iter().enumerate() {
                    if i > 0 {
                        o.push(',');
                    }
                    x.json_into(o);
                }
                o.push(']');
            }
            V::Map(m) => {
                o.push('{');
                for (i, (k, x)) in m.iter().enumerate() {
                    if i > 0 {
                        o.push(',');
                    }
                    json_str(k, o);
                    o.push(':');
                    x.json_into(o);
                }
                o.push('}');
            }
            V::Regex(_) | V::Range(..) => panic!("not a document value"),
        }
    }

    /// Guard literal text. `quote` is the string delimiter to use.
    pub fn guard(&self) -> String {
        self.guard_q('"')
    }
    pub fn guard_q(&self, quote: char) -> String {
        let mut o = String::new();
        self.guard_into(&mut o, quote);
        o
    }
    fn guard_into(&self, o: &mut String, q: char) {
        match self {
            V::Null => o.push_str("null"),
            V::Bool(b) => o.push_str(if *b { "true" } else { "false" }),
            V::Int(n) => write!(o, "{}", n).unwrap(),
            V::Float(x) => {
                // Guard's float grammar wants a sign after the exponent marker
                let t = float_txt(*x);
                if t.contains('e') && !t.contains("e-") {
                    o.push_str(&t.replace('e', "e+"));
                } else {
                    o.push_str(&t);
                }
            }
            V::Str(s) => {
                o.push(q);
                for c in s.chars() {
                    if c == q {
                        o.push('\\');
                    }
                    o.push(c);
                }
                o.push(q);
            }
            V::List(l) => {
                o.push('[');
                for (i, x) in l.iter().enumerate() {
                    if i > 0 {
                        o.push(',');
                    }
                    x.guard_into(o, q);
                }
                o.push(']');
            }
            V::Map(m) => {
                o.push('{');
                for (i, (k, x)) in m.iter().enumerate() {
                    if i > 0 {
                        o.push(',');
                    }
                    // keys quoted so that any key text is expressible
                    o.push(q);
                    for c in k.chars() {
                        if c == q {
                            o.push('\\');
                        }
                        o.push(c);
                    }
                    o.push(q);
                    o.push(':');
                    x.guard_into(o, q);
                }
                o.push('}');
            }
            V::Regex(r) => {
                o.push('/');
                o.push_str(r);
                o.push('/');
            }
            V::Range(lo, hi, il, ih) => {
                o.push('r');
                o.push(if *il { '[' } else { '(' });
                lo.guard_into(o, q);
                o.push(',');
                hi.guard_into(o, q);
                o.push(if *ih { ']' } else { ')' });
            }
        }
    }

    /// Can Guard's literal grammar express this value (per DESIGN Appendix A printer constraints)?
    pub fn guard_expressible(&self) -> bool {
        match self {
            V::Float(x) => {
                if !x.is_finite() || *x < 0.0 || (*x == 0.0 && x.is_sign_negative()) {
                    return false;
                }
                true
            }
            V::Int(n) => *n != i64::MIN, // the literal grammar parses the digits as a positive i64 first
            V::Str(s) => !s.ends_with('\\') && !s.contains('\n'),
            V::List(l) => l.iter().all(|x| x.guard_expressible()),
            V::Map(m) => m
                .iter()
                .all(|(k, x)| !k.ends_with('\\') && x.guard_expressible()),
            V::Range(a, b, _, _) => a.guard_expressible() && b.guard_expressible(),
            _ => true,
        }
    }

    pub fn to_json_value(&self) -> serde_json::Value {
        serde_json::from_str(&self.json()).expect("own json")
    }
    pub fn from_json_value(j: &serde_json::Value) -> V {
        match j {
            serde_json::Value::Null => V::Null,
            serde_json::Value::Bool(b) => V::Bool(*b),
            serde_json::Value::Number(n) => {
                if let Some(i) = n.as_i64() {
                    V::Int(i)
                } else {
                    V::Float(n.as_f64().unwrap_or(f64::NAN))
                }
            }
            serde_json::Value::String(s) => V::Str(s.clone()),
            serde_json::Value::Array(a) => V::List(a.iter().map(V::from_json_value).collect()),
            serde_json::Value::Object(m) => V::Map(
                m.iter()
                    .map(|(k, v)| (k.clone(), V::from_json_value(v)))
                    .collect(),
            ),
        }
    }
}

/// Float text that both JSON and Guard read back as a float (always has a '.' or exponent).
pub fn float_txt(x: f64) -> String {
    let mut t = format!("{:?}", x); // shortest round-trip, e.g. 1.5, 1e308, 5e-324, 1.0
    if !t.contains('.') && !t.contains('e') && !t.contains("inf") && !t.contains("NaN") {
        t.push_str(".0");
    }
    t
}

pub fn json_str(s: &str, o: &mut String) {
    o.push('"');
    for c in s.chars() {
        match c {
            '"' => o.push_str("\\\""),
            '\\' => o.push_str("\\\\"),
            '\n' => o.push_str("\\n"),
            '\r' => o.push_str("\\r"),
            '\t' => o.push_str("\\t"),
            c if (c as u32) < 0x20 => write!(o, "\\u{:04x}", c as u32).unwrap(),
            c => o.push(c),
        }
    }
    o.push('"');
}
