//! Extractors: parse every rendering of a validate / test run back into the verdict components
//! it exposes (rule-name sets per status, file status).
use crate::impl_::St;
use serde_json::Value;
use std::collections::{BTreeMap, BTreeSet};

#[derive(Clone, Debug, Default, PartialEq)]
pub struct FileRep {
    pub name: String,
    pub status: Option<St>,
    pub compliant: Vec<String>,
    pub not_applicable: Vec<String>,
    /// rule name -> custom messages of the checks listed under it
    pub not_compliant: Vec<(String, Vec<String>)>,
    /// number of leaf checks (Clause / Block reports) listed under all non-compliant rules
    pub leaf_checks: usize,
}

fn collect_checks(v: &Value, msgs: &mut Vec<String>, leaves: &mut usize) {
    // v is a ClauseReport: {"Rule": {...}} | {"Block": {...}} | {"Disjunctions": {...}} | {"Clause": {...}}
    if let Some(o) = v.as_object() {
        for (k, inner) in o {
            match k.as_str() {
                "Rule" | "Disjunctions" => {
                    if let Some(cs) = inner.get("checks").and_then(|c| c.as_array()) {
                        for c in cs {
                            collect_checks(c, msgs, leaves);
                        }
                    }
                }
                "Block" => {
                    *leaves += 1;
                    if let Some(m) = inner.get("messages").and_then(|m| m.get("custom_message")).and_then(|m| m.as_str()) {
                        if !m.is_empty() {
                            msgs.push(m.to_string());
                        }
                    }
                }
                "Clause" => {
                    *leaves += 1;
                    // {"Unary"|"Binary": {messages: {custom_message}}}
                    if let Some(io) = inner.as_object() {
                        for (_, c) in io {
                            // an empty / absent message is recorded as "" so that the caller can tell
                            match c.get("messages").and_then(|m| m.get("custom_message")).and_then(|m| m.as_str()) {
                                Some(m) => msgs.push(m.to_string()),
                                None => msgs.push(String::new()),
                            }
                        }
                    }
                }
                _ => {}
            }
        }
    }
}

pub fn parse_file_report(v: &Value) -> Result<FileRep, String> {
    let o = v.as_object().ok_or("file report is not an object")?;
    let mut r = FileRep::default();
    r.name = o.get("name").and_then(|n| n.as_str()).ok_or("no name")?.to_string();
    r.status = o.get("status").and_then(|s| s.as_str()).and_then(St::parse);
    let names = |k: &str| -> Result<Vec<String>, String> {
        Ok(o.get(k).and_then(|c| c.as_array()).ok_or(format!("no {}", k))?.iter().filter_map(|x| x.as_str().map(|s| s.to_string())).collect())
    };
    r.compliant = names("compliant")?;
    r.not_applicable = names("not_applicable")?;
    for nc in o.get("not_compliant").and_then(|c| c.as_array()).ok_or("no not_compliant")? {
        let rule = nc.get("Rule").ok_or("not_compliant entry is not a Rule")?;
        let name = rule.get("name").and_then(|n| n.as_str()).ok_or("rule without name")?.to_string();
        let mut msgs = vec![];
        collect_checks(nc, &mut msgs, &mut r.leaf_checks);
        r.not_compliant.push((name, msgs));
    }
    Ok(r)
}

/// structured JSON output: an array of file reports
pub fn parse_structured_json(text: &str) -> Result<Vec<FileRep>, String> {
    let v: Value = serde_json::from_str(text).map_err(|e| format!("not JSON: {}", e))?;
    v.as_array().ok_or("not an array")?.iter().map(parse_file_report).collect()
}
pub fn parse_structured_yaml(text: &str) -> Result<(Vec<FileRep>, Value), String> {
    let y: serde_yaml::Value = serde_yaml::from_str(text).map_err(|e| format!("not YAML: {}", e))?;
    let v: Value = serde_json::to_value(&y).map_err(|e| format!("yaml->json: {}", e))?;
    let reps = v.as_array().ok_or("not a sequence")?.iter().map(parse_file_report).collect::<Result<Vec<_>, _>>()?;
    Ok((reps, v))
}

/// strip "<rules file>/" prefixes the summary table and some reporters add
pub fn bare(name: &str) -> String {
    // rule names are identifiers; anything up to the last '/' is a rules-file prefix
    match name.rfind('/') {
        Some(i) => name[i + 1..].to_string(),
        None => name.to_string(),
    }
}

#[derive(Clone, Debug, Default, PartialEq)]
pub struct PlainRep {
    /// per data-file block, in output order
    pub tables: Vec<TableRep>,
    pub json_docs: Vec<FileRep>,
    pub detail_pass: BTreeSet<String>,
    pub detail_skip: BTreeSet<String>,
    pub detail_fail: BTreeSet<String>,
    /// verbose tree: top-level Rule(name, Status=X) lines
    pub tree_rules: Vec<(String, St)>,
    pub tree_files: Vec<St>,
    pub problems: Vec<String>,
}
#[derive(Clone, Debug, Default, PartialEq)]
pub struct TableRep {
    pub data: String,
    pub status: Option<St>,
    pub pass: Vec<String>,
    pub fail: Vec<String>,
    pub skip: Vec<String>,
    pub has_pass: bool,
    pub has_fail: bool,
    pub has_skip: bool,
}

fn between<'a>(s: &'a str, a: &str, b: &str) -> Option<&'a str> {
    let i = s.find(a)? + a.len();
    let j = s[i..].find(b)? + i;
    Some(&s[i..j])
}

/// Parses console output of non-structured validate (summary table, detail lines, verbose tree,
/// embedded JSON / YAML documents, print-json records are skipped by the caller).
pub fn parse_plain(text: &str, fmt: &str) -> PlainRep {
    let mut r = PlainRep::default();
    let mut lines = text.lines().peekable();
    let mut section: Option<&str> = None;
    let mut json_buf: Option<String> = None;
    let mut yaml_buf: Option<String> = None;
    let flush_yaml = |buf: &mut Option<String>, r: &mut PlainRep| {
        if let Some(b) = buf.take() {
            match serde_yaml::from_str::<serde_yaml::Value>(&b).ok().and_then(|y| serde_json::to_value(&y).ok()) {
                Some(v) => match parse_file_report(&v) {
                    Ok(fr) => r.json_docs.push(fr),
                    Err(e) => r.problems.push(format!("embedded YAML report: {}", e)),
                },
                None => r.problems.push("embedded YAML does not parse".into()),
            }
        }
    };
    while let Some(line0) = lines.next() {
        let mut line = line0;
        if let Some(buf) = json_buf.as_mut() {
            if line.starts_with('}') {
                buf.push('}');
                match serde_json::from_str::<Value>(buf) {
                    Ok(v) => {
                        if v.get("container").is_some() {
                            // a print-json record: not a report
                        } else {
                            match parse_file_report(&v) {
                                Ok(fr) => r.json_docs.push(fr),
                                Err(e) => r.problems.push(format!("embedded JSON report: {}", e)),
                            }
                        }
                    }
                    Err(e) => r.problems.push(format!("embedded JSON does not parse: {}", e)),
                }
                json_buf = None;
                line = &line[1..];
                if line.is_empty() {
                    continue;
                }
                if line == "{" {
                    json_buf = Some("{".into());
                    continue;
                }
            } else {
                buf.push_str(line);
                buf.push('\n');
                continue;
            }
        }
        if line == "{" {
            flush_yaml(&mut yaml_buf, &mut r);
            json_buf = Some("{\n".into());
            continue;
        }
        if fmt == "yaml" {
            if line.starts_with("name: ") {
                flush_yaml(&mut yaml_buf, &mut r);
                yaml_buf = Some(format!("{}\n", line));
                continue;
            }
            if let Some(b) = yaml_buf.as_mut() {
                if line.ends_with(" Status = PASS") || line.ends_with(" Status = FAIL") || line.ends_with(" Status = SKIP") || line.starts_with("`- File(") {
                    flush_yaml(&mut yaml_buf, &mut r);
                } else {
                    b.push_str(line);
                    b.push('\n');
                    continue;
                }
            }
        }
        // summary table
        if let Some(p) = line.rfind(" Status = ") {
            let st = St::parse(line[p + 10..].trim());
            if st.is_some() && !line.starts_with('`') && !line.contains("Rule(") {
                r.tables.push(TableRep { data: line[..p].to_string(), status: st, ..Default::default() });
                section = None;
                continue;
            }
        }
        match line {
            "SKIP rules" => {
                section = Some("skip");
                if let Some(t) = r.tables.last_mut() {
                    t.has_skip = true;
                }
                continue;
            }
            "PASS rules" => {
                section = Some("pass");
                if let Some(t) = r.tables.last_mut() {
                    t.has_pass = true;
                }
                continue;
            }
            "FAILED rules" => {
                section = Some("fail");
                if let Some(t) = r.tables.last_mut() {
                    t.has_fail = true;
                }
                continue;
            }
            "---" | "--" => {
                section = None;
                continue;
            }
            _ => {}
        }
        if let Some(sec) = section {
            // "<name>    STATUS"
            let mut it = line.split_whitespace();
            if let (Some(n), Some(s), None) = (it.next(), it.next(), it.next()) {
                if let (Some(st), Some(t)) = (St::parse(s), r.tables.last_mut()) {
                    let ok = matches!((sec, st), ("skip", St::Skip) | ("pass", St::Pass) | ("fail", St::Fail));
                    if !ok {
                        r.problems.push(format!("table lists {} as {} in the {} section", n, s, sec));
                    }
                    match sec {
                        "skip" => t.skip.push(bare(n)),
                        "pass" => t.pass.push(bare(n)),
                        _ => t.fail.push(bare(n)),
                    }
                    continue;
                }
            }
        }
        // detail lines
        if line.starts_with("Rule [") {
            if let Some(n) = between(line, "Rule [", "]") {
                if line.contains("is compliant for") {
                    r.detail_pass.insert(bare(n));
                } else if line.contains("is not applicable for") {
                    r.detail_skip.insert(bare(n));
                }
            }
            continue;
        }
        if let Some(n) = between(line, "is not compliant with [", "]") {
            r.detail_fail.insert(bare(n));
            continue;
        }
        // verbose tree
        let t = line.trim_start_matches(|c| c == ' ' || c == '|' || c == '`' || c == '-');
        let depth = line.len() - t.len();
        if t.starts_with("File(") {
            if let Some(s) = between(t, "Status=", ")") {
                if let Some(st) = St::parse(s) {
                    r.tree_files.push(st);
                }
            }
        } else if t.starts_with("Rule(") && depth == 6 {
            if let (Some(n), Some(s)) = (between(t, "Rule(", ", Status="), between(t, "Status=", ")")) {
                if let Some(st) = St::parse(s) {
                    r.tree_rules.push((bare(n), st));
                }
            }
        }
    }
    flush_yaml(&mut yaml_buf, &mut r);
    if json_buf.is_some() {
        r.problems.push("unterminated embedded JSON document".into());
    }
    r
}

/// print-json output: a stream of records, one per (rules file, data file)
pub fn parse_record_stream(text: &str) -> Vec<Value> {
    let mut out = vec![];
    let mut buf: Option<String> = None;
    for line in text.lines() {
        if let Some(b) = buf.as_mut() {
            if line.starts_with('}') {
                b.push('}');
                if let Ok(v) = serde_json::from_str::<Value>(b) {
                    if v.get("container").is_some() {
                        out.push(v);
                    }
                }
                buf = if line.len() > 1 && &line[1..] == "{" { Some("{".into()) } else { None };
            } else {
                b.push_str(line);
                b.push('\n');
            }
        } else if line == "{" {
            buf = Some("{\n".into());
        }
    }
    out
}

#[derive(Clone, Debug, PartialEq)]
pub struct JunitCase {
    pub suite: String,
    pub name: String,
    /// "pass" | "fail" | "skip" | "error"
    pub mark: String,
    pub failure_rules: Vec<String>,
    /// character data of the case's <failure> element(s), unescaped
    pub failure_text: String,
}

/// XML 1.0 Char production: #x9 | #xA | #xD | [#x20-#xD7FF] | [#xE000-#xFFFD] | [#x10000-#x10FFFF]
pub fn not_xml_char(c: char) -> bool {
    matches!(c, '\u{0}'..='\u{8}' | '\u{b}' | '\u{c}' | '\u{e}'..='\u{1f}' | '\u{fffe}' | '\u{ffff}')
}

pub fn parse_junit(text: &str) -> Result<Vec<JunitCase>, String> {
    use quick_xml::events::Event;
    let mut rd = quick_xml::Reader::from_str(text);
    let mut out: Vec<JunitCase> = vec![];
    let mut suite = String::new();
    let mut cur: Option<JunitCase> = None;
    let mut depth = 0i32;
    let mut in_failure = false;
    let attr = |e: &quick_xml::events::BytesStart, k: &str| -> Option<String> {
        e.attributes().flatten().find(|a| a.key.as_ref() == k.as_bytes()).and_then(|a| a.unescape_value().ok().map(|v| v.to_string()))
    };
    loop {
        match rd.read_event() {
            Err(e) => return Err(format!("XML error: {}", e)),
            Ok(Event::Eof) => break,
            Ok(Event::Start(e)) | Ok(Event::Empty(e)) if { true } => {
                let is_empty = false;
                let _ = is_empty;
                let name = String::from_utf8_lossy(e.name().as_ref()).to_string();
                for a in e.attributes() {
                    match a {
                        Err(x) => return Err(format!("XML error in an attribute of <{}>: {}", name, x)),
                        Ok(a) => match a.unescape_value() {
                            Err(x) => return Err(format!("XML error in an attribute value of <{}>: {}", name, x)),
                            Ok(v) => {
                                if v.chars().any(not_xml_char) {
                                    return Err(format!("a character that XML 1.0 cannot hold in an attribute value of <{}>: {:?}", name, v));
                                }
                            }
                        },
                    }
                }
                match name.as_str() {
                    "testsuite" => suite = attr(&e, "name").unwrap_or_default(),
                    "testcase" => {
                        if let Some(c) = cur.take() {
                            out.push(c);
                        }
                        let mark = match attr(&e, "status").as_deref() {
                            Some("skip") => "skip",
                            _ => "pass",
                        };
                        cur = Some(JunitCase { suite: suite.clone(), name: attr(&e, "name").unwrap_or_default(), mark: mark.into(), failure_rules: vec![], failure_text: String::new() });
                    }
                    "failure" => {
                        in_failure = true;
                        if let Some(c) = cur.as_mut() {
                            c.mark = "fail".into();
                            if let Some(m) = attr(&e, "message") {
                                c.failure_rules.push(m);
                            }
                        }
                    }
                    "skipped" => {
                        if let Some(c) = cur.as_mut() {
                            c.mark = "skip".into();
                        }
                    }
                    "error" => {
                        if let Some(c) = cur.as_mut() {
                            c.mark = "error".into();
                        }
                    }
                    _ => {}
                }
                depth += 1;
            }
            Ok(Event::End(e)) => {
                if e.name().as_ref() == b"failure" {
                    in_failure = false;
                }
                depth -= 1;
            }
            // character data must be well-formed too: a bare `&` or `<` is not XML
            Ok(Event::Text(t)) => match t.unescape() {
                Err(e) => return Err(format!("XML error in character data: {}", e)),
                Ok(txt) => {
                    if txt.chars().any(not_xml_char) {
                        return Err(format!("a character that XML 1.0 cannot hold in character data: {:?}", txt.chars().take(60).collect::<String>()));
                    }
                    if in_failure {
                        if let Some(c) = cur.as_mut() {
                            c.failure_text.push_str(&txt);
                        }
                    }
                }
            },
            Ok(_) => {}
        }
    }
    let _ = depth;
    if let Some(c) = cur.take() {
        out.push(c);
    }
    if !text.trim_start().starts_with("<?xml") {
        return Err("no XML declaration".into());
    }
    Ok(out)
}

/// SARIF: (ruleId, message text) per result
pub fn parse_sarif(text: &str) -> Result<Vec<(String, String)>, String> {
    let v: Value = serde_json::from_str(text).map_err(|e| format!("not JSON: {}", e))?;
    if v.get("version").and_then(|x| x.as_str()) != Some("2.1.0") {
        return Err("no SARIF version".into());
    }
    let mut out = vec![];
    for run in v.get("runs").and_then(|r| r.as_array()).ok_or("no runs")? {
        for res in run.get("results").and_then(|r| r.as_array()).ok_or("no results")? {
            out.push((
                res.get("ruleId").and_then(|x| x.as_str()).unwrap_or("").to_string(),
                res.get("message").and_then(|m| m.get("text")).and_then(|x| x.as_str()).unwrap_or("").to_string(),
            ));
        }
    }
    Ok(out)
}

/// per-rule failed custom messages from a verbose record: rule name -> messages on FAIL value checks beneath it
pub fn failed_messages_by_rule(record: &Value) -> BTreeMap<String, BTreeSet<String>> {
    fn walk(n: &Value, out: &mut BTreeSet<String>) {
        // a clause that evaluated to PASS (a `some` clause satisfied by one of its values) holds per-value FAIL records,
        // but the clause is not a failed check
        if let Some(gc) = n.get("container").and_then(|c| c.get("GuardClauseBlockCheck")) {
            if gc.get("status").and_then(|s| s.as_str()) == Some("PASS") {
                return;
            }
        }
        if let Some(cvc) = n.get("container").and_then(|c| c.get("ClauseValueCheck")) {
            // every ClauseValueCheck other than "Success" records a failed check; its custom message sits at
            // a variant-dependent depth (Comparison.custom_message, Unary.value.custom_message, ...)
            fn msgs(v: &Value, out: &mut BTreeSet<String>) {
                match v {
                    Value::Object(o) => {
                        for (k, x) in o {
                            if k == "custom_message" {
                                if let Some(s) = x.as_str() {
                                    out.insert(s.to_string());
                                }
                            } else if k == "NoValueForEmptyCheck" {
                                if let Some(s) = x.as_str() {
                                    out.insert(s.to_string());
                                }
                            } else if k != "from" && k != "to" {
                                msgs(x, out);
                            }
                        }
                    }
                    Value::Array(a) => a.iter().for_each(|x| msgs(x, out)),
                    _ => {}
                }
            }
            if cvc.as_str() != Some("Success") {
                msgs(cvc, out);
            }
        }
        // parameterised rule calls carry the call's message on the RuleCheck
        if let Some(rc) = n.get("container").and_then(|c| c.get("RuleCheck")) {
            if rc.get("status").and_then(|s| s.as_str()) == Some("FAIL") {
                if let Some(m) = rc.get("message").and_then(|m| m.as_str()) {
                    out.insert(m.to_string());
                }
            }
        }
        if let Some(ch) = n.get("children").and_then(|c| c.as_array()) {
            for c in ch {
                walk(c, out);
            }
        }
    }
    let mut res = BTreeMap::new();
    if let Some(ch) = record.get("children").and_then(|c| c.as_array()) {
        for c in ch {
            if let Some(rc) = c.get("container").and_then(|c| c.get("RuleCheck")) {
                let name = bare(rc.get("name").and_then(|n| n.as_str()).unwrap_or("?"));
                let mut set = BTreeSet::new();
                walk(c, &mut set);
                res.entry(name).or_insert_with(BTreeSet::new).extend(set);
            }
        }
    }
    res
}


/// JUnit counters: (total tests, total failures) declared on <testsuites>, and per <testsuite> (name, failures attr)
pub fn parse_junit_counts(text: &str) -> Result<(Option<usize>, Option<usize>, Vec<(String, Option<usize>)>), String> {
    use quick_xml::events::Event;
    let mut rd = quick_xml::Reader::from_str(text);
    let attr = |e: &quick_xml::events::BytesStart, k: &str| -> Option<String> {
        e.attributes().flatten().find(|a| a.key.as_ref() == k.as_bytes()).and_then(|a| a.unescape_value().ok().map(|v| v.to_string()))
    };
    let (mut tests, mut fails, mut suites) = (None, None, vec![]);
    loop {
        match rd.read_event() {
            Err(e) => return Err(format!("XML error: {}", e)),
            Ok(Event::Eof) => break,
            Ok(Event::Start(e)) | Ok(Event::Empty(e)) => {
                let name = String::from_utf8_lossy(e.name().as_ref()).to_string();
                if name == "testsuites" {
                    tests = attr(&e, "tests").and_then(|x| x.parse().ok());
                    fails = attr(&e, "failures").and_then(|x| x.parse().ok());
                } else if name == "testsuite" {
                    suites.push((attr(&e, "name").unwrap_or_default(), attr(&e, "failures").and_then(|x| x.parse().ok())));
                }
            }
            Ok(_) => {}
        }
    }
    Ok((tests, fails, suites))
}

/// the counters of a JUnit document must describe its own test cases
pub fn junit_counter_problems(text: &str) -> Vec<String> {
    let mut out = vec![];
    let (cases, counts) = match (parse_junit(text), parse_junit_counts(text)) {
        (Ok(a), Ok(b)) => (a, b),
        _ => return vec!["not well-formed".into()],
    };
    let (tests, fails, suites) = counts;
    if let Some(t) = tests {
        if t != cases.len() {
            out.push(format!("testsuites tests={} but {} test cases", t, cases.len()));
        }
    }
    let nf = cases.iter().filter(|c| c.mark == "fail").count();
    if let Some(f) = fails {
        if f != nf {
            out.push(format!("testsuites failures={} but {} failing test cases", f, nf));
        }
    }
    for (name, f) in suites {
        let n = cases.iter().filter(|c| c.suite == name && c.mark == "fail").count();
        if let Some(f) = f {
            if f != n {
                out.push(format!("testsuite {} failures={} but {} failing test cases", name, f, n));
            }
        }
    }
    out
}
