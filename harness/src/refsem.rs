//! Reference interpreter ("refsem"): an independent, boring reading of the documented Guard
//! semantics over the harness AST and `V` values. Shares no code with the crate under test.
//! Rules are tagged [doc] (stated in docs/*.md) or [pin] (documentation silent; pinned behaviour).
//! See DESIGN.md section 4 and Appendix B.
use crate::ast::*;
use crate::impl_::St;
use crate::val::{T, V};
use std::cell::RefCell;
use std::collections::HashMap;

/// Defect variants of the model: each reproduces one recorded finding exactly, so that a
/// disagreement can be attributed to it (and to nothing else).
#[derive(Clone, Copy, Debug, Default, PartialEq)]
pub struct Variant {
    /// F16: a filter that follows a wildcard which did not iterate a map with `*` is evaluated
    /// against the enclosing context instead of the candidate value
    pub f16: bool,
    /// F1: prefix `not` is ignored on binary clauses
    pub f1: bool,
}

#[derive(Clone, Debug, PartialEq)]
pub enum QR {
    R(V),
    U,
}

/// "the documented semantics is undefined here" => the tool must raise an evaluation error
#[derive(Debug, Clone, PartialEq)]
pub struct Undef(pub String);

type Res<X> = Result<X, Undef>;

pub struct Scope<'a> {
    pub parent: Option<&'a Scope<'a>>,
    pub ctx: &'a V,
    pub lets: &'a [Let],
    pub params: Option<&'a HashMap<String, Vec<QR>>>,
    memo: RefCell<HashMap<String, Vec<QR>>>,
}

impl<'a> Scope<'a> {
    pub fn new(parent: Option<&'a Scope<'a>>, ctx: &'a V, lets: &'a [Let]) -> Scope<'a> {
        Scope { parent, ctx, lets, params: None, memo: RefCell::new(HashMap::new()) }
    }
}

pub struct Sem<'a> {
    pub file: &'a File,
    pub variant: Variant,
    rule_memo: RefCell<HashMap<String, St>>,
    depth: RefCell<usize>,
    pub root: RefCell<Option<V>>,
}

#[derive(Clone, Copy, PartialEq, Debug)]
enum B3 {
    T,
    F,
    Bot,
}
fn b3(b: bool) -> B3 {
    if b {
        B3::T
    } else {
        B3::F
    }
}

// ---------------------------------------------------------------- comparison kernel (K5)
fn within(v: &V, lo: &V, hi: &V, il: bool, ih: bool) -> Option<bool> {
    match (v, lo, hi) {
        (V::Int(x), V::Int(a), V::Int(b)) => Some((if il { a <= x } else { a < x }) && (if ih { x <= b } else { x < b })),
        (V::Float(x), V::Float(a), V::Float(b)) => Some((if il { a <= x } else { a < x }) && (if ih { x <= b } else { x < b })),
        _ => None,
    }
}

fn eq3(x: &V, y: &V) -> B3 {
    match (x, y) {
        (V::Str(s), V::Regex(r)) | (V::Regex(r), V::Str(s)) => match crate::mre::search(r, s) {
            Some(b) => b3(b),
            None => B3::Bot,
        },
        (v, V::Range(lo, hi, il, ih)) => match within(v, lo, hi, *il, *ih) {
            Some(b) => b3(b),
            None => B3::Bot,
        },
        (V::Str(a), V::Str(b)) => b3(a == b),
        (V::Bool(a), V::Bool(b)) => b3(a == b),
        (V::Int(a), V::Int(b)) => b3(a == b),
        (V::Float(a), V::Float(b)) => b3(a == b),
        (V::Null, V::Null) => B3::T,
        (V::List(a), V::List(b)) => {
            if a.len() != b.len() {
                return B3::F;
            }
            for (p, q) in a.iter().zip(b.iter()) {
                match eq3(p, q) {
                    B3::Bot => return B3::Bot,
                    B3::F => return B3::F,
                    B3::T => {}
                }
            }
            B3::T
        }
        (V::Map(a), V::Map(b)) => {
            if a.len() != b.len() {
                return B3::F;
            }
            for (k, p) in a.iter() {
                match b.iter().find(|(kk, _)| kk == k) {
                    None => return B3::F,
                    Some((_, q)) => match eq3(p, q) {
                        B3::Bot => return B3::Bot,
                        B3::F => return B3::F,
                        B3::T => {}
                    },
                }
            }
            B3::T
        }
        _ => B3::Bot,
    }
}

fn member(v: &V, l: &[V]) -> bool {
    l.iter().any(|e| eq3(v, e) == B3::T)
}

fn ord3(x: &V, y: &V) -> Option<std::cmp::Ordering> {
    match (x, y) {
        (V::Int(a), V::Int(b)) => Some(a.cmp(b)),
        (V::Float(a), V::Float(b)) => a.partial_cmp(b),
        (V::Str(a), V::Str(b)) => Some(a.as_bytes().cmp(b.as_bytes())),
        // (null has no order: `null <= null` does not hold - C13; the pinned tree ordered it until the repair in /repo)
        _ => None,
    }
}

fn agg(res: &[B3], some: bool) -> St {
    if some {
        if res.iter().any(|r| *r == B3::T) {
            St::Pass
        } else {
            St::Fail
        }
    } else if res.iter().any(|r| *r != B3::T) {
        St::Fail
    } else {
        St::Pass
    }
}

/// Binary clause with a literal right-hand side (Appendix B "Binary").
pub fn binary_lit(sel: &[QR], op: BinOp, neg: bool, lit: &V, some: bool) -> St {
    if sel.is_empty() {
        return St::Skip;
    }
    let flip = |r: B3| -> B3 {
        match r {
            B3::Bot => B3::Bot,
            B3::T => b3(!neg),
            B3::F => b3(neg),
        }
    };
    let mut res: Vec<B3> = vec![];
    for qr in sel {
        let v = match qr {
            QR::U => {
                res.push(B3::F);
                continue;
            }
            QR::R(v) => v,
        };
        match op {
            BinOp::Eq => match lit {
                V::List(ll) => {
                    if !matches!(v, V::List(_) | V::Map(_)) && ll.len() == 1 {
                        res.push(flip(eq3(v, &ll[0])));
                    } else {
                        res.push(flip(eq3(v, lit)));
                    }
                }
                _ => match v {
                    V::List(vl) => {
                        for e in vl {
                            res.push(flip(eq3(e, lit)));
                        }
                    }
                    _ => res.push(flip(eq3(v, lit))),
                },
            },
            BinOp::In => match lit {
                V::Str(ls) => {
                    let one = |e: &V| -> B3 {
                        match e {
                            V::Str(es) => flip(b3(ls.contains(es.as_str()))),
                            _ => B3::Bot,
                        }
                    };
                    match v {
                        V::List(vl) => {
                            for e in vl {
                                res.push(one(e));
                            }
                        }
                        _ => res.push(one(v)),
                    }
                }
                V::List(ll) => match v {
                    V::List(vl) => {
                        if !ll.is_empty() && matches!(ll[0], V::List(_)) {
                            // against a list of lists the value is compared as a whole: `not in` holds exactly when `in`
                            // does not (the tool used to FAIL both for a non-empty list; repaired in /repo aa22c4d)
                            let _ = vl;
                            res.push(b3(member(v, ll) != neg));
                        } else {
                            let sub = vl.iter().all(|e| member(e, ll));
                            if !neg {
                                res.push(b3(sub));
                            } else if sub {
                                res.push(B3::F);
                            } else {
                                res.push(b3(!vl.iter().any(|e| member(e, ll))));
                            }
                        }
                    }
                    _ => res.push(flip(b3(member(v, ll)))),
                },
                _ => match v {
                    V::List(_) => res.push(B3::Bot),
                    _ => res.push(flip(eq3(v, lit))),
                },
            },
            BinOp::Lt | BinOp::Le | BinOp::Gt | BinOp::Ge => {
                let ls: Vec<&V> = match v {
                    V::List(vl) => vl.iter().collect(),
                    _ => vec![v],
                };
                let rs: Vec<&V> = match lit {
                    V::List(ll) => ll.iter().collect(),
                    _ => vec![lit],
                };
                for e in &ls {
                    for f in &rs {
                        match ord3(e, f) {
                            None => res.push(B3::Bot),
                            Some(c) => {
                                use std::cmp::Ordering::*;
                                let r = match op {
                                    BinOp::Lt => c == Less,
                                    BinOp::Le => c != Greater,
                                    BinOp::Gt => c == Greater,
                                    BinOp::Ge => c != Less,
                                    _ => unreachable!(),
                                };
                                res.push(b3(r));
                            }
                        }
                    }
                }
            }
        }
    }
    agg(&res, some)
}

fn is_type(v: &V, op: UnOp) -> bool {
    matches!(
        (op, v.t()),
        (UnOp::IsString, T::Str)
            | (UnOp::IsList, T::List)
            | (UnOp::IsStruct, T::Map)
            | (UnOp::IsBool, T::Bool)
            | (UnOp::IsInt, T::Int)
            | (UnOp::IsFloat, T::Float)
            | (UnOp::IsNull, T::Null)
    )
}

/// Unary clause (Appendix B "Unary"); `result_set` = K3' (query ends in a filter or is a bare variable)
pub fn unary(sel: &[QR], op: UnOp, pol: bool, some: bool, result_set: bool) -> Res<St> {
    if op == UnOp::Empty && result_set {
        if sel.is_empty() {
            return Ok(if pol { St::Fail } else { St::Pass });
        }
        let res: Vec<B3> = sel
            .iter()
            .map(|q| {
                let e = matches!(q, QR::U | QR::R(V::Null));
                b3(e != pol)
            })
            .collect();
        return Ok(agg(&res, some));
    }
    if sel.is_empty() {
        return Ok(St::Skip);
    }
    let mut res = vec![];
    for q in sel {
        let r = match op {
            UnOp::Exists => matches!(q, QR::R(_)),
            UnOp::Empty => match q {
                QR::U => true,
                QR::R(V::List(l)) => l.is_empty(),
                QR::R(V::Map(m)) => m.is_empty(),
                QR::R(V::Str(s)) => s.is_empty(),
                QR::R(V::Bool(_)) => false,
                QR::R(v) => return Err(Undef(format!("empty on {:?}", v.t()))),
            },
            t => match q {
                QR::R(v) => is_type(v, t),
                QR::U => false,
            },
        };
        res.push(b3(r != pol));
    }
    Ok(agg(&res, some))
}

// ---------------------------------------------------------------- interpreter
impl<'a> Sem<'a> {
    pub fn new(file: &'a File, variant: Variant) -> Sem<'a> {
        Sem { file, variant, rule_memo: RefCell::new(HashMap::new()), depth: RefCell::new(0), root: RefCell::new(None) }
    }

    fn var(&self, name: &str, scope: &Scope) -> Res<Vec<QR>> {
        let mut s = Some(scope);
        while let Some(sc) = s {
            if let Some(p) = sc.params {
                if let Some(v) = p.get(name) {
                    return Ok(v.clone());
                }
            }
            if let Some(l) = sc.lets.iter().rev().find(|l| l.name == name) {
                // every reference sees the same value: evaluate once at the defining scope
                if let Some(m) = sc.memo.borrow().get(name) {
                    return Ok(m.clone());
                }
                let r = self.arg_values(&l.val, sc.ctx, sc)?;
                sc.memo.borrow_mut().insert(name.to_string(), r.clone());
                return Ok(r);
            }
            s = sc.parent;
        }
        Err(Undef(format!("unknown variable {}", name)))
    }

    /// the literal a variable is bound to, when its innermost definition is a literal (parameters are not)
    fn literal_of_var(&self, name: &str, scope: &Scope) -> Option<V> {
        let mut s = Some(scope);
        while let Some(sc) = s {
            if let Some(p) = sc.params {
                if p.contains_key(name) {
                    return None;
                }
            }
            if let Some(l) = sc.lets.iter().rev().find(|l| l.name == name) {
                return match &l.val {
                    Arg::Lit(v) => Some(v.clone()),
                    _ => None,
                };
            }
            s = sc.parent;
        }
        None
    }

    /// values denoted by a let / argument expression
    pub fn arg_values(&self, a: &Arg, ctx: &V, scope: &Scope) -> Res<Vec<QR>> {
        match a {
            Arg::Lit(v) => Ok(vec![QR::R(v.clone())]),
            Arg::Q(some, q) => {
                let r = self.sel(q, ctx, scope)?;
                Ok(if *some { r.into_iter().filter(|x| matches!(x, QR::R(_))).collect() } else { r })
            }
            Arg::Call(f, args) => {
                let mut av = vec![];
                for a in args {
                    av.push(self.arg_values(a, ctx, scope)?);
                }
                crate::reffn::call(f, &av).map_err(Undef)
            }
        }
    }

    /// Q1..Q5: values selected by a query evaluated with `ctx` as the context value
    pub fn sel(&self, q: &Query, ctx: &V, scope: &Scope) -> Res<Vec<QR>> {
        let mut out = vec![];
        if let Some(Part::Var(name)) = q.first() {
            // Q5: each value of the variable continues the traversal; a `[*]` directly after the
            // variable is the (optional) spelling of that iteration
            let vals = self.var(name, scope)?;
            let mut start = 1;
            if let Some(Part::All) = q.get(1) {
                start = 2;
            }
            for v in vals {
                match v {
                    QR::U => out.push(QR::U),
                    QR::R(v) => {
                        if start < q.len() {
                            self.walk(q, start, &v, &v, scope, &mut out)?;
                        } else {
                            out.push(QR::R(v));
                        }
                    }
                }
            }
            return Ok(out);
        }
        self.walk(q, 0, ctx, ctx, scope, &mut out)?;
        Ok(out)
    }

    /// `rctx` is only used by the F16 defect variant: the context the pinned implementation's
    /// resolver carries (the query's own context, replaced by the value when a map is iterated
    /// with `*` or keyed-filter, or when the traversal starts from a variable's value).
    fn walk(&self, q: &Query, i: usize, cur: &V, rctx: &V, scope: &Scope, out: &mut Vec<QR>) -> Res<()> {
        if i >= q.len() {
            out.push(QR::R(cur.clone()));
            return Ok(());
        }
        match &q[i] {
            Part::This => self.walk(q, i + 1, cur, rctx, scope, out),
            Part::Var(_) => Err(Undef("variable in non-head position".into())),
            Part::Key(k) => match cur.get(k) {
                Some(v) => self.walk(q, i + 1, v, rctx, scope, out),
                None => {
                    out.push(QR::U);
                    Ok(())
                }
            },
            Part::Idx(n) => match cur {
                V::List(l) if *n >= 0 && (*n as usize) < l.len() => self.walk(q, i + 1, &l[*n as usize], rctx, scope, out),
                _ => {
                    out.push(QR::U);
                    Ok(())
                }
            },
            Part::Star | Part::All => match cur {
                V::List(l) => {
                    if l.is_empty() {
                        out.push(QR::U);
                        return Ok(());
                    }
                    for e in l {
                        self.walk(q, i + 1, e, rctx, scope, out)?;
                    }
                    Ok(())
                }
                V::Map(m) => {
                    if matches!(q[i], Part::All) {
                        // Q2' [pin]: `[*]` on a map yields the map itself
                        return self.walk(q, i + 1, cur, rctx, scope, out);
                    }
                    if m.is_empty() {
                        out.push(QR::U);
                        return Ok(());
                    }
                    for (_, e) in m {
                        self.walk(q, i + 1, e, e, scope, out)?;
                    }
                    Ok(())
                }
                _ => self.walk(q, i + 1, cur, rctx, scope, out),
            },
            Part::Filter(cnf) => {
                // [pin] the parser inserts `[*]` between a variable head and the next part, so a filter
                // written directly after `%v` behaves as a filter after `[*]`
                let all = Part::All;
                let prev = if i > 0 { Some(if matches!(q[i - 1], Part::Var(_)) { &all } else { &q[i - 1] }) } else { None };
                let after_wild = matches!(prev, Some(Part::Star) | Some(Part::All));
                match cur {
                    V::List(l) => {
                        for e in l {
                            if self.cnf(cnf, e, scope)? == St::Pass {
                                self.walk(q, i + 1, e, rctx, scope, out)?;
                            }
                        }
                        Ok(())
                    }
                    V::Map(m) => {
                        if after_wild {
                            let fctx = if self.variant.f16 { rctx } else { cur };
                            if self.cnf(cnf, fctx, scope)? == St::Pass {
                                self.walk(q, i + 1, cur, rctx, scope, out)?;
                            }
                            Ok(())
                        } else if matches!(prev, Some(Part::Key(_))) {
                            for (_, e) in m {
                                if self.cnf(cnf, e, scope)? == St::Pass {
                                    self.walk(q, i + 1, e, e, scope, out)?;
                                }
                            }
                            Ok(())
                        } else {
                            // parser-accepted but outside the documented fragment (C08 covers it)
                            Err(Undef("filter on a map after this/index/filter".into()))
                        }
                    }
                    _ => {
                        if matches!(prev, Some(Part::All)) {
                            // Q4' [pin]: after `[*]` a scalar is itself tested
                            if self.cnf(cnf, cur, scope)? == St::Pass {
                                self.walk(q, i + 1, cur, rctx, scope, out)?;
                            }
                            Ok(())
                        } else {
                            out.push(QR::U);
                            Ok(())
                        }
                    }
                }
            }
            Part::KeysFilter(not, op, lit) => match cur {
                V::Map(m) => {
                    for (k, e) in m {
                        let st = binary_lit(&[QR::R(V::Str(k.clone()))], *op, *not, lit, false);
                        if st == St::Pass {
                            self.walk(q, i + 1, e, rctx, scope, out)?;
                        }
                    }
                    Ok(())
                }
                _ => {
                    out.push(QR::U);
                    Ok(())
                }
            },
        }
    }

    /// B1/B2: CNF status with left-to-right alternatives that stop at the first PASS (B1'),
    /// all lines evaluated
    pub fn cnf(&self, c: &Cnf, ctx: &V, scope: &Scope) -> Res<St> {
        let mut np = 0;
        let mut nf = 0;
        for line in c {
            let mut lf = 0;
            let mut passed = false;
            for alt in line {
                match self.clause(alt, ctx, scope)? {
                    St::Pass => {
                        passed = true;
                        break;
                    }
                    St::Fail => lf += 1,
                    St::Skip => {}
                }
            }
            if passed {
                np += 1;
            } else if lf > 0 {
                nf += 1;
            }
        }
        Ok(if nf > 0 {
            St::Fail
        } else if np > 0 {
            St::Pass
        } else {
            St::Skip
        })
    }

    fn result_set_query(q: &Query) -> bool {
        match q.last() {
            Some(Part::Filter(_)) | Some(Part::KeysFilter(..)) => true,
            Some(Part::Var(_)) => q.len() == 1,
            _ => false,
        }
    }

    pub fn clause(&self, c: &Clause, ctx: &V, scope: &Scope) -> Res<St> {
        match c {
            Clause::Unary { not, some, q, op, opneg, .. } => {
                let s = self.sel(q, ctx, scope)?;
                // K7: prefix not == operator-level negation; two negations cancel
                unary(&s, *op, *not != *opneg, *some, Self::result_set_query(q))
            }
            Clause::Binary { not, some, q, op, opneg, rhs, .. } => {
                let s = self.sel(q, ctx, scope)?;
                let pol = if self.variant.f1 { *opneg } else { *not != *opneg };
                match rhs {
                    Arg::Lit(l) => {
                        if !op.has_neg() && pol {
                            // K7 for ordering operators: the documented reading is the dual operator on
                            // a single comparable value; outside that the documentation is silent.
                            return self.ordering_negated(&s, *op, l, *some);
                        }
                        Ok(binary_lit(&s, *op, pol, l, *some))
                    }
                    // a literal bound to a variable is that literal (C15): `let v = 1 .. a == %v` reads `a == 1`
                    Arg::Q(false, rq) if rq.len() == 1 && matches!(&rq[0], Part::Var(n) if self.literal_of_var(n, scope).is_some()) => {
                        let l = match &rq[0] {
                            Part::Var(n) => self.literal_of_var(n, scope).unwrap(),
                            _ => unreachable!(),
                        };
                        if !op.has_neg() && pol {
                            return self.ordering_negated(&s, *op, &l, *some);
                        }
                        Ok(binary_lit(&s, *op, pol, &l, *some))
                    }
                    _ => Err(Undef("query/function right-hand sides are outside refsem (C13/C15/C18 use differential oracles)".into())),
                }
            }
            Clause::Named { not, name, .. } => {
                let st = self.rule_status(name)?;
                let pass = st == St::Pass;
                Ok(if pass != *not { St::Pass } else { St::Fail })
            }
            Clause::Call { not, name, args, .. } => {
                let pr = self
                    .file
                    .rules
                    .iter()
                    .rev()
                    .find(|r| r.name == *name && r.params.is_some())
                    .ok_or_else(|| Undef(format!("no parameterised rule {}", name)))?;
                let names = pr.params.as_ref().unwrap();
                if names.len() != args.len() {
                    return Err(Undef("arity".into()));
                }
                let mut pm = HashMap::new();
                for (n, a) in names.iter().zip(args.iter()) {
                    pm.insert(n.clone(), self.arg_values(a, ctx, scope)?);
                }
                let mut sc = Scope::new(Some(scope), ctx, &[]);
                sc.params = Some(&pm);
                let st = self.rule_body(pr, ctx, &sc)?;
                // [pin] the call clause's status is the rule's status; prefix `not` on a call is parsed but
                // what it means is not documented: treated like a named reference
                if *not {
                    Ok(if st == St::Pass { St::Fail } else { St::Pass })
                } else {
                    Ok(st)
                }
            }
            Clause::Block { some, q, not_empty, lets, body } => {
                let vals = self.sel(q, ctx, scope)?;
                if vals.is_empty() {
                    return Ok(if *not_empty { St::Fail } else { St::Skip });
                }
                let (mut p, mut f) = (0, 0);
                for v in &vals {
                    match v {
                        QR::U => f += 1,
                        QR::R(v) => {
                            let sc = Scope::new(Some(scope), v, lets);
                            match self.cnf(body, v, &sc)? {
                                St::Pass => p += 1,
                                St::Fail => f += 1,
                                St::Skip => {}
                            }
                        }
                    }
                }
                Ok(if *some {
                    if p > 0 {
                        St::Pass
                    } else if f > 0 {
                        St::Fail
                    } else {
                        St::Skip
                    }
                } else if f > 0 {
                    St::Fail
                } else if p > 0 {
                    St::Pass
                } else {
                    St::Skip
                })
            }
            Clause::When { cond, lets, body } => {
                if self.cnf(cond, ctx, scope)? != St::Pass {
                    return Ok(St::Skip);
                }
                let sc = Scope::new(Some(scope), ctx, lets);
                self.cnf(body, ctx, &sc)
            }
            Clause::TypeBlock { tname, cond, lets, body } => {
                // documented desugaring: Resources.*[ Type == 'T' ] { body }
                if let Some(c) = cond {
                    if self.cnf(c, ctx, scope)? != St::Pass {
                        return Ok(St::Skip);
                    }
                }
                let q = vec![
                    key("Resources"),
                    Part::Star,
                    Part::Filter(vec![vec![bin(vec![key("Type")], BinOp::Eq, false, V::Str(tname.clone()))]]),
                ];
                let blk = Clause::Block { some: false, q, not_empty: false, lets: lets.clone(), body: body.clone() };
                self.clause(&blk, ctx, scope)
            }
        }
    }

    fn ordering_negated(&self, s: &[QR], op: BinOp, l: &V, some: bool) -> Res<St> {
        // `not X > v` == `X <= v` etc. (C03 statement). Incomparable / unresolved stay FAIL.
        let dual = match op {
            BinOp::Lt => BinOp::Ge,
            BinOp::Le => BinOp::Gt,
            BinOp::Gt => BinOp::Le,
            BinOp::Ge => BinOp::Lt,
            _ => unreachable!(),
        };
        Ok(binary_lit(s, dual, false, l, some))
    }

    fn rule_body(&self, r: &Rule, ctx: &V, scope: &Scope) -> Res<St> {
        if let Some(w) = &r.when {
            if self.cnf(w, ctx, scope)? != St::Pass {
                return Ok(St::Skip);
            }
        }
        let sc = Scope::new(Some(scope), ctx, &r.lets);
        self.cnf(&r.body, ctx, &sc)
    }

    /// B5/B5': status of the rule(s) named `name`: first non-SKIP definition in file order
    pub fn rule_status(&self, name: &str) -> Res<St> {
        if let Some(s) = self.rule_memo.borrow().get(name) {
            return Ok(*s);
        }
        {
            let mut d = self.depth.borrow_mut();
            *d += 1;
            if *d > 40 {
                *d -= 1;
                return Err(Undef("rule reference cycle".into()));
            }
        }
        let root = self.root.borrow().clone().expect("root set");
        let fscope = Scope::new(None, &root, &self.file.lets);
        let mut found = false;
        let mut st = St::Skip;
        let mut err = None;
        for r in self.file.rules.iter().filter(|r| r.name == name && r.params.is_none()) {
            found = true;
            match self.rule_body(r, &root, &fscope) {
                Ok(s) => {
                    if s != St::Skip {
                        st = s;
                        break;
                    }
                }
                Err(e) => {
                    err = Some(e);
                    break;
                }
            }
        }
        *self.depth.borrow_mut() -= 1;
        if let Some(e) = err {
            return Err(e);
        }
        if !found {
            return Err(Undef(format!("no rule named {}", name)));
        }
        self.rule_memo.borrow_mut().insert(name.to_string(), st);
        Ok(st)
    }
}

/// Result of evaluating a whole file on a document.
#[derive(Clone, Debug, PartialEq)]
pub enum Exp {
    Ok(St, Vec<(String, St)>),
    Err(String),
}
impl Exp {
    pub fn short(&self) -> String {
        match self {
            Exp::Ok(f, rs) => format!(
                "file={} {}",
                f.txt(),
                rs.iter().map(|(n, s)| format!("{}={}", n, s.txt())).collect::<Vec<_>>().join(" ")
            ),
            Exp::Err(e) => format!("ERR({})", e),
        }
    }
}

pub fn eval_file(file: &File, doc: &V, variant: Variant) -> Exp {
    let sem = Sem::new(file, variant);
    *sem.root.borrow_mut() = Some(doc.clone());
    let fscope = Scope::new(None, doc, &file.lets);
    let mut rules = vec![];
    let (mut p, mut f) = (0, 0);
    if !file.default.is_empty() {
        match sem.cnf(&file.default, doc, &fscope) {
            Ok(s) => {
                match s {
                    St::Pass => p += 1,
                    St::Fail => f += 1,
                    St::Skip => {}
                }
                rules.push(("default".to_string(), s));
            }
            Err(e) => return Exp::Err(e.0),
        }
    }
    for r in &file.rules {
        if r.params.is_some() {
            continue;
        }
        match sem.rule_body(r, doc, &fscope) {
            Ok(s) => {
                match s {
                    St::Pass => p += 1,
                    St::Fail => f += 1,
                    St::Skip => {}
                }
                rules.push((r.name.clone(), s));
            }
            Err(e) => return Exp::Err(e.0),
        }
    }
    let fs = if f > 0 {
        St::Fail
    } else if p > 0 {
        St::Pass
    } else {
        St::Skip
    };
    Exp::Ok(fs, rules)
}
