//! C19 — generated rules describe the template they were generated from (DESIGN 5/C19).
use crate::c01::Acc;
use crate::cli::*;
use crate::evidence::Report;
use crate::impl_::{lib_run, Obs, St};
use crate::val::*;
use crate::yamlw::{write, Layout};
use serde_json::json;
use std::collections::BTreeSet;

const TYPES: [&str; 3] = ["AWS::S3::Bucket", "AWS::EC2::Volume", "Custom::Thing"];

fn values() -> Vec<V> {
    vec![s("s"), s("s t"), i(5), V::Bool(true), s("5"), f(1.5), i(-5), l(vec![i(1), s("a")]), m(vec![("k", i(1))]), V::Null, s(" s"), s("q\"t"), s("b\\"), s("it's"), f(-1.5), s(""), s("true"), s("make\tall"), i(0), s("0"), f(0.0), i(9007199254740993), l(vec![]), V::Map(vec![]), m(vec![("Rules", l(vec![]))]), l(vec![V::Map(vec![]), l(vec![])])]
}

#[derive(Clone, Debug)]
struct Res {
    ty: Option<usize>,
    props: Option<Vec<(String, V)>>,
}

fn template(rs: &[Res]) -> V {
    let mut resources = vec![];
    for (k, r) in rs.iter().enumerate() {
        let mut fields: Vec<(String, V)> = vec![];
        if let Some(t) = r.ty {
            fields.push(("Type".into(), s(TYPES[t])));
        }
        if let Some(p) = &r.props {
            fields.push(("Properties".into(), V::Map(p.clone())));
        }
        resources.push((format!("r{}", k), V::Map(fields)));
    }
    V::Map(vec![("Resources".into(), V::Map(resources))])
}

fn templates(thorough: bool) -> Vec<(Vec<Res>, &'static str)> {
    let vals = values();
    let nscalar = if thorough { vals.len() } else { 12 };
    let mut out: Vec<(Vec<Res>, &'static str)> = vec![];
    // one resource, one property, every value x property name
    for v in &vals {
        for pn in ["P", "Q", "P-Q"] {
            out.push((vec![Res { ty: Some(0), props: Some(vec![(pn.into(), v.clone())]) }], "one"));
        }
    }
    // two resources of one type: all pairs of values (repeat / distinct patterns), same and different property
    for a in &vals[..nscalar] {
        for b in &vals[..nscalar] {
            out.push((vec![Res { ty: Some(0), props: Some(vec![("P".into(), a.clone())]) }, Res { ty: Some(0), props: Some(vec![("P".into(), b.clone())]) }], "two-same-type"));
            out.push((vec![Res { ty: Some(0), props: Some(vec![("P".into(), a.clone()), ("Q".into(), b.clone())]) }], "two-props"));
            out.push((vec![Res { ty: Some(0), props: Some(vec![("P".into(), a.clone())]) }, Res { ty: Some(1), props: Some(vec![("P".into(), b.clone())]) }], "two-types"));
        }
    }
    // three resources over up to three types, values from a well-behaved subset (repeat / distinct patterns)
    let good: Vec<V> = if thorough { vec![s("s"), i(5), V::Bool(true), s("s t"), s("5"), f(1.5), i(-5), V::Null, s("it's"), s(""), l(vec![]), m(vec![("k", i(1))])] } else { vec![s("s"), i(5), V::Bool(true), s("s t")] };
    for a in &good {
        for b in &good {
            for c in &good {
                for tys in [[0, 0, 0], [0, 0, 1], [0, 1, 2], [0, 1, 0]] {
                    out.push((
                        vec![
                            Res { ty: Some(tys[0]), props: Some(vec![("P".into(), a.clone())]) },
                            Res { ty: Some(tys[1]), props: Some(vec![("P".into(), b.clone()), ("Q".into(), c.clone())]) },
                            Res { ty: Some(tys[2]), props: Some(vec![("Q".into(), c.clone())]) },
                        ],
                        "three",
                    ));
                }
            }
        }
    }
    if thorough {
        let good = [s("s"), i(5), V::Bool(true), s("s t")];
        for a in &good {
            for b in &good {
                for c in &good {
                    for d in &good {
                        for tys in [[0, 0, 0, 0, 1], [0, 1, 2, 0, 1], [0, 0, 1, 1, 2]] {
                            out.push((
                                vec![
                                    Res { ty: Some(tys[0]), props: Some(vec![("P".into(), a.clone())]) },
                                    Res { ty: Some(tys[1]), props: Some(vec![("P".into(), b.clone())]) },
                                    Res { ty: Some(tys[2]), props: Some(vec![("P".into(), c.clone()), ("Q".into(), d.clone())]) },
                                    Res { ty: Some(tys[3]), props: Some(vec![("Q".into(), a.clone())]) },
                                    Res { ty: Some(tys[4]), props: Some(vec![("P".into(), d.clone())]) },
                                ],
                                "five",
                            ));
                        }
                    }
                }
            }
        }
    }
    // values that are distinct but equal under some normalisation (letter case, numeric spelling, Unicode composition,
    // prefix, type): two and three resources of one type must keep every one of them
    let near: Vec<V> = vec![s("gp2"), s("GP2"), s("Gp2"), s("5"), s("05"), s("5.0"), i(5), f(5.0), s("true"), s("True"), V::Bool(true), s("\u{e9}"), s("e\u{301}"), s("ab"), s("abc"), s("AB"), i(1), f(1.0), s("1")];
    for a in &near {
        for b in &near {
            if a.json() == b.json() {
                continue;
            }
            out.push((vec![Res { ty: Some(0), props: Some(vec![("P".into(), a.clone())]) }, Res { ty: Some(0), props: Some(vec![("P".into(), b.clone())]) }], "two-near-equal"));
        }
    }
    for w in near.windows(3) {
        out.push((w.iter().map(|v| Res { ty: Some(0), props: Some(vec![("P".into(), v.clone())]) }).collect(), "three-near-equal"));
        out.push((w.iter().rev().map(|v| Res { ty: Some(0), props: Some(vec![("P".into(), v.clone())]) }).collect(), "three-near-equal"));
    }
    // structural edge cases: no properties, no type, empty properties, non-map properties
    out.push((vec![Res { ty: Some(0), props: None }], "no-properties"));
    out.push((vec![Res { ty: Some(0), props: Some(vec![]) }], "empty-properties"));
    out.push((vec![Res { ty: None, props: Some(vec![("P".into(), s("s"))]) }], "no-type"));
    out.push((vec![Res { ty: Some(0), props: Some(vec![("P".into(), s("s"))]) }, Res { ty: None, props: None }], "one-without-type-and-properties"));
    out.push((vec![], "no-resources"));
    out
}

fn rule_name(ty: &str) -> String {
    ty.replace("::", "_").to_lowercase()
}

pub fn run(tier: &str) -> i32 {
    let thorough = tier == "thorough";
    let mut rep = Report::new("C19", tier);
    let ts = templates(thorough);
    let cap = if thorough { 60_000 } else { 4_000 };
    let n = ts.len().min(cap);
    if ts.len() > cap {
        rep.caps_hit.push(format!("template cap {} of {}", cap, ts.len()));
    }
    let fmts = ["json", "yaml"];
    let res = crate::par::run(n * fmts.len(), rep.seed as u64, crate::par::deadline_secs(if thorough { 3000 } else { 45 }), Acc::new, |k, acc| {
        let (ti, fmt) = (k / fmts.len(), fmts[k % fmts.len()]);
        let (rs, class) = &ts[ti];
        let tv = template(rs);
        let text = if fmt == "json" { tv.json() } else { write(&tv, &Layout::new("block")).0 };
        let tp = put(&format!("c19/t.{}", fmt), &text);
        let p = cli_proc(&sv(&["rulegen", "-t", &tp]), "", &[], None, 10_000);
        acc.traces += 1;
        let replay = |exp: &str, obs: String| json!({"kind":"proc","argv":["rulegen","-t",format!("t.{}", fmt)],"files":{"template":text},"expected":exp,"observed":obs});
        // (0) no crash
        if p.status < 0 || p.status == 101 || p.status == 134 {
            *acc.outcomes.entry("crash".into()).or_insert(0) += 1;
            let site = if p.err.contains("rulegen.rs") && p.err.contains("unwrap") { "Type-missing-unwrap" } else { "other" };
            acc.violate(&format!("crash:{}:{}", class, site), format!("rulegen exits {} on `{}`: {}", p.status, text.trim(), p.err.lines().next().unwrap_or("")), replay("an error report or rules", format!("status {} stderr {}", p.status, p.err.chars().take(200).collect::<String>())));
            return;
        }
        // (1) reports an error: a diagnostic and no rules
        if p.out.trim().is_empty() {
            let expected_rules = rs.iter().any(|r| r.ty.is_some() && r.props.as_ref().map_or(false, |p| !p.is_empty()));
            if !p.err.trim().is_empty() || !expected_rules {
                *acc.outcomes.entry(if p.err.trim().is_empty() { "nothing-to-generate" } else { "error-reported" }.into()).or_insert(0) += 1;
            } else {
                acc.violate(&format!("silent:{}", class), format!("rulegen prints neither rules nor an error for `{}`", text.trim()), replay("rules or an error", "nothing".into()));
            }
            return;
        }
        *acc.outcomes.entry("rules-emitted".into()).or_insert(0) += 1;
        acc.nontrivial += 1;
        // (2) the text parses and has one rule per resource type that has properties
        let o = lib_run(&p.out, &tv.json());
        acc.traces += 1;
        let want_types: BTreeSet<String> = rs.iter().filter(|r| r.props.as_ref().map_or(false, |p| !p.is_empty())).filter_map(|r| r.ty.map(|t| rule_name(TYPES[t]))).collect();
        let rules = match &o {
            Obs::Ok(_, rsx) => rsx.clone(),
            other => {
                acc.violate(&format!("emitted-rules-unusable:{}", class), format!("emitted rules do not evaluate on their own template: {} | rules `{}` template `{}`", other.short(), p.out.trim(), text.trim()), replay("rules that parse and evaluate", other.short()));
                return;
            }
        };
        let got_types: BTreeSet<String> = rules.iter().map(|(n, _)| n.clone()).collect();
        if got_types != want_types || rules.len() != want_types.len() {
            acc.violate(&format!("rule-per-type:{}", class), format!("rules {:?} for resource types with properties {:?} | template `{}`", rules, want_types, text.trim()), replay(&format!("{:?}", want_types), format!("{:?}", got_types)));
        }
        // (3) the source template passes every emitted rule
        for (nme, st) in &rules {
            if *st != St::Pass {
                let cause = classify(rs, (0..TYPES.len()).find(|t| rule_name(TYPES[*t]) == *nme));
                acc.violate(&format!("own-template-not-PASS:{}", cause), format!("rule {} is {} on the template it was generated from | rules `{}` template `{}`", nme, st.txt(), p.out.trim(), text.trim()), replay("PASS", st.txt().into()));
            }
        }
        // (3') the same through the validate command on the template file as written (its loader is not the library's)
        {
            let gp = put(&format!("c19/gen_{}.guard", fmt), &p.out);
            let vo = cli_inproc(&sv(&["validate", "-r", &gp, "-d", &tp, "-S", "all"]), "");
            acc.traces += 1;
            let table = crate::report::parse_plain(&vo.out, "sls");
            let mut not_pass: Vec<String> = vec![];
            for tb in &table.tables {
                not_pass.extend(tb.fail.iter().cloned());
                not_pass.extend(tb.skip.iter().cloned());
            }
            let lib_all_pass = rules.iter().all(|(_, st)| *st == St::Pass);
            if lib_all_pass && (vo.panic.is_some() || !not_pass.is_empty() || vo.status() != 0) {
                acc.violate(&format!("own-template-not-PASS:validate-command:{}", classify(rs, None)), format!("the emitted rules PASS on the template through the library but `validate` gives exit {} with {:?} not PASS | rules `{}` template `{}`", vo.status(), not_pass, p.out.trim(), text.trim()), replay("PASS, exit 0", format!("exit {} not PASS {:?}", vo.status(), not_pass)));
            }
        }
        // (2b) --output FILE: the file holds exactly this run's rules, whatever it held before (absent / shorter / longer)
        if fmt == "json" && (thorough || ti % 8 == 0) {
            for (stale_name, stale) in [("absent", None), ("shorter", Some("# old\n".to_string())), ("longer", Some(format!("# STALE-CONTENT\nrule stale_rule {{ a exists }}\n{}", "# STALE-TAIL }} )) \n".repeat(400))))] {
                let op = workdir().join("c19/out.guard");
                let _ = std::fs::remove_file(&op);
                if let Some(st) = &stale {
                    put("c19/out.guard", st);
                }
                let ops = op.to_string_lossy().to_string();
                let po = cli_proc(&sv(&["rulegen", "-t", &tp, "-o", &ops]), "", &[], None, 10_000);
                acc.traces += 1;
                let content = std::fs::read_to_string(&op).unwrap_or_default();
                // (two runs may order values differently, so the comparison is on the rule names, not on verdicts)
                let norm = |o: &Obs| match o {
                    Obs::Ok(_, rsx) => {
                        let mut r: Vec<String> = rsx.iter().map(|(n, _)| n.clone()).collect();
                        r.sort();
                        format!("rules {:?}", r)
                    }
                    other => other.short(),
                };
                let of = lib_run(&content, &tv.json());
                if po.status != p.status || content.contains("STALE") || content.contains("# old") || norm(&of) != norm(&o) {
                    acc.violate(&format!("output-file:{}", stale_name), format!("rulegen -o FILE with the file {} beforehand: exit {} and the file evaluates to {} where the rules printed to stdout give {} (stale content kept: {})", stale_name, po.status, of.short(), o.short(), content.contains("STALE") || content.contains("# old")), json!({"kind":"proc","argv":["rulegen","-t","t.json","-o","out.guard"],"files":{"template":text,"out.guard before":stale},"expected":"the file holds exactly the generated rules","observed":content.chars().take(300).collect::<String>()}));
                }
            }
        }
        // (4) changing a scalar property value to a value not present makes the rule FAIL
        if rules.iter().all(|(_, st)| *st == St::Pass) {
            for (ri, r) in rs.iter().enumerate() {
                if let (Some(t), Some(props)) = (r.ty, &r.props) {
                    for (pi, (_, v)) in props.iter().enumerate() {
                        // a far value and, for numbers, both neighbours
                        let fresh_all: Vec<V> = match v {
                            V::Str(x) => vec![s("zz-not-present"), s(&format!("{}x", x))],
                            V::Int(n) => vec![Some(i(424242)), n.checked_add(1).map(i), n.checked_sub(1).map(i)].into_iter().flatten().collect(),
                            V::Float(x) => vec![f(4242.5), f(x + 0.5)],
                            V::Bool(b) => vec![V::Bool(!b)],
                            _ => continue,
                        };
                        for fresh in fresh_all {
                        // skip when the fresh value is present for the same type / property elsewhere
                        let pname = &props[pi].0;
                        let present = rs.iter().any(|o2| o2.ty == Some(t) && o2.props.as_ref().map_or(false, |pp| pp.iter().any(|(n2, v2)| n2 == pname && *v2 == fresh)));
                        if present {
                            continue;
                        }
                        let mut rs2 = rs.clone();
                        rs2[ri].props.as_mut().unwrap()[pi].1 = fresh.clone();
                        let t2 = template(&rs2);
                        let o2 = lib_run(&p.out, &t2.json());
                        acc.traces += 1;
                        let st = match &o2 {
                            Obs::Ok(_, rr) => rr.iter().find(|(n2, _)| *n2 == rule_name(TYPES[t])).map(|(_, s2)| *s2),
                            _ => None,
                        };
                        if st != Some(St::Fail) {
                            acc.violate(&format!("change-not-detected:{}", class), format!("changing {}.{} from {} to {} leaves rule {} {:?} | rules `{}`", TYPES[t], pname, v.json(), fresh.json(), rule_name(TYPES[t]), st, p.out.trim()), json!({"kind":"lib","rules":p.out,"data":t2.json(),"expected":"FAIL","observed":format!("{:?}", st)}));
                        }
                        }
                    }
                }
            }
        }
    }, Acc::merge);
    rep.states = res.done as u64;
    rep.transitions = res.acc.traces;
    if res.capped {
        rep.caps_hit.push(format!("wall-clock cap: {} of {} templates", res.done, n * 2));
    }
    rep.distinct_nontrivial = res.acc.nontrivial;
    rep.extra.insert("templates".into(), json!(n));
    rep.samples.push(json!({"template": template(&ts[40].0).json(), "class": ts[40].1}));
    rep.samples.push(json!({"template": template(&ts[ts.len() - 8].0).json(), "class": ts[ts.len() - 8].1}));
    rep.rule = "states = (CloudFormation-shaped template: 1..3 (quick) / 1..5 (thorough) resources over 3 types, property names P / Q / P-Q, an alphabet of 18 values in all repeat / distinct patterns, JSON and YAML); rulegen runs as a child process; it must report an error or emit text that parses, has one rule per resource type with properties and is PASS on its own template, and every single scalar change to a value not present for that type and property must make the corresponding rule FAIL; distinct_nontrivial = templates for which rules were emitted".into();
    rep.assumptions = vec!["'reports an error' = a diagnostic on stderr and no rules on stdout (rulegen exits 0 in that case)".into()];
    let mut rep = rep;
    let acc = res.acc;
    acc.into_report(&mut rep);
    cleanup_workdirs();
    rep.finish()
}

/// which input shape makes the emitted rule disagree with its own template (first cause in a fixed priority order;
/// these are the signatures of the recorded findings)
/// the cause class of a rule that is not PASS on its own template, judged on the resources of that rule's type only (a known
/// finding about one type must not hide a failure of another type's rule)
fn classify(rs: &[Res], ty: Option<usize>) -> String {
    let of_type: Vec<&Res> = rs.iter().filter(|r| ty.is_none() || r.ty == ty).collect();
    // a property set for some but not all resources of the type
    let sets: Vec<BTreeSet<&String>> = of_type.iter().filter_map(|r| r.props.as_ref()).filter(|p| !p.is_empty()).map(|p| p.iter().map(|(n, _)| n).collect()).collect();
    if sets.windows(2).any(|w| w[0] != w[1]) {
        return "property-absent-in-some-resources-of-the-type".into();
    }
    // resources of the type without any properties next to resources with properties
    let without = of_type.iter().any(|r| r.props.as_ref().map_or(true, |p| p.is_empty()));
    if without && !sets.is_empty() {
        return "property-absent-in-some-resources-of-the-type".into();
    }
    let vals: Vec<&V> = of_type.iter().filter_map(|r| r.props.as_ref()).flat_map(|p| p.iter().map(|(_, v)| v)).collect();
    if vals.iter().any(|v| matches!(v, V::Str(x) if x.trim() != x)) {
        return "string-trimmed".into();
    }
    if vals.iter().any(|v| matches!(v, V::Str(x) if x.contains('\n'))) {
        return "newline-removed".into();
    }
    if vals.iter().any(|v| matches!(v, V::Str(x) if x.contains('"') || x.contains('\\'))) {
        return "quote-or-backslash-unescaped".into();
    }
    // a property that holds a list or map in one resource and a different value in another resource of the type
    let mut by_prop: std::collections::BTreeMap<&String, Vec<&V>> = Default::default();
    for r in &of_type {
        for (n, v) in r.props.iter().flatten() {
            by_prop.entry(n).or_default().push(v);
        }
    }
    if by_prop.values().any(|vs| vs.iter().any(|v| matches!(v, V::List(_) | V::Map(_))) && vs.iter().any(|v| v.json() != vs[0].json())) {
        return "structured-value-among-several".into();
    }
    if vals.iter().any(|v| matches!(v, V::List(_) | V::Map(_))) {
        return "structured-value".into();
    }
    if vals.iter().any(|v| matches!(v, V::Null)) {
        return "null-value".into();
    }
    "other".into()
}
