//! Evidence files, replay artefacts, known-finding matching, VIOLATION protocol.
use serde_json::{json, Value};
use std::collections::BTreeMap;
use std::time::Instant;

pub fn verif_dir() -> String {
    std::env::var("GMC_VERIF").unwrap_or_else(|_| "/verif".to_string())
}

#[derive(Clone, Debug)]
pub struct Violation {
    /// defect-class key, e.g. "binary-prefix-not"; matched against known_findings.json
    pub signature: String,
    pub what: String,
    pub replay: Value,
}

pub struct Report {
    pub id: String,
    pub tier: String,
    pub seed: i64,
    pub start: Instant,
    pub states: u64,
    pub transitions: u64,
    pub traces: u64,
    pub distinct_nontrivial: u64,
    pub rule: String,
    pub samples: Vec<Value>,
    pub outcomes: BTreeMap<String, u64>,
    pub extra: BTreeMap<String, Value>,
    pub exhaustive: bool,
    pub caps_hit: Vec<String>,
    pub assumptions: Vec<String>,
    pub violations: Vec<Violation>,
    /// number of violations per signature (all, before de-duplication for printing)
    pub viol_counts: BTreeMap<String, u64>,
}

impl Report {
    pub fn new(id: &str, tier: &str) -> Report {
        Report {
            id: id.to_string(),
            tier: tier.to_string(),
            seed: std::env::var("VERIF_SEED").ok().and_then(|s| s.parse().ok()).unwrap_or(0),
            start: Instant::now(),
            states: 0,
            transitions: 0,
            traces: 0,
            distinct_nontrivial: 0,
            rule: String::new(),
            samples: vec![],
            outcomes: BTreeMap::new(),
            extra: BTreeMap::new(),
            exhaustive: true,
            caps_hit: vec![],
            assumptions: vec![],
            violations: vec![],
            viol_counts: BTreeMap::new(),
        }
    }
    pub fn outcome(&mut self, k: &str, n: u64) {
        *self.outcomes.entry(k.to_string()).or_insert(0) += n;
    }
    pub fn violate(&mut self, signature: &str, what: String, replay: Value) {
        let c = self.viol_counts.entry(signature.to_string()).or_insert(0);
        *c += 1;
        // keep the first few per signature (BFS order => smallest first)
        if *c <= 3 {
            self.violations.push(Violation { signature: signature.to_string(), what, replay });
        }
    }
    pub fn merge_violations(&mut self, vs: Vec<Violation>) {
        for v in vs {
            self.violate(&v.signature.clone(), v.what, v.replay);
        }
    }

    /// Writes evidence, prints KNOWN-FINDING / VIOLATION lines, returns the process exit code.
    pub fn finish(mut self) -> i32 {
        let dir = verif_dir();
        let known = load_known(&dir);
        let mut exit = 0;
        let mut unknown = 0u64;
        let mut known_matched: BTreeMap<String, u64> = BTreeMap::new();
        let mut printed_known = std::collections::BTreeSet::new();
        std::fs::create_dir_all(format!("{}/replays", dir)).ok();
        for v in &self.violations {
            let full = format!("{}:{}", self.id, v.signature);
            let n = *self.viol_counts.get(&v.signature).unwrap_or(&1);
            if let Some(k) = known.iter().find(|k| k.status == "open" && k.property == self.id && k.signature == v.signature) {
                known_matched.insert(full.clone(), n);
                if printed_known.insert(full.clone()) {
                    // a replay artefact for the recorded finding as well (smallest case of this run)
                    let h = fnv(&format!("{}{}", v.signature, v.replay));
                    let path = format!("{}/replays/{}-known-{:08x}.json", dir, self.id, h as u32);
                    let body = json!({"property": self.id, "signature": v.signature, "what": v.what, "replay": v.replay, "known_finding": true});
                    std::fs::write(&path, serde_json::to_string_pretty(&body).unwrap()).ok();
                    println!("KNOWN-FINDING: property={} {} [{}; {} case(s) this run; replay={}]", self.id, k.what, v.signature, n, path);
                }
            } else {
                unknown += 1;
                let h = fnv(&format!("{}{}", v.signature, v.replay));
                let path = format!("{}/replays/{}-{:08x}.json", dir, self.id, h as u32);
                let body = json!({"property": self.id, "signature": v.signature, "what": v.what, "replay": v.replay});
                std::fs::write(&path, serde_json::to_string_pretty(&body).unwrap()).ok();
                println!("VIOLATION property={} replay={}", self.id, path);
                println!("  signature={} cases={} :: {}", v.signature, n, v.what);
                exit = 1;
            }
        }
        // vacuity guard: fewer than two distinct outcome classes = the harness collided nothing
        let vac = self.outcomes.len() < 2;
        let wall = self.start.elapsed().as_secs_f64();
        if self.samples.is_empty() {
            self.samples.push(json!("(no sample recorded)"));
        }
        let mut cov = json!({
            "states": self.states,
            "transitions": self.transitions,
            "traces_validated_against_impl": self.traces,
            "evaluations": self.traces,
            "distinct_nontrivial": self.distinct_nontrivial,
            "rule": self.rule,
            "samples": self.samples,
            "exhaustive": self.exhaustive && self.caps_hit.is_empty(),
            "caps_hit": self.caps_hit,
            "distinct_outcomes": self.outcomes,
            "violations_by_signature": self.viol_counts,
            "known_findings_matched": known_matched,
        });
        for (k, v) in &self.extra {
            cov[k] = v.clone();
        }
        let ev = json!({
            "property_id": self.id,
            "tier": self.tier,
            "seed": self.seed,
            "level": "model_checking",
            "coverage": cov,
            "assumptions": self.assumptions,
            "wall_s": wall,
            "violations": unknown,
        });
        std::fs::create_dir_all(format!("{}/evidence", dir)).ok();
        let p = format!("{}/evidence/{}.json", dir, self.id);
        std::fs::write(&p, serde_json::to_string_pretty(&ev).unwrap()).expect("write evidence");
        if self.tier == "thorough" {
            // keep the deep run's record next to the quick one (evidence/<id>.json is rewritten by every run)
            std::fs::create_dir_all(format!("{}/evidence-thorough", dir)).ok();
            std::fs::write(format!("{}/evidence-thorough/{}.json", dir, self.id), serde_json::to_string_pretty(&ev).unwrap()).ok();
        }
        println!(
            "{} tier={} states={} transitions={} traces={} outcomes={:?} wall={:.1}s exhaustive={} violations={}",
            self.id,
            self.tier,
            self.states,
            self.transitions,
            self.traces,
            self.outcomes,
            wall,
            self.exhaustive && self.caps_hit.is_empty(),
            unknown
        );
        if vac && exit == 0 {
            eprintln!("MACHINERY: vacuous exploration (fewer than two distinct outcome classes)");
            return 2;
        }
        exit
    }
}

#[derive(Clone, Debug)]
pub struct Known {
    pub property: String,
    pub signature: String,
    pub status: String, // "open" | "fixed"
    pub what: String,
}

pub fn load_known(dir: &str) -> Vec<Known> {
    let p = format!("{}/known_findings.json", dir);
    let mut out = vec![];
    if let Ok(t) = std::fs::read_to_string(&p) {
        if let Ok(v) = serde_json::from_str::<Value>(&t) {
            if let Some(a) = v.get("findings").and_then(|f| f.as_array()) {
                for f in a {
                    out.push(Known {
                        property: f["property"].as_str().unwrap_or("").to_string(),
                        signature: f["signature"].as_str().unwrap_or("").to_string(),
                        status: f["status"].as_str().unwrap_or("open").to_string(),
                        what: f["what"].as_str().unwrap_or("").to_string(),
                    });
                }
            }
        }
    }
    out
}

pub fn fnv(s: &str) -> u64 {
    let mut h: u64 = 0xcbf29ce484222325;
    for b in s.as_bytes() {
        h ^= *b as u64;
        h = h.wrapping_mul(0x100000001b3);
    }
    h
}
