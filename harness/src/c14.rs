//! C14 — alternative spellings, layout and comments do not change a rule file's meaning (DESIGN 5/C14).
use crate::ast::*;
use crate::c01::Acc;
use crate::cli::*;
use crate::evidence::Report;
use crate::impl_::{lib_run, Obs};
use crate::p2::*;
use crate::universe::*;
use crate::val::*;
use serde_json::{json, Value};

fn strip(v: &Value) -> Value {
    match v {
        Value::Object(m) => {
            let mut o = serde_json::Map::new();
            for (k, x) in m {
                if k == "location" {
                    continue;
                }
                o.insert(k.clone(), strip(x));
            }
            // {"query": [...parts...], "match_all": b}: a leading `This` followed by more parts is the documented synonym
            Value::Object(o)
        }
        Value::Array(a) => {
            let mut items: Vec<Value> = a.iter().map(strip).collect();
            if items.len() > 1 && items[0] == Value::String("This".into()) && items[1].is_object() && (items[1].get("Key").is_some()) {
                items.remove(0);
            }
            Value::Array(items)
        }
        x => x.clone(),
    }
}

fn parse_tree(text: &str) -> Result<Value, String> {
    let o = cli_inproc(&sv(&["parse-tree", "--print-json"]), text);
    if let Some(p) = o.panic {
        return Err(format!("panic {}", p));
    }
    match o.code {
        Ok(0) => serde_json::from_str::<Value>(&o.out).map(|v| strip(&v)).map_err(|e| format!("parse-tree output not JSON: {}", e)),
        Ok(c) => Err(format!("exit {}", c)),
        Err(e) => Err(e),
    }
}

#[derive(Clone)]
pub struct Variant {
    pub label: String,
    pub apply: std::sync::Arc<dyn Fn(&mut Style) + Send + Sync>,
}
fn var(label: &str, f: impl Fn(&mut Style) + Send + Sync + 'static) -> Variant {
    Variant { label: label.to_string(), apply: std::sync::Arc::new(f) }
}

pub fn variants() -> Vec<Variant> {
    let mut v = vec![
        var("not=NOT", |s| s.not = "NOT "),
        var("not=!", |s| s.not = "!"),
        var("or=OR", |s| s.or = "OR"),
        var("or=|OR|", |s| s.or = "|OR|"),
        var("assign=:=", |s| s.assign = ":="),
        var("quote='", |s| s.quote = '\''),
        var("idx=.n", |s| s.idx_dot = true),
        var("lead-this", |s| s.lead_this = true),
        var("indent=none", |s| s.indent = ""),
        var("indent=tab", |s| s.indent = "\t"),
        var("blank-lines", |s| s.blank_lines = true),
        var("trailing-spaces", |s| s.trailing_ws = true),
        var("break-after-or", |s| s.or_break = true),
        var("break-in-lists", |s| s.list_break = true),
        var("break-in-filters", |s| s.filter_break = true),
        var("space-before-list-commas", |s| s.list_comma_first = 1),
        var("comma-first-lists", |s| s.list_comma_first = 2),
        var("opneg=not", |s| s.opneg_bang = false),
        var("eol-comments", |s| s.eol_comment = true),
        var("comment-lines", |s| s.comment_lines = true),
        var("crlf", |s| s.crlf = true),
    ];
    for (bit, name) in [(KW_WHEN, "WHEN"), (KW_IN, "IN"), (KW_EXISTS, "EXISTS"), (KW_EMPTY, "EMPTY"), (KW_IS, "IS_*"), (KW_SOME, "SOME"), (KW_THIS, "THIS"), (KW_KEYS, "KEYS"), (KW_BOOL, "True/False"), (KW_NULL, "NULL")] {
        v.push(var(&format!("upper:{}", name), move |s| s.upper_kw |= bit));
    }
    v
}

/// ASTs touching every token class
pub fn rich_asts() -> Vec<File> {
    let a = || vec![key("a")];
    let fb = |c: Clause| Part::Filter(vec![vec![c]]);
    let mut out = vec![];
    let c1 = bin(vec![key("a"), Part::All, key("b"), fb(bin(vec![key("c")], BinOp::Eq, false, i(1)))], BinOp::In, false, l(vec![i(1), s("x"), V::Bool(true), V::Null])).with_some(true).with_not(true);
    let c2 = un(vec![Part::This, key("b")], UnOp::Empty, true);
    let c3 = un(vec![key("a"), Part::Idx(0), key("b")], UnOp::IsString, false);
    let c4 = bin(vec![key("a"), Part::KeysFilter(false, BinOp::Eq, V::Regex("^a".into()))], BinOp::Eq, true, s("it's \"q\""));
    let c5 = bin(a(), BinOp::In, true, l(vec![s("x"), s("y")]));
    let c6 = un(vec![key("b")], UnOp::Exists, true).with_not(true);
    let c7 = bin(vec![key("a"), Part::Star, key("b")], BinOp::Le, false, f(1.5));
    let mut r0 = rule("r0", vec![vec![c1.clone(), c2.clone()], vec![c3.clone()], vec![Clause::When { cond: vec![vec![un(a(), UnOp::Exists, false)]], lets: vec![Let { name: "w".into(), val: Arg::Q(true, vec![key("a"), Part::All]) }], body: vec![vec![un(vec![Part::Var("w".into())], UnOp::IsList, true), c5.clone()]] }]]);
    r0.when = Some(vec![vec![un(a(), UnOp::Exists, false), un(vec![key("b")], UnOp::IsNull, false)], vec![c6.clone()]]);
    r0.lets = vec![Let { name: "v".into(), val: Arg::Lit(l(vec![i(1), i(2)])) }, Let { name: "q".into(), val: Arg::Q(false, vec![key("a"), Part::All, key("b")]) }];
    let r1 = rule("r1", vec![vec![named("r0"), named("r0").with_not(true)], vec![c4.clone()], vec![Clause::Block { some: true, q: vec![key("a"), Part::All], not_empty: false, lets: vec![], body: vec![vec![c7.clone()], vec![un(vec![Part::This], UnOp::IsStruct, false), un(vec![key("b")], UnOp::IsInt, false)]] }]]);
    out.push(File { lets: vec![Let { name: "g".into(), val: Arg::Lit(s("x")) }, Let { name: "h".into(), val: Arg::Q(false, vec![key("a")]) }], rules: vec![r0, r1], default: vec![] });
    // type block + parameterised rule + function call
    let tb = Clause::TypeBlock { tname: "AWS::X::Y".into(), cond: Some(vec![vec![un(vec![key("Resources")], UnOp::Exists, false)]]), lets: vec![], body: vec![vec![un(vec![key("Properties"), key("p")], UnOp::IsString, false), bin(vec![key("Properties"), key("n")], BinOp::In, false, rng_i(1, 5, true, false))]] };
    let pr = Rule { name: "pf".into(), params: Some(vec!["p".into(), "q".into()]), when: None, lets: vec![], body: vec![vec![Clause::Binary { not: false, some: false, q: vec![Part::Var("p".into())], op: BinOp::Eq, opneg: false, rhs: Arg::Q(false, vec![Part::Var("q".into())]), msg: Some("m".into()) }]] };
    let mut r2 = rule("r2", vec![vec![tb], vec![Clause::Call { not: false, name: "pf".into(), args: vec![Arg::Q(false, a()), Arg::Lit(i(1))], msg: None }]]);
    r2.lets = vec![Let { name: "n".into(), val: Arg::Call("count".into(), vec![Arg::Q(false, vec![key("a"), Part::All])]) }];
    out.push(File { lets: vec![], rules: vec![pr, r2], default: vec![] });
    // type blocks without conditions (desugaring comparison), inside a rule and at file level
    let tb0 = Clause::TypeBlock { tname: "AWS::X::Y".into(), cond: None, lets: vec![], body: vec![vec![un(vec![key("Properties"), key("p")], UnOp::IsString, false)], vec![un(vec![key("Properties"), key("n")], UnOp::Exists, false), un(vec![key("Properties")], UnOp::Exists, true)]] };
    out.push(file1(rule("r0", vec![vec![tb0.clone()]])));
    out.push(file1(rule("r0", vec![vec![tb0.clone()], vec![un(vec![key("a")], UnOp::Exists, true)]])));
    // strings holding a backslash directly before a quote character (the escape of the delimiter follows a literal backslash)
    out.push(file1(rule("r0", vec![vec![bin(vec![key("a")], BinOp::Eq, false, s("it\\'s \\\"q\\\" c:\\dir"))], vec![bin(vec![key("a")], BinOp::In, false, l(vec![s("x\\'"), s("\\\"y")]))]])));
    // variables defined inside a type block are evaluated against each matched resource
    let tbl = Clause::TypeBlock { tname: "AWS::X::Y".into(), cond: None, lets: vec![Let { name: "pp".into(), val: Arg::Q(false, vec![key("Properties"), key("p")]) }, Let { name: "cn".into(), val: Arg::Call("count".into(), vec![Arg::Q(false, vec![key("Properties"), Part::Star])]) }], body: vec![vec![un(vec![Part::Var("pp".into())], UnOp::IsString, false)], vec![bin(vec![Part::Var("cn".into())], BinOp::Eq, false, i(2))]] };
    out.push(file1(rule("r0", vec![vec![tbl.clone()]])));
    out.push(file1(rule("r0", vec![vec![tbl], vec![un(vec![key("Resources")], UnOp::Exists, false)]])));
    // a type block whose body is SKIP for every matched resource
    let tbs = Clause::TypeBlock { tname: "AWS::X::Y".into(), cond: None, lets: vec![], body: vec![vec![bin(vec![key("Properties"), key("l"), Part::Filter(vec![vec![bin(vec![key("x")], BinOp::Eq, false, i(9))]]), key("x")], BinOp::Eq, false, i(1))]] };
    out.push(File { lets: vec![], rules: vec![rule("r0", vec![vec![tbs]]), rule("r1", vec![vec![named("r0")]])], default: vec![] });
    // identifiers that begin with a keyword (order, notes, inner, ...) in every clause position
    let kwkeys = ["order", "ORacle", "notes", "NOTE", "inner", "INdex", "whenever", "existsx", "emptyx", "somekey", "thisx", "keysx", "letter", "rules", "is_listed", "nullable", "trueish", "or", "not"];
    let mut lines: Cnf = vec![vec![bin(vec![key("a")], BinOp::Eq, false, i(1))]];
    for kk in kwkeys {
        if kk == "or" || kk == "not" {
            continue;
        }
        lines.push(vec![bin(vec![key(kk)], BinOp::Ge, false, i(1))]);
        lines.push(vec![un(vec![key("a"), key(kk)], UnOp::Exists, true), un(vec![key(kk)], UnOp::Exists, false)]);
    }
    out.push(file1(rule("r0", lines)));
    // default-rule clauses
    out.push(File { lets: vec![Let { name: "g".into(), val: Arg::Lit(i(1)) }], rules: vec![], default: vec![vec![bin(a(), BinOp::Eq, false, i(1)), un(vec![key("b")], UnOp::Exists, false)], vec![c5.clone()]] });
    out.push(File { lets: vec![], rules: vec![rule("r0", vec![vec![c2]])], default: vec![vec![c3]] });
    // filters whose last clause is a block, a when block, a clause with a message (the closing bracket after `}` / `>>`)
    {
        let exq = |k: &str| un(vec![key(k)], UnOp::Exists, false);
        let blk_in = Clause::Block { some: false, q: vec![key("b"), Part::All], not_empty: false, lets: vec![], body: vec![vec![exq("c")]] };
        let when_in = Clause::When { cond: vec![vec![exq("b")]], lets: vec![], body: vec![vec![exq("c"), exq("b")]] };
        let msg_in = bin(vec![key("c")], BinOp::Eq, false, i(1)).with_msg("in filter");
        for last in [blk_in, when_in, msg_in] {
            let f1 = Part::Filter(vec![vec![exq("b")], vec![last.clone()]]);
            let f2 = Part::Filter(vec![vec![last.clone()]]);
            out.push(file1(rule("r0", vec![vec![un(vec![key("a"), f1.clone(), key("b")], UnOp::Exists, false)], vec![un(vec![key("a"), f2.clone()], UnOp::Empty, true)]])));
            out.push(file1(rule("r0", vec![vec![Clause::Block { some: false, q: vec![key("a"), f1], not_empty: false, lets: vec![], body: vec![vec![exq("b")]] }]])));
        }
    }
    // every kind of clause the grammar admits outside a rule, next to named and parameterised rules it can refer to
    let ex = |k: &str| un(vec![key(k)], UnOp::Exists, false);
    let r0s = rule("r0", vec![vec![ex("a")]]);
    let pfs = Rule { name: "pf".into(), params: Some(vec!["p".into()]), when: None, lets: vec![], body: vec![vec![un(vec![Part::Var("p".into())], UnOp::Exists, false)]] };
    let call = Clause::Call { not: false, name: "pf".into(), args: vec![Arg::Q(false, a())], msg: None };
    let blk = Clause::Block { some: false, q: vec![key("a"), Part::All], not_empty: false, lets: vec![], body: vec![vec![ex("b")]] };
    let wh = |cond: Cnf, body: Cnf| Clause::When { cond, lets: vec![], body };
    let tbp = Clause::TypeBlock { tname: "AWS::X::Y".into(), cond: None, lets: vec![], body: vec![vec![ex("Properties")]] };
    let tbw = Clause::TypeBlock { tname: "AWS::X::Y".into(), cond: Some(vec![vec![ex("Resources")]]), lets: vec![], body: vec![vec![ex("Properties")]] };
    let dlines: Vec<Vec<Clause>> = vec![
        vec![ex("a"), ex("b")],
        vec![wh(vec![vec![ex("a")]], vec![vec![named("r0")], vec![ex("b")]])],
        vec![wh(vec![vec![ex("a")]], vec![vec![named("r0"), ex("b")]])],
        vec![wh(vec![vec![ex("a")]], vec![vec![named("r0").with_not(true)], vec![ex("b")]])],
        vec![wh(vec![vec![ex("a")]], vec![vec![call.clone()]])],
        vec![wh(vec![vec![ex("a")]], vec![vec![blk.clone()]])],
        vec![wh(vec![vec![ex("a")]], vec![vec![wh(vec![vec![ex("b")]], vec![vec![ex("a")]])]])],
        vec![wh(vec![vec![named("r0")]], vec![vec![ex("b")]])],
        vec![blk.clone()],
        vec![call.clone()],
        vec![tbp.clone()],
        vec![tbw.clone()],
    ];
    for (k, dl) in dlines.iter().enumerate() {
        out.push(File { lets: vec![], rules: vec![r0s.clone(), pfs.clone()], default: vec![dl.clone()] });
        out.push(File { lets: vec![], rules: vec![r0s.clone(), pfs.clone()], default: vec![dl.clone(), dlines[(k + 5) % dlines.len()].clone()] });
    }
    out
}

fn styled(f: &File, vs: &[&Variant], comment_at: Option<usize>) -> (String, usize) {
    let mut st = Style::default();
    for v in vs {
        (v.apply)(&mut st);
    }
    st.comment_at = comment_at;
    let t = print_file_with(f, &st);
    (t, st.slots.get())
}

fn desugar_type_blocks(f: &File) -> Option<File> {
    fn ds(c: &Clause, changed: &mut bool) -> Clause {
        match c {
            Clause::TypeBlock { tname, cond: None, lets, body } => {
                *changed = true;
                Clause::Block { some: false, q: vec![key("Resources"), Part::Star, Part::Filter(vec![vec![bin(vec![key("Type")], BinOp::Eq, false, V::Str(tname.clone()))]])], not_empty: false, lets: lets.clone(), body: body.clone() }
            }
            x => x.clone(),
        }
    }
    let mut changed = false;
    let mut g = f.clone();
    for r in g.rules.iter_mut() {
        for line in r.body.iter_mut() {
            for alt in line.iter_mut() {
                *alt = ds(alt, &mut changed);
            }
        }
    }
    if changed {
        Some(g)
    } else {
        None
    }
}

pub fn run(tier: &str) -> i32 {
    let thorough = tier == "thorough";
    let mut rep = Report::new("C14", tier);
    let vars = variants();
    let g = Gen::standard(true);
    let b = bfs(&g, 3, 60_000);
    let mut asts = rich_asts();
    let small: Vec<File> = b.levels[0].iter().chain(b.levels[1].iter()).cloned().collect();
    let nrich = asts.len();
    asts.extend(small.iter().step_by(if thorough { 1 } else { 9 }).cloned());
    let l3 = &b.levels[2];
    asts.extend(l3.iter().step_by((l3.len() / if thorough { 2500 } else { 60 }).max(1)).cloned());
    let docs = docs_quick();
    let mut djs: Vec<String> = docs.iter().step_by(4).map(|d| d.json()).collect();
    djs.push(r#"{"a":1,"order":10,"ORacle":0,"notes":1,"NOTE":2,"inner":1,"INdex":1,"whenever":1,"existsx":1,"emptyx":0,"somekey":5,"thisx":1,"keysx":1,"letter":1,"rules":1,"is_listed":1,"nullable":1,"trueish":1,"der":0,"es":0}"#.to_string());
    djs.push(r#"{"a":{"order":1},"order":0,"der":10}"#.to_string());
    // list elements whose keys also exist at the root with other values (an explicit `this.` inside a filter is the element)
    djs.push(r#"{"a":[{"b":1,"c":1,"a":1},{"b":2,"a":2}],"b":2,"c":3}"#.to_string());
    djs.push(r#"{"a":[{"b":2,"a":[{"b":1}]}],"b":1}"#.to_string());
    djs.push(r#"{"a":[{"b":[{"c":1},{"c":2}]},{"b":[{"c":2}]}],"b":[{"c":3}],"c":1}"#.to_string());
    // documents whose keys are spelled in another case than the rules spell them (the keys are then found through the
    // case conversions, at the head of a query, below it and inside filters): every spelling variant must still agree
    djs.push(r#"{"A":{"B":1,"C":2},"B":2,"c":1}"#.to_string());
    djs.push(r#"{"A":[{"B":1,"C":1},{"B":2}],"B":[1,2],"C":{"A":1}}"#.to_string());
    djs.push(r#"{"a":{"B":1},"A":{"b":2},"b":{"A":{"B":1}}}"#.to_string());
    let n = asts.len();
    let res = crate::par::run(n, rep.seed as u64, crate::par::deadline_secs(if thorough { 3000 } else { 45 }), Acc::new, |k, acc| {
        let f = &asts[k];
        let (canon, nslots) = styled(f, &[], None);
        let base = match parse_tree(&canon) {
            Ok(v) => v,
            Err(e) => {
                acc.violate("canonical-rejected", format!("canonical spelling rejected: {} | `{}`", e, canon.trim()), json!({"kind":"parse-tree","rules":canon,"expected":"accepted","observed":e}));
                return;
            }
        };
        acc.traces += 1;
        let base_verdicts: Vec<Obs> = djs.iter().map(|d| lib_run(&canon, d)).collect();
        let mut check = |label: String, text: String, acc: &mut Acc| {
            acc.traces += 1;
            acc.nontrivial += 1;
            if text == canon {
                *acc.outcomes.entry("identical-text".into()).or_insert(0) += 1;
                return;
            }
            let kind = label.split('+').next().unwrap_or("").split('@').next().unwrap_or("").to_string();
            match parse_tree(&text) {
                Err(e) => {
                    *acc.outcomes.entry("rejected".into()).or_insert(0) += 1;
                    acc.violate(&format!("rejected:{}", kind), format!("[{}] spelling rejected: {} | `{}`", label, e.chars().take(200).collect::<String>(), text.trim()), json!({"kind":"parse-tree","rules":text,"canonical":canon,"expected":"same parse tree as the canonical spelling","observed":e}));
                }
                Ok(v) => {
                    if v != base {
                        *acc.outcomes.entry("different-tree".into()).or_insert(0) += 1;
                        acc.violate(&format!("different-parse:{}", kind), format!("[{}] parses to a different program | `{}` vs canonical `{}`", label, text.trim(), canon.trim()), json!({"kind":"parse-tree","rules":text,"canonical":canon,"expected":"same parse tree","observed":"different"}));
                    } else {
                        *acc.outcomes.entry("same-tree".into()).or_insert(0) += 1;
                    }
                    // verdicts (the `this.` synonym is normalised in the tree, so verdict equality carries weight there)
                    for (di, d) in djs.iter().enumerate() {
                        let o = lib_run(&text, d);
                        acc.traces += 1;
                        if o.class() != base_verdicts[di].class() || o.short() != base_verdicts[di].short() && !matches!(o, Obs::Err(_)) {
                            acc.violate(&format!("different-verdict:{}", kind), format!("[{}] verdict {} vs canonical {} on {} | `{}`", label, o.short(), base_verdicts[di].short(), d, text.trim()), json!({"kind":"lib2","rules":canon,"rules2":text,"data":d,"expected":base_verdicts[di].short(),"observed":o.short()}));
                        }
                    }
                }
            }
        };
        // deviation 1: every token class alone
        for v in &vars {
            let (t, _) = styled(f, &[v], None);
            check(v.label.clone(), t, acc);
        }
        // the end of the text: no final line break; a comment as the very last thing, without a line break after it
        check("eof-no-newline".into(), canon.trim_end_matches('\n').to_string(), acc);
        check("eof-comment-no-newline".into(), format!("{} # the end", canon.trim_end_matches('\n')), acc);
        check("eof-comment-line-no-newline".into(), format!("{}# the end", canon), acc);
        // a comment at every inter-token slot
        for slot in 0..nslots {
            let (t, _) = styled(f, &[], Some(slot));
            check(format!("comment@slot{}", slot), t, acc);
        }
        // deviation 2: all pairs of classes on the rich and the smallest ASTs
        if k < nrich || k % 5 == 0 || thorough {
            for x in 0..vars.len() {
                for y in x + 1..vars.len() {
                    let (t, _) = styled(f, &[&vars[x], &vars[y]], None);
                    check(format!("{}+{}", vars[x].label, vars[y].label), t, acc);
                }
            }
        }
        // type block == Resources.*[ Type == 'T' ] { ... }
        if let Some(df) = desugar_type_blocks(f) {
            let dt = print_file(&df);
            for d in cfn_docs() {
                let (a, b2) = (lib_run(&canon, &d), lib_run(&dt, &d));
                acc.traces += 2;
                if a.short() != b2.short() && !(matches!(a, Obs::Err(_)) && matches!(b2, Obs::Err(_))) {
                    // F10: the type block raises an error where its desugaring FAILs, exactly when `Resources.*` does not
                    // resolve (Resources absent or empty); anything else is a different defect
                    let unresolved = !d.contains("\"Resources\":{\"r");
                    let sig = if matches!(a, Obs::Err(_)) && matches!(b2, Obs::Ok(crate::impl_::St::Fail, _)) && unresolved { "F10-type-block-errors-when-Resources-unresolved".to_string() } else { "type-block-vs-desugared".to_string() };
                    acc.violate(&sig, format!("type block gives {} but `Resources.*[ Type == .. ]` gives {} on {} | `{}`", a.short(), b2.short(), d, canon.trim()), json!({"kind":"lib2","rules":canon,"rules2":dt,"data":d,"expected":"same verdict","observed":format!("{} vs {}", a.short(), b2.short())}));
                }
            }
        }
        // clauses outside any rule == the body of one implicit default rule
        if !f.default.is_empty() {
            let mut g2 = f.clone();
            g2.rules.push(rule("default", f.default.clone()));
            g2.default = vec![];
            let gt = print_file(&g2);
            for d in &djs {
                let (a, b2) = (lib_run(&canon, d), lib_run(&gt, d));
                acc.traces += 2;
                // the implicit default rule is evaluated first, an explicit one where it is written: compare as sets
                let norm = |o: &Obs| match o {
                    Obs::Ok(fs, rs) => {
                        let mut r = rs.clone();
                        r.sort();
                        format!("{:?} {:?}", fs, r)
                    }
                    other => other.short(),
                };
                if norm(&a) != norm(&b2) && !(matches!(a, Obs::Err(_)) && matches!(b2, Obs::Err(_))) {
                    acc.violate("default-rule", format!("bare clauses give {} but `rule default {{..}}` gives {} on {}", a.short(), b2.short(), d), json!({"kind":"lib2","rules":canon,"rules2":gt,"data":d,"expected":"same verdict","observed":format!("{} vs {}", a.short(), b2.short())}));
                }
            }
        }
    }, Acc::merge);
    let mut res = res;
    // ---- `.n` and `[n]` are one index for every n the grammar accepts, beyond 32 bits too
    let mut ix = 0u64;
    for nidx in ["0", "1", "2", "7", "2147483647", "2147483648", "4294967295", "4294967296", "4294967297", "9223372036854775807"] {
        for (pre, post) in [("a", " exists"), ("a", ".b == 1"), ("a[*]", " == 1"), ("some a", " == 2")] {
            let (tb, td) = (format!("rule r {{ {}[{}]{} }}\n", pre, nidx, post), format!("rule r {{ {}.{}{} }}\n", pre, nidx, post));
            ix += 1;
            res.acc.traces += 2;
            match (parse_tree(&tb), parse_tree(&td)) {
                (Ok(x), Ok(y)) => {
                    if x != y {
                        res.acc.violate("different-parse:index-forms", format!("`{}` and `{}` parse to different programs", tb.trim(), td.trim()), json!({"kind":"parse-tree","rules":tb,"canonical":td,"expected":"same parse tree","observed":"different"}));
                    }
                    for d in ["{\"a\":[1,2,3]}", "{\"a\":[[1],[2,1]]}", "{\"a\":[{\"b\":1},{\"b\":2}]}", "{\"a\":[]}"] {
                        let (oa, ob) = (lib_run(&tb, d), lib_run(&td, d));
                        res.acc.traces += 2;
                        if oa.short() != ob.short() {
                            res.acc.violate("different-verdict:index-forms", format!("`{}` gives {} and `{}` gives {} on {}", tb.trim(), oa.short(), td.trim(), ob.short(), d), json!({"kind":"lib2","rules":tb,"rules2":td,"data":d,"expected":oa.short(),"observed":ob.short()}));
                        }
                    }
                }
                (Err(_), Err(_)) => {}
                (x, y) => res.acc.violate("rejected:index-forms", format!("`{}` {} but `{}` {}", tb.trim(), if x.is_ok() { "parses" } else { "is rejected" }, td.trim(), if y.is_ok() { "parses" } else { "is rejected" }), json!({"kind":"parse-tree","rules":tb,"canonical":td,"expected":"both accepted or both rejected","observed":"one rejected"})),
            }
        }
    }
    rep.states = res.acc.nontrivial + ix;
    rep.transitions = res.acc.nontrivial + ix;
    if res.capped {
        rep.caps_hit.push(format!("wall-clock cap: {} of {} ASTs", res.done, n));
    }
    rep.distinct_nontrivial = asts.len() as u64;
    rep.extra.insert("token_classes".into(), json!(vars.iter().map(|v| v.label.clone()).collect::<Vec<_>>()));
    rep.extra.insert("asts".into(), json!(asts.len()));
    let (c0, _) = styled(&asts[0], &[], None);
    let (c1, _) = styled(&asts[0], &[&vars[1], &vars[3]], None);
    rep.samples.push(json!({"canonical": c0, "variant not=! + or=|OR|": c1}));
    rep.rule = "states = (AST, spelling variant): every token class alone (deviation 1), a comment at every inter-token slot, every pair of classes (deviation 2) on the rich and a subset of small ASTs; parse-tree --print-json with locations removed (leading `this` normalised) must equal the canonical spelling's and verdicts must agree; type blocks vs their documented desugaring and bare clauses vs an explicit default rule are compared by verdict".into();
    rep.assumptions = vec!["the printer emits only spellings the property lists as synonyms".into()];
    let mut rep = rep;
    res.acc.into_report(&mut rep);
    cleanup_workdirs();
    rep.finish()
}

fn cfn_docs() -> Vec<String> {
    vec![
        r#"{"Resources":{"r1":{"Type":"AWS::X::Y","Properties":{"p":"s","n":3}},"r2":{"Type":"AWS::Z::W"}}}"#.to_string(),
        r#"{"Resources":{"r1":{"Type":"AWS::X::Y","Properties":{"p":1,"n":9}}}}"#.to_string(),
        r#"{"Resources":{"r2":{"Type":"AWS::Z::W"}}}"#.to_string(),
        r#"{"Resources":{}}"#.to_string(),
        r#"{"a":1}"#.to_string(),
        r#"{}"#.to_string(),
        r#"{"Resources":{"r1":{"Type":"AWS::X::Y"}},"a":[1]}"#.to_string(),
        r#"{"Resources":{"r1":{"Type":"AWS::X::Y","Properties":{"l":[{"x":1}]}},"r3":{"Type":"AWS::X::Y","Properties":{"l":[]}}}}"#.to_string(),
        // several resources of the type whose values differ, compliant first / non-compliant first
        r#"{"Resources":{"r1":{"Type":"AWS::X::Y","Properties":{"p":"s","n":3}},"r2":{"Type":"AWS::X::Y","Properties":{"p":1,"n":9,"q":0}},"r3":{"Type":"AWS::Z::W"}}}"#.to_string(),
        r#"{"Resources":{"r1":{"Type":"AWS::X::Y","Properties":{"p":1,"n":9,"q":0}},"r2":{"Type":"AWS::X::Y","Properties":{"p":"s","n":3}}}}"#.to_string(),
    ]
}
