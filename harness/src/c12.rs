//! C12 — evaluations are isolated: each (rules file, data file) pair stands alone (DESIGN 5/C12).
use crate::c01::Acc;
use crate::cli::*;
use crate::evidence::Report;
use crate::impl_::St;
use crate::report::*;
use serde_json::json;
use std::collections::BTreeMap;

/// rules files that deliberately share variable names, rule names and meanings
pub const RULES: [&str; 9] = [
    "let x = a\nrule r { %x == 1 }\nrule s when r { b exists }\n",
    "let x = b\nrule r { %x == 1 }\nrule s {\n  r\n}\n",
    "let x = 1\nrule r { a == %x }\nrule t {\n  not r\n}\n",
    "rule r { a[ b == 1 ] !empty }\nrule t {\n  not r\n}\n",
    "rule r when a exists { a is_list }\nrule u {\n  r or\n  b == 2\n}\n",
    "let x = a\nrule r {\n  let x = b\n  %x == 1\n}\nrule v { %x exists }\n",
    "let y = a[*]\nrule r { some %y == 1 }\nrule s when %y !empty {\n  %y exists\n  r\n}\n",
    "rule s { b == 1 }\nrule r when s { a == 2 }\nrule w {\n  r\n}\n",
    // keys spelled in another convention than the documents use (each document needs another conversion)
    "rule r { bucket_name == 1 }\nrule k { some_key exists }\n",
];
pub const DOCS: [&str; 8] = ["{\"a\":1,\"b\":1}", "{\"a\":1,\"b\":2}", "{\"a\":2,\"b\":1}", "{\"a\":[{\"b\":1}],\"b\":1}", "{\"b\":1}", "{\"a\":[1]}", "{\"bucketName\":1,\"SomeKey\":1,\"a\":1}", "{\"BucketName\":1,\"someKey\":2,\"b\":1}"];

fn ordered_selections(n: usize, max: usize) -> Vec<Vec<usize>> {
    fn rec(cur: &mut Vec<usize>, n: usize, max: usize, out: &mut Vec<Vec<usize>>) {
        if !cur.is_empty() {
            out.push(cur.clone());
        }
        if cur.len() == max {
            return;
        }
        for k in 0..n {
            if !cur.contains(&k) {
                cur.push(k);
                rec(cur, n, max, out);
                cur.pop();
            }
        }
    }
    let mut out = vec![];
    rec(&mut vec![], n, max, &mut out);
    out
}

type PairRes = (Option<St>, Vec<(String, St)>); // file status, sorted (rule, status)

/// plain `-S all` output -> (rules file name, data name) -> result
fn parse_plain_pairs(text: &str) -> BTreeMap<(String, String), PairRes> {
    let mut out: BTreeMap<(String, String), PairRes> = BTreeMap::new();
    let mut cur_data: Option<(String, Option<St>)> = None;
    for line in text.lines() {
        if let Some(p) = line.rfind(" Status = ") {
            if let Some(st) = St::parse(line[p + 10..].trim()) {
                cur_data = Some((line[..p].to_string(), Some(st)));
                continue;
            }
        }
        if line == "---" {
            cur_data = None;
            continue;
        }
        if let Some((d, fs)) = &cur_data {
            let mut it = line.split_whitespace();
            if let (Some(n), Some(s), None) = (it.next(), it.next(), it.next()) {
                if let (Some(st), Some(slash)) = (St::parse(s), n.rfind('/')) {
                    let e = out.entry((n[..slash].to_string(), d.clone())).or_insert((*fs, vec![]));
                    e.1.push((n[slash + 1..].to_string(), st));
                }
            }
        }
    }
    for v in out.values_mut() {
        v.1.sort();
    }
    out
}

fn alone_plain(rk: usize, dk: usize) -> Option<PairRes> {
    let r = put("c12/alone.guard", RULES[rk]);
    let d = put("c12/alone.json", DOCS[dk]);
    let o = cli_inproc(&sv(&["validate", "-r", &r, "-d", &d, "-S", "all"]), "");
    let m = parse_plain_pairs(&o.out);
    if o.code.is_err() {
        return None;
    }
    Some(m.into_values().next().unwrap_or((None, vec![])))
}
fn alone_structured(rk: usize, dk: usize) -> Option<(Option<St>, Vec<(String, St)>, i32)> {
    let r = put("c12/alone.guard", RULES[rk]);
    let d = put("c12/alone.json", DOCS[dk]);
    let o = cli_inproc(&sv(&["validate", "-r", &r, "-d", &d, "--structured", "-o", "json", "-S", "none"]), "");
    let reps = parse_structured_json(&o.out).ok()?;
    let fr = reps.first()?;
    let mut l: Vec<(String, St)> = vec![];
    l.extend(fr.compliant.iter().map(|n| (bare(n), St::Pass)));
    l.extend(fr.not_applicable.iter().map(|n| (bare(n), St::Skip)));
    l.extend(fr.not_compliant.iter().map(|(n, _)| (bare(n), St::Fail)));
    l.sort();
    Some((fr.status, l, o.status()))
}

#[derive(Clone, Copy, Debug, PartialEq)]
enum Mode {
    PlainArgs,
    StructArgs,
    JunitArgs,
    PlainDirAlpha,
    PlainDirMtime,
    StructDirAlpha,
    PayloadPlain,
    PayloadStruct,
    SarifArgs,
    StructSameBase,
}
const MODES: [Mode; 10] = [Mode::StructSameBase, Mode::SarifArgs, Mode::PlainArgs, Mode::StructArgs, Mode::JunitArgs, Mode::PlainDirAlpha, Mode::PlainDirMtime, Mode::StructDirAlpha, Mode::PayloadPlain, Mode::PayloadStruct];

fn set_mtime(path: &str, secs: u64) {
    if let Ok(f) = std::fs::OpenOptions::new().write(true).open(path) {
        let _ = f.set_modified(std::time::UNIX_EPOCH + std::time::Duration::from_secs(1_600_000_000 + secs));
    }
}

fn run_batch(rs: &[usize], ds: &[usize], mode: Mode, alone_p: &[Vec<Option<PairRes>>], alone_s: &[Vec<Option<(Option<St>, Vec<(String, St)>, i32)>>], acc: &mut Acc) {
    // materialise
    let rdir = reset_dir("c12/rules");
    let ddir = reset_dir("c12/data");
    let mut rpaths = vec![];
    let mut dpaths = vec![];
    for (p, k) in rs.iter().enumerate() {
        // in mtime mode the alphabetical order is reversed with respect to the time order
        let name = if mode == Mode::PlainDirMtime { format!("{}_F{}.guard", 9 - p, k) } else if mode == Mode::StructSameBase { format!("d{}/same.guard", p) } else { format!("{}_F{}.guard", p, k) };
        let path = format!("{}/{}", rdir, name);
        if let Some(parent) = std::path::Path::new(&path).parent() {
            std::fs::create_dir_all(parent).ok();
        }
        std::fs::write(&path, RULES[*k]).unwrap();
        set_mtime(&path, p as u64 * 10);
        rpaths.push((path, name));
    }
    for (p, k) in ds.iter().enumerate() {
        let name = if mode == Mode::PlainDirMtime { format!("{}_D{}.json", 9 - p, k) } else { format!("{}_D{}.json", p, k) };
        let path = format!("{}/{}", ddir, name);
        std::fs::write(&path, DOCS[*k]).unwrap();
        set_mtime(&path, p as u64 * 10);
        dpaths.push((path, name));
    }
    let mut argv = sv(&["validate"]);
    let mut stdin = String::new();
    let explicit = |argv: &mut Vec<String>| {
        for (p, _) in &rpaths {
            argv.push("-r".into());
            argv.push(p.clone());
        }
        for (p, _) in &dpaths {
            argv.push("-d".into());
            argv.push(p.clone());
        }
    };
    let (plain, junit) = match mode {
        Mode::PlainArgs => {
            explicit(&mut argv);
            argv.extend(sv(&["-S", "all"]));
            (true, false)
        }
        Mode::StructArgs | Mode::StructSameBase => {
            explicit(&mut argv);
            argv.extend(sv(&["--structured", "-o", "json", "-S", "none"]));
            (false, false)
        }
        Mode::JunitArgs => {
            explicit(&mut argv);
            argv.extend(sv(&["--structured", "-o", "junit", "-S", "none"]));
            (false, true)
        }
        Mode::SarifArgs => {
            explicit(&mut argv);
            argv.extend(sv(&["--structured", "-o", "sarif", "-S", "none"]));
            (false, false)
        }
        Mode::PlainDirAlpha => {
            argv.extend(vec!["-r".into(), rdir.clone(), "-d".into(), ddir.clone(), "-a".into(), "-S".into(), "all".into()]);
            (true, false)
        }
        Mode::PlainDirMtime => {
            argv.extend(vec!["-r".into(), rdir.clone(), "-d".into(), ddir.clone(), "-m".into(), "-S".into(), "all".into()]);
            (true, false)
        }
        Mode::StructDirAlpha => {
            argv.extend(vec!["-r".into(), rdir.clone(), "-d".into(), ddir.clone(), "-a".into()]);
            argv.extend(sv(&["--structured", "-o", "json", "-S", "none"]));
            (false, false)
        }
        Mode::PayloadPlain | Mode::PayloadStruct => {
            argv.push("--payload".into());
            let r: Vec<&str> = rs.iter().map(|k| RULES[*k]).collect();
            let d: Vec<&str> = ds.iter().map(|k| DOCS[*k]).collect();
            stdin = json!({"rules": r, "data": d}).to_string();
            if mode == Mode::PayloadStruct {
                argv.extend(sv(&["--structured", "-o", "json", "-S", "none"]));
                (false, false)
            } else {
                argv.extend(sv(&["-S", "all"]));
                (true, false)
            }
        }
    };
    let o = cli_inproc(&argv, &stdin);
    acc.traces += 1;
    let label = format!("rules={:?} data={:?} mode={:?}", rs, ds, mode);
    let replay = |what: &str| json!({"kind":"cli","argv":argv,"stdin":stdin,"files":{"rules": rs.iter().map(|k| RULES[*k]).collect::<Vec<_>>(), "data": ds.iter().map(|k| DOCS[*k]).collect::<Vec<_>>()},"expected":"each pair as when validated alone","observed":what});
    if let Some(p) = &o.panic {
        acc.violate(&format!("panic:{:?}", mode), format!("{}: panic {}", label, p), replay(p));
        return;
    }
    // expected exit: failure iff some pair fails (no parse errors in this pool)
    let any_fail = rs.iter().any(|r| ds.iter().any(|d| alone_s[*r][*d].as_ref().map_or(false, |x| x.0 == Some(St::Fail))));
    let any_err = rs.iter().any(|r| ds.iter().any(|d| alone_s[*r][*d].is_none()));
    if any_err {
        *acc.outcomes.entry("pair-errors".into()).or_insert(0) += 1;
        return;
    }
    *acc.outcomes.entry(if any_fail { "batch-FAIL" } else { "batch-ok" }.into()).or_insert(0) += 1;
    let want_exit = if any_fail { 19 } else { 0 };
    if o.status() != want_exit {
        acc.violate(&format!("batch-exit:{:?}", mode), format!("{}: exit {} but {}", label, o.status(), if any_fail { "some pair fails" } else { "no pair fails" }), replay(&format!("exit {}", o.status())));
    }
    if mode == Mode::SarifArgs {
        // results per data file (by artifact location) = the results of every pair validated alone
        fn results(text: &str) -> Result<Vec<(String, String, String)>, String> {
            let v: serde_json::Value = serde_json::from_str(text).map_err(|e| format!("not JSON: {}", e))?;
            let mut out = vec![];
            for run in v["runs"].as_array().ok_or("no runs")? {
                for r in run["results"].as_array().ok_or("no results")? {
                    out.push((r["locations"][0]["physicalLocation"]["artifactLocation"]["uri"].as_str().unwrap_or("").to_string(), r["ruleId"].as_str().unwrap_or("").to_string(), r["message"]["text"].as_str().unwrap_or("").to_string()));
                }
            }
            Ok(out)
        }
        match results(&o.out) {
            Err(e) => acc.violate("sarif-not-well-formed", format!("{}: {}", label, e), replay(&e)),
            Ok(got) => {
                for (dp, dk) in ds.iter().enumerate() {
                    let mut want: Vec<(String, String)> = vec![];
                    for (rp, _) in rs.iter().enumerate() {
                        let a = cli_inproc(&sv(&["validate", "-r", &rpaths[rp].0, "-d", &dpaths[dp].0, "--structured", "-o", "sarif", "-S", "none"]), "");
                        acc.traces += 1;
                        want.extend(results(&a.out).unwrap_or_default().into_iter().map(|(_, r, m)| (r, m)));
                    }
                    let mut have: Vec<(String, String)> = got.iter().filter(|(u, _, _)| u.ends_with(&dpaths[dp].1)).map(|(_, r, m)| (r.clone(), m.clone())).collect();
                    want.sort();
                    have.sort();
                    if want != have {
                        acc.violate(&format!("pair-differs:{:?}", mode), format!("{}: SARIF lists {} results for D{} in the batch, the pairs alone give {}", label, have.len(), dk, want.len()), replay(&format!("{:?}", have)));
                    }
                }
                if got.iter().any(|(u, _, _)| !dpaths.iter().any(|(_, n)| u.ends_with(n))) {
                    acc.violate("sarif-result-for-unknown-file", format!("{}: a result is located in a file that was not given", label), replay("location"));
                }
            }
        }
    } else if plain {
        let got = parse_plain_pairs(&o.out);
        for (rp, rk) in rs.iter().enumerate() {
            for (dp, dk) in ds.iter().enumerate() {
                let rname = if matches!(mode, Mode::PayloadPlain) { format!("RULES_STDIN[{}]", rp + 1) } else { rpaths[rp].1.clone() };
                let dname_suffix = if matches!(mode, Mode::PayloadPlain) { format!("DATA_STDIN[{}]", dp + 1) } else { dpaths[dp].1.clone() };
                let want = alone_p[*rk][*dk].clone().unwrap_or((None, vec![]));
                let found = got.iter().find(|((r, d), _)| *r == rname && d.ends_with(&dname_suffix)).map(|(_, v)| v.clone());
                let found = found.unwrap_or((None, vec![]));
                if found.1 != want.1 || (found.0 != want.0 && !want.1.is_empty()) {
                    acc.violate(&format!("pair-differs:{:?}", mode), format!("{}: pair (F{}, D{}) reports {:?} in the batch but {:?} alone", label, rk, dk, found, want), replay(&format!("{:?}", found)));
                }
            }
        }
    } else if junit {
        match parse_junit(&o.out) {
            Err(e) => acc.violate("junit-not-well-formed", format!("{}: {}", label, e), replay(&e)),
            Ok(cases) => {
                for pb in junit_counter_problems(&o.out) {
                    acc.violate("junit-counters", format!("{}: {}", label, pb), replay(&pb));
                }
                for (rp, rk) in rs.iter().enumerate() {
                    for (dp, dk) in ds.iter().enumerate() {
                        let want = match alone_s[*rk][*dk].as_ref().and_then(|x| x.0) {
                            Some(St::Pass) => "pass",
                            Some(St::Fail) => "fail",
                            _ => "skip",
                        };
                        let c = cases.iter().find(|c| c.suite.ends_with(&dpaths[dp].1) && c.name == rpaths[rp].1);
                        match c {
                            None => acc.violate("junit-missing-case", format!("{}: no test case for (F{}, D{})", label, rk, dk), replay("missing")),
                            Some(c) if c.mark != want => acc.violate(&format!("pair-differs:{:?}", mode), format!("{}: pair (F{}, D{}) marked {} in the batch but {} alone", label, rk, dk, c.mark, want), replay(&c.mark)),
                            _ => {}
                        }
                    }
                }
                if cases.len() != rs.len() * ds.len() {
                    acc.violate("junit-case-count", format!("{}: {} cases for {} pairs", label, cases.len(), rs.len() * ds.len()), replay("count"));
                }
            }
        }
    } else {
        match parse_structured_json(&o.out) {
            Err(e) => acc.violate("structured-not-well-formed", format!("{}: {}", label, e), replay(&e)),
            Ok(reps) => {
                if reps.len() != ds.len() {
                    acc.violate("structured-report-count", format!("{}: {} reports for {} data files", label, reps.len(), ds.len()), replay("count"));
                    return;
                }
                for (dp, dk) in ds.iter().enumerate() {
                    let dname = if mode == Mode::PayloadStruct { format!("DATA_STDIN[{}]", dp + 1) } else { dpaths[dp].1.clone() };
                    let fr = match reps.iter().find(|r| r.name.ends_with(&dname)) {
                        Some(f) => f,
                        None => {
                            acc.violate("structured-missing-data", format!("{}: no report for {}", label, dname), replay("missing"));
                            continue;
                        }
                    };
                    let mut got: Vec<(String, St)> = vec![];
                    got.extend(fr.compliant.iter().map(|n| (bare(n), St::Pass)));
                    got.extend(fr.not_applicable.iter().map(|n| (bare(n), St::Skip)));
                    got.extend(fr.not_compliant.iter().map(|(n, _)| (bare(n), St::Fail)));
                    got.sort();
                    let mut want: Vec<(String, St)> = vec![];
                    for rk in rs {
                        want.extend(alone_s[*rk][*dk].as_ref().unwrap().1.clone());
                    }
                    want.sort();
                    // rule names shared between rules files are merged in the combined report: compare as sets
                    want.dedup();
                    got.dedup();
                    if got != want {
                        acc.violate(&format!("pair-differs:{:?}", mode), format!("{}: report for D{} lists {:?}, union of the pairs alone {:?}", label, dk, got, want), replay(&format!("{:?}", got)));
                    }
                }
            }
        }
    }
}

// ---- test command: cases inside one test file are isolated
const TEST_RULES: &str = "let x = a\nrule r { %x == 1 }\nrule s when r { b exists }\nrule t {\n  not r\n}\n";
fn test_case_yaml(dk: usize) -> String {
    // the cases state different sets of expectations (a rule without an expectation is reported as such, not judged)
    let exp = ["      r: PASS\n      s: PASS\n      t: FAIL\n", "      r: FAIL\n", "      s: SKIP\n      t: PASS\n"][dk % 3];
    format!("- name: c{}\n  input: {}\n  expectations:\n    rules:\n{}", dk, DOCS[dk], exp)
}
/// the entry of one test case in `test -o json|yaml` output, and the exit code
fn test_case_structured(r: &str, t: &str, fmt: &str, name: &str) -> (Option<serde_json::Value>, i32) {
    let o = cli_inproc(&sv(&["test", "-r", r, "-t", t, "-o", fmt]), "");
    let v: Option<serde_json::Value> = if fmt == "json" { serde_json::from_str(&o.out).ok() } else { serde_yaml::from_str::<serde_yaml::Value>(&o.out).ok().and_then(|y| serde_json::to_value(y).ok()) };
    let case = v.and_then(|v| v["test_cases"].as_array().and_then(|a| a.iter().find(|c| c["name"] == name).cloned()));
    (case, o.status())
}
/// per test case (by name): the sorted result lines
fn parse_test_plain(text: &str) -> BTreeMap<String, Vec<String>> {
    let mut out = BTreeMap::new();
    let mut cur: Option<String> = None;
    for line in text.lines() {
        if let Some(n) = line.strip_prefix("Name: ") {
            cur = Some(n.to_string());
            out.insert(n.to_string(), vec![]);
        } else if line.starts_with("Test Case #") {
            cur = None;
        } else if let Some(c) = &cur {
            if !line.trim().is_empty() {
                out.get_mut(c).unwrap().push(line.trim().to_string());
            }
        }
    }
    for v in out.values_mut() {
        v.sort();
    }
    out
}

pub fn run(tier: &str) -> i32 {
    let thorough = tier == "thorough";
    let mut rep = Report::new("C12", tier);
    // baselines: every pair alone
    let alone_p: Vec<Vec<Option<PairRes>>> = (0..RULES.len()).map(|r| (0..DOCS.len()).map(|d| alone_plain(r, d)).collect()).collect();
    let alone_s: Vec<Vec<Option<(Option<St>, Vec<(String, St)>, i32)>>> = (0..RULES.len()).map(|r| (0..DOCS.len()).map(|d| alone_structured(r, d)).collect()).collect();
    let rsel = ordered_selections(RULES.len(), if thorough { 3 } else { 2 });
    let dsel = ordered_selections(DOCS.len(), if thorough { 4 } else { 3 });
    let mut cases = vec![];
    for (ri, _) in rsel.iter().enumerate() {
        for (di, _) in dsel.iter().enumerate() {
            for m in MODES {
                cases.push((ri, di, m));
            }
        }
    }
    let n = cases.len();
    let res = crate::par::run(n, rep.seed as u64, crate::par::deadline_secs(if thorough { 3000 } else { 45 }), Acc::new, |k, acc| {
        let (ri, di, m) = cases[k];
        run_batch(&rsel[ri], &dsel[di], m, &alone_p, &alone_s, acc);
    }, Acc::merge);
    rep.states += res.done as u64;
    rep.transitions += res.done as u64;
    if res.capped {
        rep.caps_hit.push(format!("wall-clock cap: {} of {} batches", res.done, n));
    }
    let mut acc = res.acc;

    // test command: suites of 1..4 cases in every order against each case alone
    let r = put("c12t/t.guard", TEST_RULES);
    let mut alone_t: Vec<Vec<String>> = vec![];
    for dk in 0..DOCS.len() {
        let t = put("c12t/alone.yaml", &test_case_yaml(dk));
        let o = cli_inproc(&sv(&["test", "-r", &r, "-t", &t]), "");
        alone_t.push(parse_test_plain(&o.out).remove(&format!("c{}", dk)).unwrap_or_default());
    }
    let tsel = ordered_selections(DOCS.len(), if thorough { 4 } else { 3 });
    let tr = crate::par::run(tsel.len(), 0, None, Acc::new, |k, acc| {
        let sel = &tsel[k];
        let r = put("c12t/t.guard", TEST_RULES);
        let y: String = sel.iter().map(|d| test_case_yaml(*d)).collect();
        let t = put("c12t/suite.yaml", &y);
        for fmt in ["plain", "verbose"] {
            let mut a = sv(&["test", "-r", &r, "-t", &t]);
            if fmt == "verbose" {
                a.push("-v".into());
            }
            let o = cli_inproc(&a, "");
            acc.traces += 1;
            *acc.outcomes.entry(format!("test-exit-{}", o.status())).or_insert(0) += 1;
            let got = parse_test_plain(&o.out);
            for d in sel {
                let mut g = got.get(&format!("c{}", d)).cloned().unwrap_or_default();
                if fmt == "verbose" {
                    g.retain(|l| l.contains("Expected = "));
                }
                let mut w = alone_t[*d].clone();
                // plain: every line of the case's report (section headers too); verbose: the verdict lines
                if fmt == "verbose" {
                    w.retain(|l| l.contains("Expected = "));
                    g.retain(|l| l.contains("Expected = "));
                }
                if g != w {
                    acc.violate("test-case-differs", format!("suite {:?} ({}): case c{} reports {:?} but {:?} alone", sel, fmt, d, g, w), json!({"kind":"cli","argv":a,"stdin":"","files":{"rules":TEST_RULES,"tests":y},"expected":format!("{:?}", w),"observed":format!("{:?}", g)}));
                }
            }
        }
    }, Acc::merge);
    rep.states += tsel.len() as u64 * 2;
    rep.transitions += tsel.len() as u64 * 2;
    acc = Acc::merge(acc, tr.acc);
    // the same through the structured reports of the test command: the entry of every case equals the entry it has alone,
    // and the suite fails exactly when some case alone does
    let mut alone_ts: Vec<Vec<(Option<serde_json::Value>, i32)>> = vec![];
    for dk in 0..DOCS.len() {
        let t = put("c12t/alone.yaml", &test_case_yaml(dk));
        alone_ts.push(["json", "yaml"].iter().map(|f| test_case_structured(&r, &t, f, &format!("c{}", dk))).collect());
    }
    let ts = crate::par::run(tsel.len(), 0, None, Acc::new, |k, acc| {
        let sel = &tsel[k];
        let r = put("c12t/t.guard", TEST_RULES);
        let y: String = sel.iter().map(|d| test_case_yaml(*d)).collect();
        let t = put("c12t/suite.yaml", &y);
        for (fi, fmt) in ["json", "yaml"].iter().enumerate() {
            let mut exit = 0;
            for d in sel {
                let (g, st) = test_case_structured(&r, &t, fmt, &format!("c{}", d));
                exit = st;
                acc.traces += 1;
                let w = &alone_ts[*d][fi].0;
                if g.is_none() || g != *w {
                    acc.violate("test-case-differs:structured", format!("suite {:?} (-o {}): case c{} is reported as {:?} but as {:?} alone", sel, fmt, d, g.map(|v| v.to_string()), w.as_ref().map(|v| v.to_string())), json!({"kind":"cli","argv":["test","-r","t.guard","-t","suite.yaml","-o",fmt],"stdin":"","files":{"t.guard":TEST_RULES,"suite.yaml":y},"expected":format!("{:?}", w),"observed":"differs"}));
                }
            }
            let want = if sel.iter().any(|d| alone_ts[*d][fi].1 == 7) { 7 } else { 0 };
            *acc.outcomes.entry(format!("test-structured-exit-{}", exit)).or_insert(0) += 1;
            if exit != want {
                acc.violate("test-suite-exit:structured", format!("suite {:?} (-o {}) exits {} but {} is expected from its cases alone", sel, fmt, exit, want), json!({"kind":"cli","argv":["test","-r","t.guard","-t","suite.yaml","-o",fmt],"stdin":"","files":{"t.guard":TEST_RULES,"suite.yaml":y},"expected":format!("exit {}", want),"observed":format!("exit {}", exit)}));
            }
        }
    }, Acc::merge);
    rep.states += tsel.len() as u64 * 2;
    rep.transitions += tsel.len() as u64 * 2;
    acc = Acc::merge(acc, ts.acc);

    // ---- --input-parameters with several data files: every data file is merged with the parameters, as when it is given alone
    let prules = "rule rp { zparam == 1 }\nrule ra when zparam exists { a exists }\nrule rb { b == 1 or zother exists }\n";
    let params = ["{\"zparam\":1}", "{\"zparam\":2,\"zother\":true}"];
    let psel = ordered_selections(DOCS.len() - 1, 3); // DOCS[0..5] (all maps)
    let pmodes = ["plain", "structured", "junit"];
    let pn = psel.len() * params.len() * pmodes.len();
    let pr = crate::par::run(pn, 0, crate::par::deadline_secs(if thorough { 600 } else { 20 }), Acc::new, |k, acc| {
        let (si, pi, mode) = (k / (params.len() * pmodes.len()), (k / pmodes.len()) % params.len(), pmodes[k % pmodes.len()]);
        let sel = &psel[si];
        let r = put("c12p/p.guard", prules);
        let pf = put("c12p/params.json", params[pi]);
        let flags: Vec<String> = match mode {
            "plain" => sv(&["-S", "all"]),
            "structured" => sv(&["--structured", "-o", "json", "-S", "none"]),
            _ => sv(&["--structured", "-o", "junit", "-S", "none"]),
        };
        let verdicts = |out: &str, dname: &str| -> Option<Vec<(String, St)>> {
            match mode {
                "plain" => parse_plain_pairs(out).into_iter().find(|((_, d), _)| d.ends_with(dname)).map(|(_, v)| v.1),
                "structured" => parse_structured_json(out).ok()?.iter().find(|fr| fr.name.ends_with(dname)).map(|fr| {
                    let mut l: Vec<(String, St)> = vec![];
                    l.extend(fr.compliant.iter().map(|n| (bare(n), St::Pass)));
                    l.extend(fr.not_applicable.iter().map(|n| (bare(n), St::Skip)));
                    l.extend(fr.not_compliant.iter().map(|(n, _)| (bare(n), St::Fail)));
                    l.sort();
                    l
                }),
                _ => parse_junit(out).ok().map(|cs| cs.iter().filter(|c| c.suite.ends_with(dname)).map(|c| (c.name.clone(), match c.mark.as_str() { "pass" => St::Pass, "fail" => St::Fail, _ => St::Skip })).collect()),
            }
        };
        let mut argv = sv(&["validate", "-r", &r, "-i", &pf]);
        let mut names = vec![];
        for (pos, d) in sel.iter().enumerate() {
            let nm = format!("c12p/{}_D{}.json", pos, d);
            argv.push("-d".into());
            argv.push(put(&nm, DOCS[*d]));
            names.push(format!("{}_D{}.json", pos, d));
        }
        argv.extend(flags.clone());
        let o = cli_inproc(&argv, "");
        acc.traces += 1;
        *acc.outcomes.entry(format!("params-batch-exit-{}", o.status())).or_insert(0) += 1;
        let mut any_fail = false;
        for (pos, d) in sel.iter().enumerate() {
            let mut a1 = sv(&["validate", "-r", &r, "-i", &pf, "-d"]);
            a1.push(put(&format!("c12p/{}_D{}.json", pos, d), DOCS[*d]));
            a1.extend(flags.clone());
            let o1 = cli_inproc(&a1, "");
            acc.traces += 1;
            any_fail |= o1.status() == 19;
            let (got, want) = (verdicts(&o.out, &names[pos]), verdicts(&o1.out, &names[pos]));
            if got != want || want.is_none() {
                acc.violate(&format!("params-pair-differs:{}", mode), format!("data {:?} params {} mode {}: D{} reports {:?} in the batch but {:?} alone", sel, params[pi], mode, d, got, want), json!({"kind":"cli","argv":argv,"stdin":"","files":{"rules":prules,"params":params[pi],"data":sel.iter().map(|d| DOCS[*d]).collect::<Vec<_>>()},"expected":format!("{:?}", want),"observed":format!("{:?}", got)}));
            }
        }
        if (o.status() == 19) != any_fail || (o.status() != 19 && o.status() != 0) {
            acc.violate(&format!("params-batch-exit:{}", mode), format!("data {:?} params {} mode {}: exit {} but {}", sel, params[pi], mode, o.status(), if any_fail { "some file fails alone" } else { "no file fails alone" }), json!({"kind":"cli","argv":argv,"stdin":"","files":{"rules":prules,"params":params[pi]},"expected":"failure iff some pair fails","observed":format!("exit {}", o.status())}));
        }
    }, Acc::merge);
    rep.states += pr.done as u64;
    rep.transitions += pr.done as u64;
    if pr.capped {
        rep.caps_hit.push(format!("wall-clock cap: {} of {} parameter batches", pr.done, pn));
    }
    acc = Acc::merge(acc, pr.acc);

    rep.distinct_nontrivial = (rsel.len() * dsel.len()) as u64;
    rep.extra.insert("rules_pool".into(), json!(RULES));
    rep.extra.insert("data_pool".into(), json!(DOCS));
    rep.extra.insert("modes".into(), json!(MODES.iter().map(|m| format!("{:?}", m)).collect::<Vec<_>>()));
    rep.samples.push(json!({"rules_order": rsel[rsel.len() - 1], "data_order": dsel[dsel.len() - 1], "mode": "PlainDirMtime"}));
    rep.rule = "states = (ordered selection of rules files that share variable and rule names, ordered selection of documents, batch mode: explicit arguments / directories with -a and -m / payload lists, plain / structured / junit); the result of every pair extracted from the batch is compared with that pair validated alone; the batch exit code is the failure code iff some pair fails; the same for the test cases of one test file".into();
    rep.assumptions = vec!["the rules pool has no parse errors and rule names shared across files are compared as multisets in the structured report".into()];
    acc.into_report(&mut rep);
    cleanup_workdirs();
    rep.finish()
}
