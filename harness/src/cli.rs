//! CLI seams: in-process (`cli_inproc`, the same code path as main.rs minus process exit) and
//! real child process (`cli_proc`, the repository's main.rs built as `cfn-guard-real`).
use clap::Parser;
use std::io::{Read, Write};
use std::panic::{catch_unwind, AssertUnwindSafe};
use std::path::PathBuf;
use std::process::{Command, Stdio};

#[derive(Clone, Debug)]
pub struct CliOut {
    /// Ok(exit code returned by execute) | Err(message of the Err returned) ; main.rs maps Err to exit(-1) = 255
    pub code: Result<i32, String>,
    pub out: String,
    pub err: String,
    pub panic: Option<String>,
    /// clap refused the command line
    pub usage_error: bool,
}
impl CliOut {
    /// the process exit status main.rs would produce
    pub fn status(&self) -> i32 {
        if self.panic.is_some() {
            return 101;
        }
        if self.usage_error {
            return 2;
        }
        match &self.code {
            Ok(c) => *c & 0xff,
            Err(_) => 255,
        }
    }
}

thread_local! {
    static WORKDIR: std::cell::RefCell<Option<PathBuf>> = std::cell::RefCell::new(None);
}

/// per-thread scratch directory on tmpfs
pub fn workdir() -> PathBuf {
    WORKDIR.with(|w| {
        let mut w = w.borrow_mut();
        if w.is_none() {
            let base = if std::path::Path::new("/dev/shm").is_dir() { "/dev/shm".to_string() } else { std::env::temp_dir().to_string_lossy().to_string() };
            let p = PathBuf::from(format!("{}/gmc-{}/{:?}", base, std::process::id(), std::thread::current().id()).replace("ThreadId(", "t").replace(')', ""));
            std::fs::create_dir_all(&p).expect("workdir");
            *w = Some(p);
        }
        w.clone().unwrap()
    })
}

pub fn cleanup_workdirs() {
    let base = if std::path::Path::new("/dev/shm").is_dir() { "/dev/shm".to_string() } else { std::env::temp_dir().to_string_lossy().to_string() };
    let _ = std::fs::remove_dir_all(format!("{}/gmc-{}", base, std::process::id()));
}

/// write a file under the thread's workdir (sub-directories created), returns its absolute path
pub fn put(rel: &str, content: &str) -> String {
    let p = workdir().join(rel);
    if let Some(d) = p.parent() {
        std::fs::create_dir_all(d).ok();
    }
    std::fs::write(&p, content).expect("write case file");
    p.to_string_lossy().to_string()
}
pub fn reset_dir(rel: &str) -> String {
    let p = workdir().join(rel);
    let _ = std::fs::remove_dir_all(&p);
    std::fs::create_dir_all(&p).ok();
    p.to_string_lossy().to_string()
}

pub fn cli_inproc(argv: &[String], stdin: &str) -> CliOut {
    let mut full = vec!["cfn-guard".to_string()];
    full.extend(argv.iter().cloned());
    let cmd = match cfn_guard::commands::CfnGuard::try_parse_from(full) {
        Ok(c) => c,
        Err(e) => {
            return CliOut { code: Err(format!("usage: {}", e.kind())), out: String::new(), err: e.to_string(), panic: None, usage_error: true };
        }
    };
    let errpath = workdir().join("stderr.txt");
    let errfile = std::fs::File::create(&errpath).expect("stderr file");
    let mut writer = cfn_guard::utils::writer::Writer::new_with_err(cfn_guard::utils::writer::WriteBuffer::Vec(vec![]), cfn_guard::utils::writer::WriteBuffer::File(errfile)).expect("writer");
    let mut reader = cfn_guard::utils::reader::Reader::new(cfn_guard::utils::reader::ReadBuffer::Cursor(std::io::Cursor::new(stdin.as_bytes().to_vec())));
    let r = catch_unwind(AssertUnwindSafe(|| cmd.execute(&mut writer, &mut reader)));
    let _ = writer.flush();
    let out = writer.into_string().unwrap_or_default();
    let mut err = String::new();
    if let Ok(mut f) = std::fs::File::open(&errpath) {
        let _ = f.read_to_string(&mut err);
    }
    match r {
        Err(p) => CliOut { code: Err("panic".into()), out, err, panic: Some(crate::impl_::panic_msg(p)), usage_error: false },
        Ok(Ok(c)) => CliOut { code: Ok(c), out, err, panic: None, usage_error: false },
        Ok(Err(e)) => CliOut { code: Err(e.to_string()), out, err, panic: None, usage_error: false },
    }
}

#[derive(Clone, Debug)]
pub struct ProcOut {
    /// exit status (0..255), or -signal when killed by a signal, or -1000 on timeout
    pub status: i32,
    pub out: String,
    pub err: String,
}

pub fn bin_path() -> String {
    std::env::var("GMC_BIN").unwrap_or_else(|_| {
        let exe = std::env::current_exe().unwrap();
        exe.parent().unwrap().join("cfn-guard-real").to_string_lossy().to_string()
    })
}

pub fn cli_proc(argv: &[String], stdin: &str, env: &[(String, String)], cwd: Option<&str>, timeout_ms: u64) -> ProcOut {
    use std::os::unix::process::ExitStatusExt;
    let mut c = Command::new(bin_path());
    c.args(argv).stdin(Stdio::piped()).stdout(Stdio::piped()).stderr(Stdio::piped());
    c.env_clear();
    c.env("PATH", "/usr/bin:/bin");
    c.env("NO_COLOR", "1");
    for (k, v) in env {
        c.env(k, v);
    }
    if let Some(d) = cwd {
        c.current_dir(d);
    }
    let mut child = match c.spawn() {
        Ok(c) => c,
        Err(e) => return ProcOut { status: -2000, out: String::new(), err: format!("spawn: {}", e) },
    };
    {
        let mut si = child.stdin.take().unwrap();
        let _ = si.write_all(stdin.as_bytes());
    }
    let mut so = child.stdout.take().unwrap();
    let mut se = child.stderr.take().unwrap();
    let t_out = std::thread::spawn(move || {
        let mut b = Vec::new();
        let _ = so.read_to_end(&mut b);
        b
    });
    let t_err = std::thread::spawn(move || {
        let mut b = Vec::new();
        let _ = se.read_to_end(&mut b);
        b
    });
    let start = std::time::Instant::now();
    let status = loop {
        match child.try_wait() {
            Ok(Some(s)) => break s.code().unwrap_or_else(|| -(s.signal().unwrap_or(0))),
            Ok(None) => {
                if start.elapsed().as_millis() as u64 > timeout_ms {
                    let _ = child.kill();
                    let _ = child.wait();
                    break -1000;
                }
                std::thread::sleep(std::time::Duration::from_millis(1));
            }
            Err(_) => break -2001,
        }
    };
    let out = String::from_utf8_lossy(&t_out.join().unwrap_or_default()).to_string();
    let err = String::from_utf8_lossy(&t_err.join().unwrap_or_default()).to_string();
    ProcOut { status, out, err }
}

pub fn sv(v: &[&str]) -> Vec<String> {
    v.iter().map(|s| s.to_string()).collect()
}
