//! C18 — built-in functions compute what their documentation says (DESIGN 5/C18).
use crate::ast::*;
use crate::c01::Acc;
use crate::evidence::Report;
use crate::impl_::lib_raw;
use crate::reffn;
use crate::refsem::{Scope, Sem, Variant, QR};
use crate::universe::*;
use crate::val::*;
use serde_json::{json, Value};

#[derive(Debug, Clone, PartialEq)]
enum Seen {
    Err(String),
    Panic(String),
    Values(Vec<Value>),
}

/// rules: `<lets>` + rule dump { let r = <call>  %r == "~~never~~" }
fn observe(lets: &str, call: &str, dj: &str) -> (Seen, String) {
    let rules = format!("{}rule dump {{\n  let r = {}\n  %r == \"~~never~~\"\n}}\n", lets, call);
    let seen = match lib_raw(&rules, dj, false) {
        Err(p) => Seen::Panic(p),
        Ok(Err(e)) => Seen::Err(e),
        Ok(Ok(sv)) => match serde_json::from_str::<Value>(&sv) {
            Err(e) => Seen::Err(format!("report unreadable: {}", e)),
            Ok(v) => {
                let mut vals = vec![];
                if let Some(nc) = v["not_compliant"].as_array() {
                    for r in nc {
                        if let Some(cs) = r["Rule"]["checks"].as_array() {
                            for c in cs {
                                let fv = &c["Clause"]["Binary"]["check"]["Resolved"]["from"]["value"];
                                if !fv.is_null() || c["Clause"]["Binary"]["check"]["Resolved"]["from"].get("value").is_some() {
                                    vals.push(fv.clone());
                                }
                            }
                        }
                    }
                }
                Seen::Values(vals)
            }
        },
    };
    (seen, rules)
}

fn arg_values(a: &Arg, doc: &V, lets: &[Let]) -> Result<Vec<QR>, String> {
    let f = File { lets: lets.to_vec(), rules: vec![], default: vec![] };
    let sem = Sem::new(&f, Variant::default());
    let sc = Scope::new(None, doc, &f.lets);
    sem.arg_values(a, doc, &sc).map_err(|e| e.0)
}

fn expect(fname: &str, args: &[Arg], doc: &V, lets: &[Let]) -> Result<Vec<V>, String> {
    let mut av = vec![];
    for a in args {
        av.push(match a {
            Arg::Call(g, ga) => {
                let inner = expect(g, ga, doc, lets)?;
                inner.into_iter().map(QR::R).collect()
            }
            other => arg_values(other, doc, lets)?,
        });
    }
    Ok(reffn::call(fname, &av)?.into_iter().filter_map(|q| if let QR::R(v) = q { Some(v) } else { None }).collect())
}

fn print_arg(a: &Arg) -> String {
    let st = Style::default();
    let mut p = Printer::new(&st);
    p.arg(a);
    p.out
}

struct Case {
    fname: &'static str,
    args: Vec<Arg>,
    lets: Vec<Let>,
    doc: V,
    form: &'static str,
}

fn strings() -> Vec<&'static str> {
    vec!["", "a", "AbC", "héllo", "10", "-3", "1.5", "true", "TRUE", "a%20b", "%zz", "%E2%82%AC", "%FF", "{\"k\":[1,2]}", "[1, 2]", "not json {", "ß", "ǆ", "9223372036854775808", " 7", "1e3", "tRuE", "x y"]
}
fn other_values() -> Vec<V> {
    vec![i(7), i(-2), f(2.75), f(-0.5), f(1.0), V::Bool(true), V::Null, l(vec![i(1), s("a")]), m(vec![("k", i(1))])]
}

fn cases(thorough: bool) -> Vec<Case> {
    let unary_fns = ["to_upper", "to_lower", "url_decode", "parse_int", "parse_float", "parse_boolean", "parse_string", "count", "json_parse", "parse_char"];
    let mut vals: Vec<V> = strings().into_iter().map(s).collect();
    vals.extend(other_values());
    vals.extend(vec![i(0), i(9), i(10), s("x"), s("7")]);
    // integers whose low 32 bits look like a digit, and the extremes (converters must not truncate)
    vals.extend(vec![i(-1), i(4294967296), i(4294967301), i(-4294967289), i(i64::MAX), i(i64::MIN + 1)]);
    let mut out = vec![];
    let qa = || Arg::Q(false, vec![key("a")]);
    for fname in unary_fns {
        for v in &vals {
            // literal argument (scalars only)
            if v.guard_expressible() && !matches!(v, V::List(_) | V::Map(_)) {
                out.push(Case { fname, args: vec![Arg::Lit(v.clone())], lets: vec![], doc: m(vec![("z", i(0))]), form: "literal" });
            }
            // query to a scalar / value
            out.push(Case { fname, args: vec![qa()], lets: vec![], doc: m(vec![("a", v.clone())]), form: "query" });
            // through a variable
            out.push(Case { fname, args: vec![Arg::Q(false, vec![Part::Var("v".into())])], lets: vec![Let { name: "v".into(), val: qa() }], doc: m(vec![("a", v.clone())]), form: "variable" });
        }
        // lists: homogeneous, mixed, with an unresolved member, empty selection
        let lists: Vec<Vec<V>> = vec![
            vec![s("a"), s("AbC"), s("héllo")],
            vec![s("10"), s("-3"), s("7")],
            vec![s("1.5"), s("2"), s("-0.25")],
            vec![s("true"), s("FALSE")],
            vec![s("a"), i(7), s("b"), V::Null, f(1.5), V::Bool(false), l(vec![s("q")])],
            vec![i(1), f(2.5), i(-4)],
            vec![s("{\"a\":1}"), s("[true]")],
            vec![],
        ];
        for ls in &lists {
            out.push(Case { fname, args: vec![Arg::Q(false, vec![key("l"), Part::All])], lets: vec![], doc: m(vec![("l", V::List(ls.clone()))]), form: "list" });
            let items: Vec<V> = ls.iter().enumerate().map(|(k, v)| if k % 2 == 1 { m(vec![("y", i(0))]) } else { m(vec![("x", v.clone())]) }).collect();
            out.push(Case { fname, args: vec![Arg::Q(false, vec![key("m"), Part::All, key("x")])], lets: vec![], doc: m(vec![("m", V::List(items.clone()))]), form: "list-with-unresolved" });
            out.push(Case { fname, args: vec![Arg::Q(false, vec![key("m"), Part::Filter(vec![vec![un(vec![key("zz")], UnOp::Exists, false)]]), key("x")])], lets: vec![], doc: m(vec![("m", V::List(items))]), form: "empty-selection" });
        }
    }
    // element-wise over every ordered pair of argument values (quick: the first 14 values; thorough: all 32 x 32)
    let nv = if thorough { vals.len() } else { 14 };
    for fname in unary_fns {
        for a in &vals[..nv] {
            for b2 in &vals[..nv] {
                out.push(Case { fname, args: vec![Arg::Q(false, vec![key("l"), Part::All])], lets: vec![], doc: m(vec![("l", l(vec![a.clone(), b2.clone()]))]), form: "pair" });
            }
        }
    }
    // round trips over an integer range: parse_int(parse_string(n)) = n, parse_float(parse_string(n)) = n.0, parse_string(parse_int("n")) = "n"
    let lim: i64 = if thorough { 1200 } else { 60 };
    for n in -lim..=lim {
        out.push(Case { fname: "parse_int", args: vec![Arg::Call("parse_string".into(), vec![qa()])], lets: vec![], doc: m(vec![("a", i(n))]), form: "roundtrip-int" });
        out.push(Case { fname: "parse_float", args: vec![Arg::Call("parse_string".into(), vec![qa()])], lets: vec![], doc: m(vec![("a", i(n))]), form: "roundtrip-float" });
        out.push(Case { fname: "parse_string", args: vec![Arg::Call("parse_int".into(), vec![qa()])], lets: vec![], doc: m(vec![("a", s(&n.to_string()))]), form: "roundtrip-string" });
    }
    // nested calls
    for (outer, inner, v) in [
        ("to_upper", "to_lower", s("AbC")),
        ("to_lower", "url_decode", s("A%20B")),
        ("parse_int", "parse_string", i(42)),
        ("parse_int", "parse_string", i(-7)),
        ("parse_string", "parse_int", s("12")),
        ("parse_float", "parse_string", f(2.5)),
        ("count", "to_upper", l(vec![s("a"), i(1), s("b")])),
        ("parse_boolean", "to_lower", s("TRUE")),
        ("json_parse", "url_decode", s("%5B1%2C2%5D")),
    ] {
        let q = if matches!(v, V::List(_)) { vec![key("a"), Part::All] } else { vec![key("a")] };
        out.push(Case { fname: outer, args: vec![Arg::Call(inner.into(), vec![Arg::Q(false, q)])], lets: vec![], doc: m(vec![("a", v)]), form: "nested-call" });
    }
    // parse_int(parse_string(n)) = n for every int of a boundary set
    for n in [0i64, 1, -1, 9, 10, 12345, i64::MAX, i64::MIN, -9007199254740993] {
        out.push(Case { fname: "parse_int", args: vec![Arg::Call("parse_string".into(), vec![qa()])], lets: vec![], doc: m(vec![("a", i(n))]), form: "roundtrip-int" });
    }
    // substring: all index pairs over a set of strings (ASCII compared, others must not crash)
    for sv in ["", "a", "abc", "héllo", "a€b", "😀x", "abcdef"] {
        let n = sv.len();
        for a in 0..=n + 1 {
            for b2 in 0..=n + 1 {
                out.push(Case { fname: "substring", args: vec![qa(), Arg::Lit(i(a as i64)), Arg::Lit(i(b2 as i64))], lets: vec![], doc: m(vec![("a", s(sv))]), form: "substring-indices" });
            }
        }
    }
    // indices around every width a narrowing conversion could wrap at (16, 32 and 64 bits), both signs
    let mut odd: Vec<(i64, i64)> = vec![(-1, 2), (0, -1), (65536, 65537), (1, 70000)];
    for w in [1i64 << 16, 1 << 32, 1 << 31, 1 << 15, 1 << 8] {
        for (a, b2) in [(w, w + 3), (w + 1, w + 3), (1, w + 3), (w + 1, 3), (-w + 1, 3), (-w, 3), (1, -w + 3), (0, w), (w, 3)] {
            odd.push((a, b2));
        }
    }
    odd.extend([(i64::MAX, 3), (1, i64::MAX), (i64::MIN + 1, i64::MAX), (-9223372036854775807, 3), (0, -9223372036854775807)]); // i64::MIN cannot be written as a literal
    for (a, b2) in odd {
        out.push(Case { fname: "substring", args: vec![qa(), Arg::Lit(i(a)), Arg::Lit(i(b2))], lets: vec![], doc: m(vec![("a", s("abcdef"))]), form: "substring-odd-indices" });
    }
    out.push(Case { fname: "substring", args: vec![Arg::Q(false, vec![key("l"), Part::All]), Arg::Lit(i(1)), Arg::Lit(i(3))], lets: vec![], doc: m(vec![("l", l(vec![s("abcd"), s("ab"), i(5), s(""), s("xyz")]))]), form: "substring-list" });
    // index arguments given as queries, incl. unresolved / empty selections (must be an error, never a crash)
    for (qi, qj) in [(vec![key("i")], vec![key("j")]), (vec![key("nosuch")], vec![key("j")]), (vec![key("i")], vec![key("l"), Part::Filter(vec![vec![un(vec![key("zz")], UnOp::Exists, false)]])])] {
        out.push(Case { fname: "substring", args: vec![qa(), Arg::Q(false, qi), Arg::Q(false, qj)], lets: vec![], doc: m(vec![("a", s("abcdef")), ("i", i(1)), ("j", i(3)), ("l", l(vec![m(vec![("y", i(1))])]))]), form: "substring-query-indices" });
    }
    // join: 0..3-element selections x delimiters, non-string and unresolved members
    let pool = [s("a"), s("bb"), s(""), s("é")];
    let mut sels: Vec<Vec<V>> = vec![vec![]];
    for a in &pool {
        sels.push(vec![a.clone()]);
        for b2 in &pool {
            sels.push(vec![a.clone(), b2.clone()]);
            if thorough {
                for c in &pool {
                    sels.push(vec![a.clone(), b2.clone(), c.clone()]);
                }
            }
        }
    }
    sels.push(vec![s("a"), s("b"), s("c")]);
    sels.push(vec![s("a"), i(1)]);
    sels.push(vec![i(1), s("a")]);
    for sel in &sels {
        for d in [",", "", "--", " "] {
            out.push(Case { fname: "join", args: vec![Arg::Q(false, vec![key("l"), Part::All]), Arg::Lit(s(d))], lets: vec![], doc: m(vec![("l", V::List(sel.clone()))]), form: "join" });
        }
    }
    out.push(Case { fname: "join", args: vec![Arg::Q(false, vec![key("m"), Part::All, key("x")]), Arg::Lit(s(","))], lets: vec![], doc: m(vec![("m", l(vec![m(vec![("x", s("a"))]), m(vec![]), m(vec![("x", s("b"))])]))]), form: "join-unresolved" });
    out.push(Case { fname: "join", args: vec![Arg::Q(false, vec![key("l"), Part::All]), Arg::Q(false, vec![key("d")])], lets: vec![], doc: m(vec![("l", l(vec![s("a"), s("b")])), ("d", s("+"))]), form: "join-query-delimiter" });
    out.push(Case { fname: "join", args: vec![Arg::Q(false, vec![key("l"), Part::All]), Arg::Q(false, vec![key("nosuch")])], lets: vec![], doc: m(vec![("l", l(vec![s("a"), s("b")]))]), form: "join-unresolved-delimiter" });
    // regex_replace over the C13 regex table (patterns my matcher supports), literal replacements
    let pats = ["a", "^a", "a$", "a.c", "a*", "ab+", "[a-c]+", "\\d+", "a|b", "(?i)AB", "x"];
    let strs = ["", "a", "ab", "abc", "ba", "aXc", "ababc", "AB", "xaby", "123", "a1", "cab12ab"];
    for p in pats {
        for sv in strs {
            for r in ["-", ""] {
                out.push(Case { fname: "regex_replace", args: vec![qa(), Arg::Lit(s(p)), Arg::Lit(s(r))], lets: vec![], doc: m(vec![("a", s(sv))]), form: "regex_replace" });
            }
        }
    }
    // element-wise over several strings (every ordered pair / a triple of the string table, a non-string member in between)
    for p in ["a", "a.c", "[a-c]+", "\\d+", "x"] {
        for r in ["-", "<>"] {
            for (k1, s1) in strs.iter().enumerate() {
                for (k2, s2) in strs.iter().enumerate() {
                    if (k1 + 2 * k2) % 3 != 0 {
                        continue;
                    }
                    out.push(Case { fname: "regex_replace", args: vec![Arg::Q(false, vec![key("l"), Part::All]), Arg::Lit(s(p)), Arg::Lit(s(r))], lets: vec![], doc: m(vec![("l", l(vec![s(s1), s(s2)]))]), form: "regex_replace-elementwise" });
                }
            }
            out.push(Case { fname: "regex_replace", args: vec![Arg::Q(false, vec![key("l"), Part::All]), Arg::Lit(s(p)), Arg::Lit(s(r))], lets: vec![], doc: m(vec![("l", l(vec![s("abc"), i(1), s("a1"), s("cab12ab")]))]), form: "regex_replace-elementwise" });
        }
    }
    out.push(Case { fname: "regex_replace", args: vec![qa(), Arg::Q(false, vec![key("l"), Part::Filter(vec![vec![un(vec![key("zz")], UnOp::Exists, false)]])]), Arg::Lit(s("x"))], lets: vec![], doc: m(vec![("a", s("abc")), ("l", l(vec![m(vec![("y", i(1))])]))]), form: "regex_replace-empty-selection-arg" });
    out.push(Case { fname: "regex_replace", args: vec![qa(), Arg::Lit(s("(")), Arg::Lit(s("x"))], lets: vec![], doc: m(vec![("a", s("abc"))]), form: "regex_replace-bad-regex" });
    out
}

/// thorough tier only: generated argument strings, every %XY escape, wide round-trip ranges, all substrings of all short
/// strings over two letters, every ordered pair of the regex_replace string table
fn cases_deep() -> Vec<Case> {
    let unary_fns = ["to_upper", "to_lower", "url_decode", "parse_int", "parse_float", "parse_boolean", "parse_string", "json_parse", "parse_char"];
    let qa = || Arg::Q(false, vec![key("a")]);
    let mut out = vec![];
    let alpha = ['a', 'B', '\u{e9}', '%', '2', '0', ' ', '\u{df}', '-', '.'];
    let mut strs: Vec<String> = vec![];
    for a in alpha {
        strs.push(a.to_string());
        for b in alpha {
            strs.push(format!("{}{}", a, b));
            for c in alpha {
                strs.push(format!("{}{}{}", a, b, c));
            }
        }
    }
    for fname in unary_fns {
        for sv in &strs {
            out.push(Case { fname, args: vec![qa()], lets: vec![], doc: m(vec![("a", s(sv))]), form: "generated-string" });
        }
    }
    let hex = "0123456789abcdefABCDEF";
    for x in hex.chars() {
        for y in hex.chars() {
            out.push(Case { fname: "url_decode", args: vec![qa()], lets: vec![], doc: m(vec![("a", s(&format!("%{}{}", x, y)))]), form: "every-escape" });
            out.push(Case { fname: "url_decode", args: vec![qa()], lets: vec![], doc: m(vec![("a", s(&format!("a%{}{}b+c", x, y)))]), form: "every-escape" });
        }
    }
    for n in (-20000i64..=20000).filter(|n| n.abs() > 1200) {
        out.push(Case { fname: "parse_int", args: vec![Arg::Call("parse_string".into(), vec![qa()])], lets: vec![], doc: m(vec![("a", i(n))]), form: "roundtrip-int" });
        out.push(Case { fname: "parse_string", args: vec![Arg::Call("parse_int".into(), vec![qa()])], lets: vec![], doc: m(vec![("a", s(&n.to_string()))]), form: "roundtrip-string" });
    }
    for k in 0..62 {
        for n in [1i64 << k, (1i64 << k) - 1, -(1i64 << k), (1i64 << k) + 1] {
            out.push(Case { fname: "parse_int", args: vec![Arg::Call("parse_string".into(), vec![qa()])], lets: vec![], doc: m(vec![("a", i(n))]), form: "roundtrip-int" });
            out.push(Case { fname: "parse_char", args: vec![qa()], lets: vec![], doc: m(vec![("a", i(n))]), form: "query" });
        }
    }
    let mut ab: Vec<String> = vec![String::new()];
    for len in 1..=4 {
        for code in 0..(1u32 << len) {
            ab.push((0..len).map(|b| if code >> b & 1 == 1 { 'b' } else { 'a' }).collect());
        }
    }
    for sv in &ab {
        for a in 0..=5i64 {
            for b2 in 0..=5i64 {
                out.push(Case { fname: "substring", args: vec![qa(), Arg::Lit(i(a)), Arg::Lit(i(b2))], lets: vec![], doc: m(vec![("a", s(sv))]), form: "substring-indices" });
            }
        }
    }
    let rstrs = ["", "a", "ab", "abc", "ba", "aXc", "ababc", "AB", "xaby", "123", "a1", "cab12ab"];
    for p in ["a", "^a", "a$", "a.c", "a*", "ab+", "[a-c]+", "\\d+", "a|b", "(?i)AB", "x"] {
        for r in ["-", "<>", ""] {
            for s1 in rstrs {
                for s2 in rstrs {
                    out.push(Case { fname: "regex_replace", args: vec![Arg::Q(false, vec![key("l"), Part::All]), Arg::Lit(s(p)), Arg::Lit(s(r))], lets: vec![], doc: m(vec![("l", l(vec![s(s1), s(s2)]))]), form: "regex_replace-elementwise" });
                }
            }
        }
    }
    out
}

fn json_of(vs: &[V]) -> Vec<Value> {
    vs.iter().map(|v| v.to_json_value()).collect()
}

pub fn run(tier: &str) -> i32 {
    let thorough = tier == "thorough";
    let mut rep = Report::new("C18", tier);
    let mut cs = cases(true);
    if thorough {
        cs.extend(cases_deep());
    }
    let res = crate::par::run(cs.len(), rep.seed as u64, crate::par::deadline_secs(if thorough { 3000 } else { 45 }), Acc::new, |k, acc| {
        let c = &cs[k];
        let call = format!("{}({})", c.fname, c.args.iter().map(print_arg).collect::<Vec<_>>().join(", "));
        let lets: String = c.lets.iter().map(|l| format!("let {} = {}\n", l.name, print_arg(&l.val))).collect();
        let dj = c.doc.json();
        let want = expect(c.fname, &c.args, &c.doc, &c.lets);
        let (seen, rules) = observe(&lets, &call, &dj);
        acc.traces += 1;
        let replay = |exp: String, obs: String| json!({"kind":"lib","rules":rules,"data":dj,"expected":exp,"observed":obs});
        let sigbase = format!("{}:{}", c.fname, c.form);
        match (&want, &seen) {
            (_, Seen::Panic(p)) => {
                *acc.outcomes.entry("PANIC".into()).or_insert(0) += 1;
                let site = if p.contains("byte index") || p.contains("char boundary") { "substring-inside-multibyte-char" } else if p.contains("index out of bounds") { "empty-selection-argument-indexed" } else { "other" };
                acc.violate(&format!("panic:{}:{}", c.fname, site), format!("`{}` panics ({}) on {}", call, p, dj), replay("no panic".into(), p.clone()));
            }
            (Err(e), Seen::Err(_)) => {
                *acc.outcomes.entry("ERROR".into()).or_insert(0) += 1;
                let _ = e;
            }
            (Err(e), Seen::Values(v)) => {
                if e == "non-ascii" || e == "unsupported pattern" || e.starts_with("not JSON") {
                    // outside the documented domain / the oracle's reach: only required not to crash
                    *acc.outcomes.entry("unspecified".into()).or_insert(0) += 1;
                } else {
                    *acc.outcomes.entry("VALUES".into()).or_insert(0) += 1;
                    acc.violate(&format!("error-expected:{}", sigbase), format!("`{}` on {} should raise an error ({}) but yields {:?}", call, dj, e, v), replay(format!("error: {}", e), format!("{:?}", v)));
                }
            }
            (Ok(w), Seen::Err(e)) => {
                *acc.outcomes.entry("ERROR".into()).or_insert(0) += 1;
                acc.violate(&format!("unexpected-error:{}", sigbase), format!("`{}` on {} should yield {:?} but errors: {}", call, dj, json_of(w), e.chars().take(160).collect::<String>()), replay(format!("{:?}", json_of(w)), e.clone()));
            }
            (Ok(w), Seen::Values(v)) => {
                *acc.outcomes.entry("VALUES".into()).or_insert(0) += 1;
                // results that are lists are flattened by the comparison used for the dump: compare flattened
                let mut wf: Vec<Value> = vec![];
                for x in w {
                    match x {
                        V::List(items) => wf.extend(items.iter().map(|y| y.to_json_value())),
                        other => wf.push(other.to_json_value()),
                    }
                }
                if &wf != v {
                    acc.violate(&format!("wrong-result:{}", sigbase), format!("`{}` on {} yields {:?}, documented result {:?}", call, dj, v, wf), replay(format!("{:?}", wf), format!("{:?}", v)));
                } else if c.fname != "count" && !w.is_empty() {
                    acc.nontrivial += 1;
                }
            }
        }
    }, Acc::merge);
    rep.states += res.done as u64;
    rep.transitions += res.done as u64;
    let mut acc = res.acc;

    // ---- parse_char as documented: the character compares with one-character string literals
    {
        let mut pc = 0u64;
        for (val, ch) in [(i(1), "1"), (i(0), "0"), (i(9), "9"), (s("x"), "x"), (s("7"), "7"), (s(" "), " "), (s("Z"), "Z")] {
            for (form, lets, call) in [("query", String::new(), "parse_char(a)".to_string()), ("variable", "let v = a\n".to_string(), "parse_char(%v)".to_string())] {
                let dj = m(vec![("a", val.clone())]).json();
                let rules = format!("{}rule same {{\n  let c = {}\n  %c == '{}'\n}}\nrule other {{\n  let c = {}\n  %c == 'Q'\n}}\nrule ne {{\n  let c = {}\n  %c != 'Q'\n}}\nrule listed {{\n  let c = {}\n  %c in ['Q', '{}']\n}}\n", lets, call, ch, call, call, call, ch);
                let o = crate::impl_::lib_run(&rules, &dj);
                acc.traces += 1;
                pc += 1;
                let want = "file=FAIL same=PASS other=FAIL ne=PASS listed=PASS";
                if o.short() != want {
                    acc.violate(&format!("parse_char-not-comparable-with-string:{}", form), format!("`{}` on {}: the character does not compare with one-character strings as documented (`%converted == '1'`): {}", call, dj, o.short()), json!({"kind":"lib","rules":rules,"data":dj,"expected":want,"observed":o.short()}));
                }
            }
        }
        // character ranges r[a,z]: within / outside / the four bracket forms on a bound
        for (val, inside_az, on_upper_x) in [(s("m"), true, false), (s("x"), true, true), (s("Z"), false, false), (s("a"), true, false), (s("{"), false, false)] {
            let dj = m(vec![("a", val.clone())]).json();
            let rules = "rule az {\n  let c = parse_char(a)\n  %c in r[a,z]\n}\nrule ax_open {\n  let c = parse_char(a)\n  %c in r(a,x)\n}\nrule ax_closed {\n  let c = parse_char(a)\n  %c in r[a,x]\n}\n".to_string();
            let o = crate::impl_::lib_run(&rules, &dj);
            acc.traces += 1;
            pc += 1;
            let ch = match &val { V::Str(x) => x.chars().next().unwrap(), _ => ' ' };
            let st = |b: bool| if b { "PASS" } else { "FAIL" };
            let open_ax = ch > 'a' && ch < 'x';
            let closed_ax = ('a'..='x').contains(&ch);
            let fail = !(inside_az && open_ax && closed_ax);
            let want = format!("file={} az={} ax_open={} ax_closed={}", st(!fail), st(inside_az), st(open_ax), st(closed_ax));
            let _ = on_upper_x;
            if o.short() != want {
                acc.violate("parse_char-range", format!("character {:?} against r[a,z], r(a,x), r[a,x]: {} (expected {})", ch, o.short(), want), json!({"kind":"lib","rules":rules,"data":dj,"expected":want,"observed":o.short()}));
            }
        }
        rep.states += pc;
        rep.transitions += pc;
    }

    // ---- count(q) over every query of the plain alphabet x documents
    let qs = queries_plain(2);
    let mut docs = docs_quick();
    if thorough {
        // the json_parse round trip also over the documents of C11 that can be written as a Guard literal
        // (strings with raw DEL / C1 / line-separator characters are C11's open finding about JSON read through the YAML loader)
        fn plain_strings(v: &V) -> bool {
            match v {
                V::Str(x) => !x.chars().any(|c| matches!(c as u32, 0..=0x1f | 0x7f..=0x9f | 0x2028 | 0x2029 | 0xfeff)),
                V::List(l) => l.iter().all(plain_strings),
                V::Map(m) => m.iter().all(|(k, x)| plain_strings(&V::Str(k.clone())) && plain_strings(x)),
                _ => true,
            }
        }
        docs.extend(crate::c11::documents(true).into_iter().filter(|d| d.guard_expressible() && plain_strings(d)).step_by(3));
    }
    let mut cnt = 0u64;
    for q in &qs {
        for d in &docs {
            let a = Arg::Q(false, q.clone());
            let call = format!("count({})", print_arg(&a));
            let want = expect("count", &[a], d, &[]);
            let (seen, rules) = observe("", &call, &d.json());
            acc.traces += 1;
            cnt += 1;
            if let (Ok(w), Seen::Values(v)) = (&want, &seen) {
                if &json_of(w) != v {
                    acc.violate("wrong-result:count:query-alphabet", format!("`{}` on {} yields {:?}, number of resolved values {:?}", call, d.json(), v, json_of(w)), json!({"kind":"lib","rules":rules,"data":d.json(),"expected":format!("{:?}", json_of(w)),"observed":format!("{:?}", v)}));
                }
            } else if matches!(seen, Seen::Panic(_)) || matches!(seen, Seen::Err(_)) {
                acc.violate("count-errors", format!("`{}` on {}: {:?}", call, d.json(), seen), json!({"kind":"lib","rules":rules,"data":d.json(),"expected":"a count","observed":format!("{:?}", seen)}));
            }
        }
    }
    rep.states += cnt;
    rep.transitions += cnt;

    // ---- json_parse(JSON text of D) == D for every document, observed by literal equality
    let mut jp = 0u64;
    for d in &docs {
        for text in [d.json(), crate::yamlw::write(d, &crate::yamlw::Layout::new("json-pretty")).0] {
            let host = m(vec![("t", s(&text))]);
            if !d.guard_expressible() {
                continue;
            }
            let rules = format!("rule same {{\n  let r = json_parse(t)\n  %r == {}\n}}\nrule typed {{\n  let r = json_parse(t)\n  %r is_struct\n}}\n", d.guard());
            acc.traces += 1;
            jp += 1;
            match lib_raw(&rules, &host.json(), false).map(|r| r.map(|sv| serde_json::from_str::<Value>(&sv).unwrap_or(Value::Null))) {
                Ok(Ok(v)) => {
                    let comp: Vec<&str> = v["compliant"].as_array().map(|a| a.iter().filter_map(|x| x.as_str()).collect()).unwrap_or_default();
                    // an empty map document compared with {} literal: both sides empty maps are equal
                    if !comp.contains(&"same") || !comp.contains(&"typed") {
                        acc.violate("json_parse-roundtrip", format!("json_parse of the JSON text of {} is not equal to the document (compliant: {:?})", d.json(), comp), json!({"kind":"lib","rules":rules,"data":host.json(),"expected":"same, typed PASS","observed":format!("{:?}", comp)}));
                    }
                }
                other => acc.violate("json_parse-roundtrip", format!("json_parse of {}: {:?}", d.json(), other.map(|x| x.map(|_| ()))), json!({"kind":"lib","rules":rules,"data":host.json(),"expected":"PASS","observed":"error"})),
            }
        }
    }
    rep.states += jp;
    rep.transitions += jp;

    // ---- a function result bound to a variable behaves like any other value in later clauses
    let mut later = 0u64;
    for (call, doc, probes) in [
        ("to_upper(a)", m(vec![("a", s("abc"))]), vec![("%r is_string", "PASS"), ("%r == \"ABC\"", "PASS"), ("%r in [\"ABC\", \"x\"]", "PASS"), ("%r != \"ABC\"", "FAIL"), ("%r exists", "PASS"), ("%r !empty", "PASS"), ("%r { this is_string }", "PASS"), ("some %r == /^AB/", "PASS")]),
        ("parse_int(a)", m(vec![("a", s("12"))]), vec![("%r is_int", "PASS"), ("%r == 12", "PASS"), ("%r > 11", "PASS"), ("%r in r[10,20]", "PASS"), ("%r < 5", "FAIL"), ("%r is_string", "FAIL")]),
        ("count(l[*])", m(vec![("l", l(vec![i(1), i(2), i(3)]))]), vec![("%r == 3", "PASS"), ("%r >= 3", "PASS"), ("%r is_int", "PASS"), ("%r != 3", "FAIL")]),
        ("parse_float(a)", m(vec![("a", i(2))]), vec![("%r is_float", "PASS"), ("%r == 2.0", "PASS"), ("%r is_int", "FAIL")]),
        ("parse_boolean(a)", m(vec![("a", s("TrUe"))]), vec![("%r is_bool", "PASS"), ("%r == true", "PASS"), ("%r == false", "FAIL")]),
        ("json_parse(a)", m(vec![("a", s("{\"k\":[1,2],\"s\":\"v\"}"))]), vec![("%r is_struct", "PASS"), ("%r.k[*] <= 2", "PASS"), ("%r.s == \"v\"", "PASS"), ("%r.k is_list", "PASS"), ("%r.nosuch exists", "FAIL"), ("%r.k[ this > 1 ] == 2", "PASS")]),
        ("to_lower(l[*])", m(vec![("l", l(vec![s("A"), s("B")]))]), vec![("%r in [\"a\", \"b\"]", "PASS"), ("some %r == \"b\"", "PASS"), ("%r == \"a\"", "FAIL")]),
        ("to_upper(m[ zz exists ].x)", m(vec![("m", l(vec![m(vec![("x", s("a"))])]))]), vec![("%r empty", "PASS"), ("%r !empty", "FAIL"), ("%r == \"A\"", "SKIP")]),
    ] {
        for (probe, want) in probes {
            let rules = format!("rule p {{\n  let r = {}\n  {}\n}}\n", call, probe);
            acc.traces += 1;
            later += 1;
            let got = match lib_raw(&rules, &doc.json(), false) {
                Ok(Ok(sv)) => serde_json::from_str::<Value>(&sv).ok().and_then(|v| v["status"].as_str().map(|x| x.to_string())).unwrap_or_default(),
                other => format!("{:?}", other),
            };
            *acc.outcomes.entry(format!("later-{}", got.chars().take(5).collect::<String>())).or_insert(0) += 1;
            if got != want {
                acc.violate("result-in-later-clause", format!("`let r = {}` then `{}` on {} is {} (expected {})", call, probe, doc.json(), got, want), json!({"kind":"lib","rules":rules,"data":doc.json(),"expected":want,"observed":got}));
            }
        }
    }
    rep.states += later;
    rep.transitions += later;

    rep.distinct_nontrivial = cs.len() as u64;
    rep.extra.insert("function_cases".into(), json!(cs.len()));
    rep.extra.insert("count_query_cases".into(), json!(cnt));
    rep.samples.push(json!({"call": "substring(a, 1, 3)", "data": "{\"a\":\"abcdef\"}", "expected": ["bc"]}));
    rep.samples.push(json!({"call": "to_upper(m[*].x)", "data": "{\"m\":[{\"x\":\"a\"},{\"y\":0},{\"x\":\"héllo\"}]}", "expected": ["A", "HÉLLO"]}));
    rep.rule = "states = (function, argument forms: literal / query / variable / list / list with unresolved member / empty selection / nested call, argument values); the values the function yields are dumped by a deliberately failing clause and compared, in order, with an independent implementation written from docs/FUNCTIONS.md; errors must occur exactly where the documentation says; substring over all index pairs, join over all small selections x delimiters, regex_replace over a pattern x string table, count over the whole query alphabet, json_parse round trip of every document, results used in later clauses".into();
    rep.assumptions = vec!["[pin] regex_replace yields the concatenation of the replacement per match; substring on non-ASCII strings and json_parse of non-JSON text are outside the documented domain and only required not to crash".into()];
    acc.into_report(&mut rep);
    rep.finish()
}
