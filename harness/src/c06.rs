//! C06 — exit codes of validate and test faithfully encode the outcome (DESIGN 5/C06).
//! All sequences of 1..3 rules files over six kinds x all sequences of 1..3 data files over four kinds
//! x invocation modes, against a closed-form reference `allowed_exit`.
use crate::c01::Acc;
use crate::cli::*;
use crate::evidence::Report;
use serde_json::json;

const RK: [(&str, &str); 12] = [
    ("PASSING", "rule p when a exists { a exists }\n"),
    ("FAILING", "rule f when a exists { a == 1 }\n"),
    ("SKIPPING", "rule s when z exists { a == 1 }\n"),
    ("BROKEN", "rule b { a == }\n"),
    ("EMPTY", "# only a comment\n"),
    ("ERRORING", "rule e { a empty }\n"),
    // the same evaluation error raised at other sites (each guarded so that a document without `a` skips the rule)
    ("ERRORING-WHEN-BODY", "rule e { when a exists { a empty } }\n"),
    ("ERRORING-WHEN-COND", "rule e when a exists { when a empty { a exists } }\n"),
    ("ERRORING-BLOCK", "rule e when a exists { this { a empty } }\n"),
    ("ERRORING-FILTER", "rule e when a exists { this[ a empty ] exists }\n"),
    ("ERRORING-OR", "rule e when a exists { a == 3 or a empty }\n"),
    ("ERRORING-UNDEFINED", "rule e when a exists { when a exists { %undefined exists } }\n"),
];
const RK_BASIC: usize = 6;
const DK: [(&str, &str); 5] = [("COMPLIANT", "{\"a\": 1}\n"), ("NONCOMPLIANT", "{\"a\": 2}\n"), ("MALFORMED", "{\"a\": [1,\n"), ("EMPTY", ""), ("INAPPLICABLE", "{\"q\": 1}\n")];

#[derive(Clone, Copy, Debug, PartialEq)]
pub enum Mode {
    Plain,
    PlainVerbose,
    PlainJson,
    PlainPrintJson,
    StructJson,
    StructYaml,
    StructJunit,
    StructSarif,
    PayloadPlain,
    PayloadStruct,
    StdinData,
    RulesDir,
    DataDir,
    BothDirStruct,
    MissingRules,
    MissingData,
}
pub const MODES: [Mode; 16] = [
    Mode::Plain,
    Mode::PlainVerbose,
    Mode::PlainJson,
    Mode::PlainPrintJson,
    Mode::StructJson,
    Mode::StructYaml,
    Mode::StructJunit,
    Mode::StructSarif,
    Mode::PayloadPlain,
    Mode::PayloadStruct,
    Mode::StdinData,
    Mode::RulesDir,
    Mode::DataDir,
    Mode::BothDirStruct,
    Mode::MissingRules,
    Mode::MissingData,
];

#[derive(Debug, Clone, PartialEq)]
pub enum Allowed {
    Exactly(Vec<i32>),
    ErrorExit, // non-zero, never 19
}
impl Allowed {
    pub fn admits(&self, status: i32) -> bool {
        match self {
            Allowed::Exactly(v) => v.contains(&status),
            Allowed::ErrorExit => status != 0 && status != 19 && status > 0 && status != 101 && status != 134,
        }
    }
}

/// the closed-form reference transcribing the property text
pub fn allowed_exit(rules: &[usize], data: &[usize], mode: Mode) -> Allowed {
    if matches!(mode, Mode::MissingRules | Mode::MissingData) {
        return Allowed::ErrorExit;
    }
    if data.iter().any(|d| DK[*d].0 == "MALFORMED" || DK[*d].0 == "EMPTY") {
        return Allowed::ErrorExit;
    }
    // `a empty` is undefined on a number: an evaluation error whenever some document carries a numeric `a`
    if rules.iter().any(|r| RK[*r].0.starts_with("ERRORING")) && data.iter().any(|d| DK[*d].0 == "COMPLIANT" || DK[*d].0 == "NONCOMPLIANT") {
        return Allowed::ErrorExit;
    }
    let pe = rules.iter().any(|r| RK[*r].0 == "BROKEN");
    let fail = rules.iter().any(|r| RK[*r].0 == "FAILING") && data.iter().any(|d| DK[*d].0 == "NONCOMPLIANT");
    match (pe, fail) {
        (false, false) => Allowed::Exactly(vec![0]),
        (false, true) => Allowed::Exactly(vec![19]),
        (true, false) => Allowed::Exactly(vec![5]),
        (true, true) => Allowed::Exactly(vec![5, 19]),
    }
}

fn seqs(n_kinds: usize, max_len: usize) -> Vec<Vec<usize>> {
    let mut out: Vec<Vec<usize>> = vec![];
    let mut cur: Vec<Vec<usize>> = vec![vec![]];
    for _ in 0..max_len {
        let mut next = vec![];
        for c in &cur {
            for k in 0..n_kinds {
                let mut n = c.clone();
                n.push(k);
                next.push(n);
            }
        }
        out.extend(next.clone());
        cur = next;
    }
    out
}

/// materialise the file pool in the thread's workdir once; returns nothing (paths are computed)
fn ensure_pool() {
    let marker = workdir().join("pool.ok");
    if marker.exists() {
        return;
    }
    for (k, (name, text)) in RK.iter().enumerate() {
        for pos in 0..3 {
            put(&format!("rules/{}_{}_{}.guard", pos, k, name), text);
        }
    }
    for (k, (name, text)) in DK.iter().enumerate() {
        for pos in 0..3 {
            put(&format!("data/{}_{}_{}.json", pos, k, name), text);
        }
    }
    std::fs::write(marker, "ok").ok();
}
fn rpath(pos: usize, k: usize) -> String {
    workdir().join(format!("rules/{}_{}_{}.guard", pos, k, RK[k].0)).to_string_lossy().to_string()
}
fn dpath(pos: usize, k: usize) -> String {
    workdir().join(format!("data/{}_{}_{}.json", pos, k, DK[k].0)).to_string_lossy().to_string()
}
fn seq_dir(kind: &str, seq: &[usize]) -> String {
    let name = format!("{}dir_{}", kind, seq.iter().map(|k| k.to_string()).collect::<Vec<_>>().join("_"));
    let d = workdir().join(&name);
    if !d.exists() {
        for (pos, k) in seq.iter().enumerate() {
            if kind == "r" {
                put(&format!("{}/{}_{}.guard", name, pos, RK[*k].0), RK[*k].1);
            } else {
                put(&format!("{}/{}_{}.json", name, pos, DK[*k].0), DK[*k].1);
            }
        }
    }
    d.to_string_lossy().to_string()
}

pub fn build_case(rules: &[usize], data: &[usize], mode: Mode) -> Option<(Vec<String>, String)> {
    ensure_pool();
    let mut argv = sv(&["validate"]);
    let mut stdin = String::new();
    let rfiles: Vec<String> = rules.iter().enumerate().map(|(p, k)| rpath(p, *k)).collect();
    let dfiles: Vec<String> = data.iter().enumerate().map(|(p, k)| dpath(p, *k)).collect();
    let add_r = |argv: &mut Vec<String>| {
        for r in &rfiles {
            argv.push("-r".into());
            argv.push(r.clone());
        }
    };
    let add_d = |argv: &mut Vec<String>| {
        for d in &dfiles {
            argv.push("-d".into());
            argv.push(d.clone());
        }
    };
    let structured = |argv: &mut Vec<String>, f: &str| argv.extend(sv(&["--structured", "-o", f, "-S", "none"]));
    match mode {
        Mode::Plain => {
            add_r(&mut argv);
            add_d(&mut argv);
        }
        Mode::PlainVerbose => {
            add_r(&mut argv);
            add_d(&mut argv);
            argv.push("-v".into());
        }
        Mode::PlainJson => {
            add_r(&mut argv);
            add_d(&mut argv);
            argv.extend(sv(&["-o", "json"]));
        }
        Mode::PlainPrintJson => {
            add_r(&mut argv);
            add_d(&mut argv);
            argv.push("-p".into());
        }
        Mode::StructJson => {
            add_r(&mut argv);
            add_d(&mut argv);
            structured(&mut argv, "json");
        }
        Mode::StructYaml => {
            add_r(&mut argv);
            add_d(&mut argv);
            structured(&mut argv, "yaml");
        }
        Mode::StructJunit => {
            add_r(&mut argv);
            add_d(&mut argv);
            structured(&mut argv, "junit");
        }
        Mode::StructSarif => {
            add_r(&mut argv);
            add_d(&mut argv);
            structured(&mut argv, "sarif");
        }
        Mode::PayloadPlain | Mode::PayloadStruct => {
            argv.push("--payload".into());
            if mode == Mode::PayloadStruct {
                structured(&mut argv, "json");
            }
            let r: Vec<&str> = rules.iter().map(|k| RK[*k].1).collect();
            let d: Vec<&str> = data.iter().map(|k| DK[*k].1).collect();
            stdin = json!({"rules": r, "data": d}).to_string();
        }
        Mode::StdinData => {
            if data.len() != 1 {
                return None;
            }
            add_r(&mut argv);
            stdin = DK[data[0]].1.to_string();
        }
        Mode::RulesDir => {
            argv.push("-r".into());
            argv.push(seq_dir("r", rules));
            add_d(&mut argv);
        }
        Mode::DataDir => {
            add_r(&mut argv);
            argv.push("-d".into());
            argv.push(seq_dir("d", data));
        }
        Mode::BothDirStruct => {
            argv.push("-r".into());
            argv.push(seq_dir("r", rules));
            argv.push("-d".into());
            argv.push(seq_dir("d", data));
            structured(&mut argv, "json");
        }
        Mode::MissingRules => {
            add_r(&mut argv);
            argv.push("-r".into());
            argv.push(workdir().join("no-such-rules.guard").to_string_lossy().to_string());
            add_d(&mut argv);
        }
        Mode::MissingData => {
            add_r(&mut argv);
            add_d(&mut argv);
            argv.push("-d".into());
            argv.push(workdir().join("no-such-data.json").to_string_lossy().to_string());
        }
    }
    Some((argv, stdin))
}

// ------------------------------------------------------------------ test command
const TRULES: [(&str, &str); 2] = [("valid", "rule f { a == 1 }\nrule p { a exists }\nrule s when b exists { a == 1 }\n"), ("BROKEN", "rule f { a == }\n")];
// exp-X-got-Y: rule s is expected X and evaluates to Y (b absent: SKIP; b present: a == 1 decides)
const TFILES: [(&str, &str); 14] = [
    ("exp-PASS-got-PASS", "- input: {a: 1, b: 1}\n  expectations:\n    rules:\n      s: PASS\n"),
    ("exp-PASS-got-FAIL", "- input: {a: 2, b: 1}\n  expectations:\n    rules:\n      s: PASS\n"),
    ("exp-PASS-got-SKIP", "- input: {a: 1}\n  expectations:\n    rules:\n      s: PASS\n"),
    ("exp-FAIL-got-PASS", "- input: {a: 1, b: 1}\n  expectations:\n    rules:\n      s: FAIL\n"),
    ("exp-FAIL-got-FAIL", "- input: {a: 2, b: 1}\n  expectations:\n    rules:\n      s: FAIL\n"),
    ("exp-FAIL-got-SKIP", "- input: {a: 2}\n  expectations:\n    rules:\n      s: FAIL\n"),
    ("exp-SKIP-got-PASS", "- input: {a: 1, b: 1}\n  expectations:\n    rules:\n      s: SKIP\n"),
    ("exp-SKIP-got-FAIL", "- input: {a: 2, b: 1}\n  expectations:\n    rules:\n      s: SKIP\n"),
    ("exp-SKIP-got-SKIP", "- input: {a: 1}\n  expectations:\n    rules:\n      s: SKIP\n"),
    ("all-match", "- input: {a: 1}\n  expectations:\n    rules:\n      f: PASS\n      p: PASS\n- input: {a: 2}\n  expectations:\n    rules:\n      f: FAIL\n      p: PASS\n"),
    ("one-mismatch", "- input: {a: 2}\n  expectations:\n    rules:\n      f: PASS\n      p: PASS\n"),
    ("malformed", "- input: {a: 1\n  expectations\n"),
    ("bad-status-word", "- input: {a: 1}\n  expectations:\n    rules:\n      f: MAYBE\n"),
    ("no-expectations", "- input: {a: 1}\n  expectations:\n    rules: {}\n"),
];
const TFMT: [&str; 5] = ["plain", "plain-v", "json", "yaml", "junit"];

#[derive(Debug, Clone, Copy, PartialEq)]
enum TAllowed {
    Zero,
    Seven,
    NonZero,
}
fn test_allowed(rk: usize, files: &[usize]) -> TAllowed {
    if TRULES[rk].0 == "BROKEN" {
        return TAllowed::NonZero;
    }
    if files.iter().any(|f| TFILES[*f].0 == "malformed" || TFILES[*f].0 == "bad-status-word") {
        return TAllowed::NonZero;
    }
    let mismatch = |n: &str| -> bool {
        if n == "one-mismatch" {
            return true;
        }
        match n.strip_prefix("exp-").and_then(|r| r.split_once("-got-")) {
            Some((e, g)) => e != g,
            None => false,
        }
    };
    if files.iter().any(|f| mismatch(TFILES[*f].0)) {
        return TAllowed::Seven;
    }
    TAllowed::Zero
}
fn build_test_case(rk: usize, files: &[usize], fmt: &str, dir_layout: bool) -> Vec<String> {
    let tag = format!("t_{}_{}_{}", rk, files.iter().map(|k| k.to_string()).collect::<Vec<_>>().join("-"), dir_layout);
    let base = workdir().join(&tag);
    if !base.exists() {
        put(&format!("{}/x.guard", tag), TRULES[rk].1);
        for (p, f) in files.iter().enumerate() {
            put(&format!("{}/tests/x_{}.yaml", tag, p), TFILES[*f].1);
        }
    }
    let b = base.to_string_lossy().to_string();
    let mut argv = sv(&["test"]);
    if dir_layout {
        argv.extend(vec!["--dir".to_string(), b]);
    } else {
        argv.extend(vec!["-r".to_string(), format!("{}/x.guard", b), "-t".to_string(), if files.len() == 1 { format!("{}/tests/x_0.yaml", b) } else { format!("{}/tests", b) }]);
    }
    match fmt {
        "plain" => {}
        "plain-v" => argv.push("-v".into()),
        f => argv.extend(sv(&["-o", f])),
    }
    argv
}

pub fn run(tier: &str) -> i32 {
    let thorough = tier == "thorough";
    let mut rep = Report::new("C06", tier);
    let rs = seqs(RK.len(), 3);
    let ds = seqs(DK.len(), 3);
    let mut cases: Vec<(usize, usize, Mode)> = vec![];
    for (ri, r) in rs.iter().enumerate() {
        for (di, d) in ds.iter().enumerate() {
            // the error-site variants: at most one per sequence, sequences of one or two rules files
            let variants = r.iter().filter(|k| **k >= RK_BASIC).count();
            if variants > 1 || (variants == 1 && r.len() > 2) {
                continue;
            }
            for m in MODES {
                if m == Mode::StdinData && d.len() != 1 {
                    continue;
                }
                // quick: everything up to 2 x 2; 3 rules files or 3 data files only in the three main modes
                if !thorough && (r.len() > 2 || d.len() > 2) {
                    if r.len() > 2 && d.len() > 2 {
                        continue;
                    }
                    if !matches!(m, Mode::Plain | Mode::StructJson | Mode::PayloadPlain) {
                        continue;
                    }
                    if d.len() > 2 && r.len() > 1 {
                        continue;
                    }
                }
                cases.push((ri, di, m));
            }
        }
    }
    let n = cases.len();
    let proc_every = if thorough { 4 } else { 23 };
    let res = crate::par::run(n, rep.seed as u64, crate::par::deadline_secs(if thorough { 3000 } else { 45 }), Acc::new, |k, acc| {
        let (ri, di, mode) = cases[k];
        let (r, d) = (&rs[ri], &ds[di]);
        let (argv, stdin) = match build_case(r, d, mode) {
            Some(x) => x,
            None => return,
        };
        let want = allowed_exit(r, d, mode);
        let o = cli_inproc(&argv, &stdin);
        acc.traces += 1;
        let st = o.status();
        *acc.outcomes.entry(format!("exit-{}", st)).or_insert(0) += 1;
        let names = format!("rules={:?} data={:?} mode={:?}", r.iter().map(|k| RK[*k].0).collect::<Vec<_>>(), d.iter().map(|k| DK[*k].0).collect::<Vec<_>>(), mode);
        let replay = |obs: String| json!({"kind":"cli","argv":argv,"stdin":stdin,"files":{"rules": r.iter().map(|k| RK[*k].1).collect::<Vec<_>>(), "data": d.iter().map(|k| DK[*k].1).collect::<Vec<_>>()},"expected":format!("{:?}", want),"observed":obs});
        if let Some(p) = &o.panic {
            acc.violate(&format!("panic:{:?}", mode), format!("{}: panic {}", names, p), replay(format!("panic {}", p)));
            return;
        }
        if !want.admits(st) {
            let sig = format!("validate:{:?}:want-{}:got-{}", mode, match &want { Allowed::Exactly(v) => format!("{:?}", v), Allowed::ErrorExit => "error".into() }, st);
            acc.violate(&sig, format!("{} exits {} (allowed {:?}); stderr: {}", names, st, want, o.err.chars().take(160).collect::<String>()), replay(format!("exit {}", st)));
        }
        // the real process must agree with the in-process result (main.rs maps Err to exit(-1))
        if k % proc_every == 0 {
            let p = cli_proc(&argv, &stdin, &[], None, 10_000);
            acc.traces += 1;
            acc.nontrivial += 1;
            if p.status != st {
                acc.violate(&format!("process-vs-inprocess:{:?}", mode), format!("{}: process exit {} but in-process {}", names, p.status, st), replay(format!("process exit {} / in-process {}", p.status, st)));
            }
            if !want.admits(p.status) {
                acc.violate(&format!("validate-proc:{:?}:got-{}", mode, p.status), format!("{}: process exits {} (allowed {:?})", names, p.status, want), replay(format!("process exit {}", p.status)));
            }
        }
    }, Acc::merge);
    rep.states += res.done as u64;
    rep.transitions += res.done as u64;
    if res.capped {
        rep.caps_hit.push(format!("wall-clock cap: {} of {} validate cases", res.done, n));
    }
    let mut acc = res.acc;
    rep.extra.insert("validate_cases".into(), json!(n));
    rep.extra.insert("process_runs".into(), json!(acc.nontrivial));

    // ---- test command
    let fseqs = seqs(TFILES.len(), 2);
    let mut tcases = vec![];
    for rk in 0..TRULES.len() {
        for fs in &fseqs {
            for fmt in TFMT {
                for dirl in [false, true] {
                    tcases.push((rk, fs.clone(), fmt, dirl));
                }
            }
        }
    }
    let tr = crate::par::run(tcases.len(), 0, None, Acc::new, |k, acc| {
        let (rk, fs, fmt, dirl) = &tcases[k];
        let argv = build_test_case(*rk, fs, fmt, *dirl);
        let want = test_allowed(*rk, fs);
        let o = cli_inproc(&argv, "");
        acc.traces += 1;
        let st = o.status();
        *acc.outcomes.entry(format!("test-exit-{}", st)).or_insert(0) += 1;
        let names = format!("test rules={} files={:?} fmt={} dir={}", TRULES[*rk].0, fs.iter().map(|f| TFILES[*f].0).collect::<Vec<_>>(), fmt, dirl);
        let replay = json!({"kind":"cli","argv":argv,"stdin":"","files":{"rules":TRULES[*rk].1,"tests":fs.iter().map(|f| TFILES[*f].1).collect::<Vec<_>>()},"expected":format!("{:?}", want),"observed":format!("exit {}", st)});
        if let Some(p) = &o.panic {
            acc.violate(&format!("test-panic:{}", fmt), format!("{}: panic {}", names, p), replay);
            return;
        }
        let ok = match want {
            TAllowed::Zero => st == 0,
            TAllowed::Seven => st == 7,
            TAllowed::NonZero => st != 0 && st != 101,
        };
        if !ok {
            acc.violate(&format!("test:{}:{}:want-{:?}:got-{}", fmt, if *dirl { "dir" } else { "files" }, want, st), format!("{} exits {} (want {:?}); stdout: {}", names, st, want, o.out.chars().take(200).collect::<String>()), replay);
        }
        if k % 7 == 0 {
            let p = cli_proc(&argv, "", &[], None, 10_000);
            acc.traces += 1;
            if p.status != st {
                acc.violate("test-process-vs-inprocess", format!("{}: process exit {} but in-process {}", names, p.status, st), json!({"kind":"cli","argv":argv,"stdin":"","expected":format!("exit {}", st),"observed":format!("exit {}", p.status)}));
            }
        }
    }, Acc::merge);
    rep.states += tcases.len() as u64;
    rep.transitions += tcases.len() as u64;
    acc = Acc::merge(acc, tr.acc);
    rep.extra.insert("test_cases".into(), json!(tcases.len()));

    // --dir with two rules files, each with its own test file: every ordered pair of (rules kind, test-file kind)
    let mut dcases = vec![];
    for r1 in 0..TRULES.len() {
        for f1 in 0..TFILES.len() {
            for r2 in 0..TRULES.len() {
                for f2 in 0..TFILES.len() {
                    for fmt in TFMT {
                        // the two rules files are called x / y, or r1 / r10 (one name a prefix of the other)
                        dcases.push((r1, f1, r2, f2, fmt, ("x", "y")));
                        dcases.push((r1, f1, r2, f2, fmt, ("r1", "r10")));
                    }
                }
            }
        }
    }
    let dr = crate::par::run(dcases.len(), 0, None, Acc::new, |k, acc| {
        let (r1, f1, r2, f2, fmt, (nx, ny)) = dcases[k];
        let tag = format!("td_{}_{}_{}_{}_{}", r1, f1, r2, f2, nx);
        let base = workdir().join(&tag);
        if !base.exists() {
            put(&format!("{}/{}.guard", tag, nx), TRULES[r1].1);
            put(&format!("{}/tests/{}_t.yaml", tag, nx), TFILES[f1].1);
            put(&format!("{}/{}.guard", tag, ny), TRULES[r2].1);
            put(&format!("{}/tests/{}_t.yaml", tag, ny), TFILES[f2].1);
        }
        let mut argv = sv(&["test", "--dir"]);
        argv.push(base.to_string_lossy().to_string());
        match fmt {
            "plain" => {}
            "plain-v" => argv.push("-v".into()),
            f => argv.extend(sv(&["-o", f])),
        }
        let wa = test_allowed(r1, &[f1]);
        let wb = test_allowed(r2, &[f2]);
        let want = if wa == TAllowed::NonZero || wb == TAllowed::NonZero {
            TAllowed::NonZero
        } else if wa == TAllowed::Seven || wb == TAllowed::Seven {
            TAllowed::Seven
        } else {
            TAllowed::Zero
        };
        let o = cli_inproc(&argv, "");
        acc.traces += 1;
        let st = o.status();
        *acc.outcomes.entry(format!("test-exit-{}", st)).or_insert(0) += 1;
        let ok = match want {
            TAllowed::Zero => st == 0,
            TAllowed::Seven => st == 7,
            TAllowed::NonZero => st != 0 && st != 101,
        };
        if !ok || o.panic.is_some() {
            acc.violate(&format!("test-dir-two-files{}:{}:want-{:?}:got-{}", if nx == "x" { "" } else { "-prefix-names" }, fmt, want, st), format!("test --dir with {nx}.guard={} {nx}_t={} {ny}.guard={} {ny}_t={} fmt={} exits {} (want {:?})", TRULES[r1].0, TFILES[f1].0, TRULES[r2].0, TFILES[f2].0, fmt, st, want), json!({"kind":"cli","argv":argv,"stdin":"","files":{"x.guard":TRULES[r1].1,"tests/x_t.yaml":TFILES[f1].1,"y.guard":TRULES[r2].1,"tests/y_t.yaml":TFILES[f2].1},"expected":format!("{:?}", want),"observed":format!("exit {}", st)}));
        }
    }, Acc::merge);
    rep.states += dcases.len() as u64;
    rep.transitions += dcases.len() as u64;
    acc = Acc::merge(acc, dr.acc);
    // ---- a rules file that cannot be read as text (not UTF-8) is a rules file that did not parse: never exit 0, and 19 only
    //      when another rules file FAILs; alone, before and after a readable rules file, in every output mode
    {
        let d = reset_dir("c06u");
        let bad = format!("{}/bad.guard", d);
        std::fs::write(&bad, [b'r', b'u', b'l', b'e', b' ', b'r', b' ', b'{', b' ', b'a', b' ', b'=', b'=', b' ', b'"', 0xff, 0xfe, b'"', b' ', b'}', b'\n']).unwrap();
        let pass = put("c06u/pass.guard", RK[0].1);
        let fail = put("c06u/fail.guard", RK[1].1);
        let ok_doc = put("c06u/ok.json", DK[0].1);
        let bad_doc = put("c06u/nc.json", DK[1].1);
        let mut n = 0u64;
        for (label, rules, may_fail) in [("alone", vec![bad.clone()], false), ("before-passing", vec![bad.clone(), pass.clone()], false), ("after-passing", vec![pass.clone(), bad.clone()], false), ("before-failing", vec![bad.clone(), fail.clone()], true), ("after-failing", vec![fail.clone(), bad.clone()], true)] {
            for doc in [&ok_doc, &bad_doc] {
                for extra in [vec![], vec!["-S", "all"], vec!["-v"], vec!["-o", "json"], vec!["-o", "yaml"], vec!["--structured", "-o", "json", "-S", "none"], vec!["--structured", "-o", "yaml", "-S", "none"], vec!["--structured", "-o", "junit", "-S", "none"], vec!["--structured", "-o", "sarif", "-S", "none"]] {
                    let mut argv = sv(&["validate"]);
                    for r in &rules {
                        argv.extend(vec!["-r".to_string(), r.clone()]);
                    }
                    argv.extend(vec!["-d".to_string(), doc.to_string()]);
                    argv.extend(sv(&extra));
                    let o = cli_inproc(&argv, "");
                    n += 1;
                    acc.traces += 1;
                    let st = o.status();
                    *acc.outcomes.entry(format!("unreadable-rules-exit-{}", st)).or_insert(0) += 1;
                    let fails = may_fail && doc == &bad_doc;
                    if o.panic.is_some() || st == 0 || st == 101 || (st == 19 && !fails) {
                        acc.violate(&format!("unreadable-rules-file:{}:exit-{}", if extra.contains(&"--structured") { "structured" } else { "plain" }, st), format!("a rules file that is not UTF-8 ({}) with {:?}: exit {}", label, extra, st), json!({"kind":"cli","argv":argv,"stdin":"","files":{"bad.guard":"rule r { a == \"<0xFF 0xFE>\" }"},"expected":"a non-zero exit, 19 only when another rules file fails","observed":format!("exit {}", st)}));
                    }
                }
            }
        }
        // a path that exists only as a symbolic link to nothing is a missing path
        let dangling = format!("{}/dangling", d);
        let _ = std::os::unix::fs::symlink(format!("{}/no-such-target", d), &dangling);
        let dangling_guard = format!("{}/dangling.guard", d);
        let _ = std::os::unix::fs::symlink(format!("{}/no-such-target.guard", d), &dangling_guard);
        let dangling_json = format!("{}/dangling.json", d);
        let _ = std::os::unix::fs::symlink(format!("{}/no-such-target.json", d), &dangling_json);
        let tests_ok = put("c06u/pass_tests.yaml", "- input: {a: 1}\n  expectations:\n    rules:\n      p: PASS\n");
        let mut cmds: Vec<Vec<String>> = vec![];
        for extra in [vec![], vec!["--structured", "-o", "json", "-S", "none"], vec!["--structured", "-o", "junit", "-S", "none"]] {
            for (r, dd) in [(pass.clone(), dangling.clone()), (pass.clone(), dangling_json.clone()), (dangling.clone(), ok_doc.clone()), (dangling_guard.clone(), ok_doc.clone())] {
                let mut a = sv(&["validate", "-r", &r, "-d", &dd]);
                a.extend(sv(&extra));
                cmds.push(a);
            }
        }
        for fmt in [vec![], vec!["-o", "json"]] {
            for a0 in [sv(&["test", "-r", &pass, "-t", &dangling]), sv(&["test", "-r", &dangling_guard, "-t", &tests_ok]), sv(&["test", "--dir", &dangling])] {
                let mut a = a0.clone();
                a.extend(sv(&fmt));
                cmds.push(a);
            }
        }
        for argv in cmds {
            let o = cli_inproc(&argv, "");
            n += 1;
            acc.traces += 1;
            let st = o.status();
            *acc.outcomes.entry(format!("dangling-link-exit-{}", st)).or_insert(0) += 1;
            if o.panic.is_some() || st == 0 || st == 19 || st == 101 {
                acc.violate(&format!("dangling-symlink:{}:exit-{}", argv[0], st), format!("{:?} with a path that is a symbolic link to nothing: exit {}", argv, st), json!({"kind":"cli","argv":argv,"stdin":"","files":{"dangling":"symbolic link to a missing target"},"expected":"a non-zero error exit","observed":format!("exit {}", st)}));
            }
        }
        rep.states += n;
        rep.transitions += n;
    }
    rep.distinct_nontrivial = (rs.len() * ds.len()) as u64;
    rep.samples.push(json!({"rules": ["FAILING", "BROKEN"], "data": ["NONCOMPLIANT"], "mode": "StructJson", "allowed": "{5,19}"}));
    rep.samples.push(json!({"rules_kinds": RK.iter().map(|k| json!({"kind":k.0,"text":k.1})).collect::<Vec<_>>(), "data_kinds": DK.iter().map(|k| json!({"kind":k.0,"text":k.1})).collect::<Vec<_>>()}));
    rep.rule = "states = (sequence of rules-file kinds, sequence of data-file kinds, invocation mode); each state is executed in-process through CfnGuard::execute and a fixed fraction also as a real child process; the exit status must lie in the closed-form allowed set; distinct_nontrivial = distinct (rules sequence, data sequence) pairs".into();
    rep.assumptions = vec!["the statement leaves parse-error + failure open: {5,19} allowed".into(), "error exit = non-zero, not 19, not a panic/abort status".into()];
    acc.into_report(&mut rep);
    cleanup_workdirs();
    rep.finish()
}
