//! C05 — evaluation is deterministic: same inputs, same bytes, same exit code (DESIGN 5/C05).
//! Schedules: a hash-seed alphabet realised by an LD_PRELOAD getrandom shim in fresh processes,
//! an environment alphabet, and repeated in-process evaluation on fresh threads interleaved with
//! unrelated evaluations.
use crate::c01::Acc;
use crate::cli::*;
use crate::evidence::Report;
use serde_json::json;
use std::collections::BTreeMap;

struct Case {
    name: String,
    argv: Vec<String>,
    stdin: String,
    /// "bytes" (structured: byte-identical after masking time attributes) | "lines" (plain: multiset of lines) | "rules" (rulegen)
    cmp: &'static str,
}

const RULES5: &str = "rule ra { a == 1 <<ma>> }\nrule rb { b == 1 <<mb>> }\nrule rc when z exists { a == 1 }\nrule rd { l[*].x == 1 <<md>> }\nrule re { a exists }\nrule rf {\n  ra or\n  rd\n}\n";
const RULES_B: &str = "let v = l[*].x\nrule sa { %v in [1, 2] <<sa>> }\nrule sb { some l[*].y exists <<sb>> }\nrule sc { b == a <<sc>> }\n";
// query-against-query comparisons (several left-hand values missing from / differing with the right-hand side), key captures
const RULES_C: &str = "rule qa { l[*].x in m[*] <<qa>> }\nrule qb { l[*].x in m <<qb>> }\nrule qc { some l[*].x in m[*] <<qc>> }\nrule qd { l[*].x not in m[*] <<qd>> }\nrule qe { l[*].x == m[*] <<qe>> }\nrule qf { l[*].x != m[*] <<qf>> }\nrule qg { l[*].x < m[*] <<qg>> }\nrule qh { n.* in m <<qh>> }\nrule qi { n[ keys == /k/ ] !empty <<qi>> }\nrule qj {\n  let ks = n[ keys == /k/ ]\n  %ks in m <<qj>>\n}\nrule qk { m[*] in l[*].x <<qk>> }\nrule ql { n[ keys in [\"k1\", \"k2\", \"k3\", \"j\"] ] == 5 <<ql>> }\nrule qm { n[ keys not in [\"zz\"] ] < 6 <<qm>> }\nrule qn {\n  let wanted = [\"k3\", \"k1\", \"k2\"]\n  n[ keys in %wanted ] == 0 <<qn>>\n}\n";
// keys written in another spelling than the data, on structs holding a key in two spellings
const CASE_RULES: &str = "rule c1 { Cfg.bucket_name == \"camel\" <<c1>> }\nrule c2 { Other.some_key == 1 <<c2>> }\nrule c3 { Cfg.BucketName == \"pascal\" <<c3>> }\nrule c4 { cfg.bucketName exists <<c4>> }\n";
const CASE_DATA: &str = "{\"Cfg\":{\"bucketName\":\"camel\",\"BucketName\":\"pascal\"},\"Other\":{\"SomeKey\":1}}";
const DATA: [&str; 3] = ["{\"a\":2,\"b\":2,\"l\":[{\"x\":1},{\"x\":3},{\"y\":0},{\"x\":4},{\"x\":6}],\"m\":[7,8,9,1],\"n\":{\"k1\":5,\"k2\":6,\"k3\":7,\"j\":8}}", "{\"a\":1,\"b\":1,\"l\":[{\"x\":1}],\"m\":[1],\"n\":{\"k1\":1}}", "{\"b\":0,\"l\":[]}"];
const CFN_RULES: &str = "rule s3 { Resources.*[ Type == 'AWS::S3::Bucket' ].Properties.Name == \"x\" <<name>> }\nrule vol { AWS::EC2::Volume { Properties.Size <= 10 <<size>> } }\nrule cased { resources.*.properties.bucket_name exists }\n";
const CFN_DATA: &str = "{\n  \"Resources\": {\n    \"b1\": {\"Type\": \"AWS::S3::Bucket\", \"Properties\": {\"Name\": \"y\", \"BucketName\": \"q\"}},\n    \"b2\": {\"Type\": \"AWS::S3::Bucket\", \"Properties\": {\"Name\": \"x\", \"bucketName\": \"r\"}},\n    \"v1\": {\"Type\": \"AWS::EC2::Volume\", \"Properties\": {\"Size\": 50, \"bucket_name\": 1}}\n  }\n}\n";
const TF_RULES: &str = "rule names { resource_changes[*].change.after.name == \"x\" <<name>> }\nrule sizes { resource_changes[*].change.after.size <= 10 <<size>> }\nrule tagged { resource_changes[*].change.after.tags in [[\"a\"], [\"b\"]] }\n";
const TF_DATA: &str = "{\n \"resource_changes\": [\n  {\"address\": \"aws_s3_bucket.b1\", \"change\": {\"after\": {\"name\": \"y\", \"size\": 50, \"tags\": [\"q\"]}}},\n  {\"address\": \"aws_s3_bucket.b2\", \"change\": {\"after\": {\"name\": \"z\", \"size\": 5, \"tags\": [\"a\"]}}},\n  {\"address\": \"aws_ebs_volume.v1\", \"change\": {\"after\": {\"name\": \"x\", \"size\": 70, \"tags\": [\"r\"]}}},\n  {\"address\": \"aws_ebs_volume.v2\", \"change\": {\"after\": {\"name\": \"w\", \"size\": 80, \"tags\": [\"s\"]}}}\n ]\n}\n";
// every built-in except now(): date parsing with and without a UTC offset, conversions, string functions
const FN_RULES: &str = "rule fe { let e = parse_epoch(t1)\n %e == 1724198400 <<fe>> }\nrule fc { let n = count(l[*])\n %n == 5 <<fc>> }\nrule fj { let j = join(names[*], \",\")\n %j == \"a,b\" <<fj>> }\nrule fu { let u = to_upper(names[*])\n %u == \"A\" <<fu>> }\nrule fr { let r = regex_replace(names[*], \"a\", \"-\")\n %r == \"-\" <<fr>> }\nrule fp { let p = parse_int(nums[*])\n %p in [1, 2] <<fp>> }\nrule fs { let s = substring(names[*], 0, 1)\n %s == \"a\" <<fs>> }\nrule fd { let d = url_decode(enc)\n %d == \"a b\" <<fd>> }\nrule fk { let k = json_parse(js)\n %k.k == 2 <<fk>> }\nrule fm { let k = json_parse(js)\n %k.* == 0 <<fm>> }\nrule fn2 { let k = json_parse(js)\n %k.j.* == 0 <<fn2>>\n %k[ keys == /k/ ] == 0 <<fn3>> }\nrule fo { let o = json_parse(jl)\n %o[*].* == 0 <<fo>> }\n";
const FN_RULES_NAIVE: &str = "rule fe { let e = parse_epoch(t2)\n %e == 1724198400 <<fe>> }\n";
const FN_DATA: &str = "{\"t1\":\"2024-08-21T00:00:00Z\",\"t2\":\"2024-08-21T00:00:00\",\"l\":[1,2,3],\"names\":[\"a\",\"b\",\"c\"],\"nums\":[\"1\",\"3\"],\"enc\":\"a%20b\",\"js\":\"{\\\"k\\\":1,\\\"k2\\\":2,\\\"k3\\\":3,\\\"k4\\\":4,\\\"j\\\":{\\\"z\\\":1,\\\"y\\\":2,\\\"x\\\":3,\\\"w\\\":4}}\",\"jl\":\"[{\\\"b\\\":1,\\\"a\\\":2,\\\"e\\\":5},{\\\"d\\\":3,\\\"c\\\":4,\\\"f\\\":6}]\"}";
const TEST_FILE: &str = "- name: one\n  input: {a: 1, b: 1, l: [{x: 1}]}\n  expectations:\n    rules:\n      ra: PASS\n      rb: FAIL\n      rc: SKIP\n      rd: PASS\n      re: FAIL\n      rf: PASS\n- name: two\n  input: {a: 2, b: 1, l: [{x: 2}]}\n  expectations:\n    rules:\n      ra: PASS\n      rb: PASS\n      rd: PASS\n      rf: FAIL\n";
const TEMPLATE: &str = "{\"Resources\":{\"a\":{\"Type\":\"AWS::S3::Bucket\",\"Properties\":{\"P\":\"s\",\"Q\":5,\"R\":true}},\"b\":{\"Type\":\"AWS::S3::Bucket\",\"Properties\":{\"P\":\"t\",\"Q\":6,\"R\":true}},\"c\":{\"Type\":\"AWS::EC2::Volume\",\"Properties\":{\"P\":\"u\",\"Size\":1}},\"d\":{\"Type\":\"Custom::Thing\",\"Properties\":{\"Z\":[1,2]}}}}";

fn cases(dir: &str) -> Vec<Case> {
    let w = |rel: &str, c: &str| -> String {
        let p = format!("{}/{}", dir, rel);
        if let Some(d) = std::path::Path::new(&p).parent() {
            std::fs::create_dir_all(d).ok();
        }
        std::fs::write(&p, c).unwrap();
        p
    };
    let r5 = w("r5.guard", RULES5);
    let rb = w("rb.guard", RULES_B);
    let rc = w("rc.guard", RULES_C);
    let d: Vec<String> = DATA.iter().enumerate().map(|(k, t)| w(&format!("d{}.json", k), t)).collect();
    let cr = w("cfn.guard", CFN_RULES);
    let cd = w("cfn.json", CFN_DATA);
    let csr = w("case.guard", CASE_RULES);
    let csd = w("case_a.json", CASE_DATA);
    let csd2 = w("case_b.json", CASE_DATA);
    let fr = w("fn.guard", FN_RULES);
    let fnv = w("fn_naive.guard", FN_RULES_NAIVE);
    let fd = w("fn.json", FN_DATA);
    let tr = w("tf.guard", TF_RULES);
    let td = w("tf.json", TF_DATA);
    let tf = w("t/tests/r5_tests.yaml", TEST_FILE);
    std::fs::write(format!("{}/t/r5.guard", dir), RULES5).unwrap();
    let tdir = format!("{}/t", dir);
    let tp = w("tpl.json", TEMPLATE);
    let mut out = vec![];
    let mut add = |name: &str, argv: Vec<String>, stdin: &str, cmp: &'static str| out.push(Case { name: name.to_string(), argv, stdin: stdin.to_string(), cmp });
    let val = |extra: &[&str], rules: &[&String], data: &[&String]| -> Vec<String> {
        let mut a = sv(&["validate"]);
        for r in rules {
            a.push("-r".into());
            a.push((*r).clone());
        }
        for x in data {
            a.push("-d".into());
            a.push((*x).clone());
        }
        a.extend(sv(extra));
        a
    };
    let sets: Vec<(&str, Vec<&String>, Vec<&String>)> = vec![("1x1", vec![&r5], vec![&d[0]]), ("2x3", vec![&r5, &rb], vec![&d[0], &d[1], &d[2]]), ("query-query", vec![&rc], vec![&d[0], &d[1]]), ("cfn", vec![&cr], vec![&cd]), ("terraform", vec![&tr], vec![&td]), ("functions", vec![&fr], vec![&fd]), ("key-spellings-same-document-twice", vec![&csr], vec![&csd, &csd2]), ("date-without-offset", vec![&fnv], vec![&fd]), ("cfn+generic", vec![&cr, &r5], vec![&cd])];
    for (sn, rs, ds) in &sets {
        for (mn, extra, cmp) in [
            ("summary-all", vec!["-S", "all"], "lines"),
            ("verbose", vec!["-S", "all", "-v"], "lines"),
            ("print-json", vec!["-S", "none", "-p"], "mixed"),
            ("json", vec!["-o", "json", "-S", "none"], "mixed"),
            ("yaml", vec!["-o", "yaml", "-S", "fail"], "lines"),
            ("structured-json", vec!["--structured", "-o", "json", "-S", "none"], "bytes"),
            ("structured-yaml", vec!["--structured", "-o", "yaml", "-S", "none"], "bytes"),
            ("structured-junit", vec!["--structured", "-o", "junit", "-S", "none"], "bytes"),
            ("structured-sarif", vec!["--structured", "-o", "sarif", "-S", "none"], "bytes"),
        ] {
            add(&format!("validate:{}:{}", sn, mn), val(&extra, rs, ds), "", cmp);
        }
    }
    add("validate:payload:structured-json", sv(&["validate", "--payload", "--structured", "-o", "json", "-S", "none"]), &json!({"rules":[RULES5, RULES_B],"data":[DATA[0], DATA[1]]}).to_string(), "bytes");
    add("validate:stdin:summary", val(&["-S", "all"], &[&r5], &[]), DATA[0], "lines");
    for (fname, extra, cmp) in [("plain", vec![], "lines"), ("verbose", vec!["-v"], "lines"), ("json", vec!["-o", "json"], "bytes"), ("yaml", vec!["-o", "yaml"], "bytes"), ("junit", vec!["-o", "junit"], "bytes")] {
        let mut a = sv(&["test", "-r", &r5, "-t", &tf]);
        a.extend(sv(&extra));
        add(&format!("test:files:{}", fname), a, "", cmp);
        let mut a = sv(&["test", "--dir", &tdir]);
        a.extend(sv(&extra));
        add(&format!("test:dir:{}", fname), a, "", cmp);
    }
    // a CloudFormation template whose failing resources lie far apart (the console reporter prints an excerpt of the data
    // file per resource, whatever the order in which it walks the resources)
    {
        let mut t = String::from("Resources:\n");
        for (name, letter) in [("aaa", "A"), ("bbb", "B"), ("ccc", "C"), ("ddd", "D")] {
            t.push_str(&format!("  {}:\n    Type: AWS::S3::Bucket\n    Properties:\n", name));
            for k in 1..=11 {
                t.push_str(&format!("      {}{}: {}\n", letter, k, k));
            }
            t.push_str("      Versioning: false\n");
        }
        let tl = w("cfnlong/t.yaml", &t);
        let rl = w("cfnlong/r.guard", "rule versioning { Resources.*.Properties.Versioning == true <<on>> }\nrule a5 { Resources.*.Properties.A5 !exists }\n");
        add("validate:cfn-long:plain", sv(&["validate", "-r", &rl, "-d", &tl]), "", "lines");
        add("validate:cfn-long:verbose", sv(&["validate", "-r", &rl, "-d", &tl, "-S", "all", "-v"]), "", "lines");
    }
    // error messages that list names: a reference to a rule / parameterised rule that does not exist, among several that do
    {
        let ur = w("unk/r.guard", "rule alpha { a exists }\nrule beta { a exists }\nrule gamma { a exists }\nrule epsilon { a exists }\nrule delta when nosuchrule { a exists }\n");
        let ud = w("unk/d.json", "{\"a\": 1}");
        let up = w("unk/p.guard", "rule p_one(x) { %x exists }\nrule p_two(x) { %x exists }\nrule p_three(x) { %x exists }\nrule p_four(x) { %x exists }\nrule caller { p_missing(a) }\n");
        add("validate:unknown-rule:plain", sv(&["validate", "-r", &ur, "-d", &ud]), "", "lines+err");
        add("validate:unknown-parameterised-rule:plain", sv(&["validate", "-r", &up, "-d", &ud]), "", "lines+err");
        add("validate:unknown-rule:structured", sv(&["validate", "-r", &ur, "-d", &ud, "--structured", "-o", "json", "-S", "none"]), "", "lines+err");
    }
    // a test file whose expectations are not status words (several different wrong words in one case: which one is reported?)
    let tbad = w("t/bad/r5_tests.yaml", "- name: one\n  input: {a: 1, b: 1, l: [{x: 1}]}\n  expectations:\n    rules:\n      ra: PASSED\n      rb: FAILED\n      rc: skipped\n      rd: Pass\n      re: ok\n      rf: PASS\n");
    for (fname, extra, cmp) in [("plain", vec![], "lines"), ("json", vec!["-o", "json"], "bytes"), ("yaml", vec!["-o", "yaml"], "bytes"), ("junit", vec!["-o", "junit"], "bytes")] {
        let mut a = sv(&["test", "-r", &r5, "-t", &tbad]);
        a.extend(sv(&extra));
        add(&format!("test:bad-expectation-words:{}", fname), a, "", cmp);
    }
    for (f, flag) in [("json", "--print-json"), ("yaml", "--print-yaml")] {
        add(&format!("parse-tree:{}", f), sv(&["parse-tree", "-r", &r5, flag]), "", "bytes");
        add(&format!("parse-tree:cfn:{}", f), sv(&["parse-tree", "-r", &cr, flag]), "", "bytes");
    }
    add("rulegen", sv(&["rulegen", "-t", &tp]), "", "rules");
    for sh in ["bash", "zsh", "fish"] {
        add(&format!("completions:{}", sh), sv(&["completions", "--shell", sh]), "", "bytes");
    }
    out
}

pub fn mask_times(s: &str) -> String {
    // JUnit elapsed-time attributes: time="123"
    let mut out = String::with_capacity(s.len());
    let mut rest = s;
    while let Some(i) = rest.find("time=\"") {
        out.push_str(&rest[..i + 6]);
        let after = &rest[i + 6..];
        let j = after.find('"').unwrap_or(0);
        out.push('T');
        rest = &after[j..];
    }
    out.push_str(rest);
    out
}
fn sorted_lines(s: &str) -> Vec<String> {
    let mut v: Vec<String> = s.lines().map(|l| l.trim_end().to_string()).collect();
    v.sort();
    v
}
/// rulegen: rules as a set; per rule the set of clauses; `IN [..]` elements sorted
fn rulegen_norm(s: &str) -> Vec<String> {
    let mut blocks: Vec<String> = vec![];
    let mut cur: Vec<String> = vec![];
    let mut head = String::new();
    for line in s.lines() {
        let mut l = line.trim().to_string();
        if let (Some(a), Some(b)) = (l.find(" IN ["), l.rfind(']')) {
            let mut items: Vec<String> = l[a + 5..b].split(", ").map(|x| x.to_string()).collect();
            items.sort();
            l = format!("{} IN [{}]", &l[..a], items.join(", "));
        }
        if l.starts_with("let ") {
            head = l;
        } else if l == "}" {
            cur.sort();
            blocks.push(format!("{} | {}", head, cur.join(" ; ")));
            cur.clear();
        } else {
            cur.push(l);
        }
    }
    blocks.sort();
    blocks
}

/// console text mixed with JSON documents: the JSON documents (records / reports) byte for byte and in order,
/// the remaining console lines as a multiset
fn mixed(out: &str) -> Vec<String> {
    let mut docs = String::new();
    let mut rest: Vec<String> = vec![];
    let mut in_doc = false;
    for line in out.lines() {
        if !in_doc && line == "{" {
            in_doc = true;
        }
        if in_doc {
            docs.push_str(line);
            docs.push('\n');
            if line.starts_with('}') {
                in_doc = line.len() > 1 && line.ends_with('{');
            }
        } else {
            rest.push(line.trim_end().to_string());
        }
    }
    rest.sort();
    rest.insert(0, docs);
    rest
}

fn normalise(out: &str, cmp: &str) -> Vec<String> {
    match cmp {
        "mixed" => mixed(out),
        "bytes" => vec![mask_times(out)],
        "lines" | "lines+err" => sorted_lines(&mask_times(out)),
        _ => rulegen_norm(out),
    }
}

pub fn run(tier: &str) -> i32 {
    let thorough = tier == "thorough";
    let mut rep = Report::new("C05", tier);
    // colours on for everything evaluated inside this process (child processes get a cleared environment and NO_COLOR)
    std::env::set_var("CLICOLOR_FORCE", "1");
    std::env::remove_var("NO_COLOR");
    let dir = reset_dir("c05");
    let cs = cases(&dir);
    // ---- mixed history inside one process, before anything else has run in it: console commands, then structured ones,
    //      then the console commands again - the lines they printed the first time (colour escapes included)
    let mut mixed = Acc::new();
    let mut mixed_runs = 0u64;
    {
        let r5 = put("c05m/r5.guard", RULES5);
        let d0 = put("c05m/d0.json", DATA[0]);
        let d1 = put("c05m/d1.json", DATA[1]);
        let cr = put("c05m/cfn.guard", CFN_RULES);
        let cd = put("c05m/cfn.yaml", CFN_DATA);
        let tf = put("c05m/r5_tests.yaml", TEST_FILE);
        let console: Vec<Vec<String>> = vec![
            sv(&["validate", "-r", &r5, "-d", &d0]),
            sv(&["validate", "-r", &r5, "-d", &d1, "-S", "all"]),
            sv(&["validate", "-r", &r5, "-d", &d1, "-v"]),
            sv(&["validate", "-r", &cr, "-d", &cd]),
            sv(&["validate", "-r", &cr, "-d", &cd, "-S", "all", "-o", "yaml"]),
            sv(&["test", "-r", &r5, "-t", &tf]),
            sv(&["test", "-r", &r5, "-t", &tf, "-v"]),
        ];
        let structured: Vec<Vec<String>> = vec![
            sv(&["validate", "-r", &r5, "-d", &d0, "--structured", "-o", "json", "-S", "none"]),
            sv(&["validate", "-r", &cr, "-d", &cd, "--structured", "-o", "sarif", "-S", "none"]),
            sv(&["validate", "-r", &r5, "-d", &d1, "--structured", "-o", "junit", "-S", "none"]),
            sv(&["test", "-r", &r5, "-t", &tf, "-o", "json"]),
            sv(&["parse-tree", "-r", &r5]),
        ];
        // (console output is compared as a multiset of lines: the order of independent detail lines may vary)
        let lines = |t: String| {
            let mut l: Vec<String> = t.lines().map(|x| x.to_string()).collect();
            l.sort();
            l.join("\n")
        };
        let first: Vec<(String, i32)> = console.iter().map(|a| {
            let o = cli_inproc(a, "");
            (lines(format!("{}\u{1}\n{}", o.out, o.err)), o.status())
        }).collect();
        mixed_runs += console.len() as u64;
        let coloured = first.iter().any(|(t, _)| t.contains("\u{1b}["));
        rep.extra.insert("mixed_history_colours_on".into(), json!(coloured));
        for sx in &structured {
            let _ = cli_inproc(sx, "");
            mixed_runs += 1;
            for (k, a) in console.iter().enumerate() {
                let o = cli_inproc(a, "");
                mixed_runs += 1;
                let now = (lines(format!("{}\u{1}\n{}", o.out, o.err)), o.status());
                if now != first[k] {
                    mixed.violate("mixed-history-in-process", format!("`{}` prints other bytes (or exits {} instead of {}) after `{}` ran in the same process", a.join(" "), now.1, first[k].1, sx.join(" ")), json!({"kind":"cli","argv":a,"stdin":"","expected":"the bytes of the first run in this process","observed":format!("{} bytes instead of {}; colour escapes now: {}", now.0.len(), first[k].0.len(), now.0.contains("\u{1b}[")),"after":sx}));
                }
            }
        }
    }
    let shim = format!("{}/interpose/getrandom.so", crate::evidence::verif_dir());
    if !std::path::Path::new(&shim).exists() {
        eprintln!("MACHINERY: {} missing (run ./setup.sh)", shim);
        return 2;
    }
    let nseeds: u64 = if thorough { 256 } else { 6 };
    let envs: Vec<(&str, Vec<(String, String)>, Option<String>)> = vec![
        ("TZ=Asia/Tokyo", vec![("TZ".into(), "Asia/Tokyo".into())], None),
        ("TZ=JST-9", vec![("TZ".into(), "JST-9".into())], None),
        ("TZ=EST5EDT", vec![("TZ".into(), "EST5EDT".into())], None),
        ("LANG=C", vec![("LANG".into(), "C".into()), ("LC_ALL".into(), "C".into())], None),
        ("HOME=/nonexistent", vec![("HOME".into(), "/nonexistent".into())], None),
        ("cwd=/", vec![], Some("/".to_string())),
        ("50 unrelated variables", (0..50).map(|k| (format!("UNRELATED_{}", k), format!("v{}", k))).collect(), None),
    ];
    let n = cs.len();
    let res = crate::par::run(n, rep.seed as u64, crate::par::deadline_secs(if thorough { 3000 } else { 45 }), Acc::new, |k, acc| {
        let c = &cs[k];
        let replay = |what: String, a: &str, b: &str| json!({"kind":"proc","argv":c.argv,"stdin":c.stdin,"expected":"identical output and exit code","observed":what,"run_a":a.chars().take(1500).collect::<String>(),"run_b":b.chars().take(1500).collect::<String>()});
        // ---- fresh processes, hash seeds pinned by the shim
        // (for cases compared with their diagnostics, stderr is appended to what is compared)
        let fold = |mut o: ProcOut| {
            if c.cmp == "lines+err" {
                o.out = format!("{}\n{}", o.out, o.err);
            }
            o
        };
        let run_seed = |seed: u64| fold(cli_proc(&c.argv, &c.stdin, &[("LD_PRELOAD".into(), shim.clone()), ("VERIF_HASH_SEED".into(), seed.to_string())], None, 20_000));
        let base = run_seed(1);
        let again = run_seed(1);
        acc.traces += 2;
        if normalise(&base.out, c.cmp) != normalise(&again.out, c.cmp) || base.status != again.status {
            // the same seed must reproduce: otherwise there is nondeterminism the shim does not own
            acc.violate(&format!("same-seed-differs:{}", c.name), format!("{}: two runs with the same pinned hash seed differ (exit {} / {})", c.name, base.status, again.status), replay("same seed differs".into(), &base.out, &again.out));
        }
        *acc.outcomes.entry(format!("exit-{}", base.status)).or_insert(0) += 1;
        if base.status < 0 || base.status == 101 {
            acc.violate(&format!("crash:{}", c.name), format!("{}: exit {} stderr {}", c.name, base.status, base.err.chars().take(200).collect::<String>()), replay(format!("exit {}", base.status), &base.err, ""));
            return;
        }
        let nb = normalise(&base.out, c.cmp);
        let mut distinct: BTreeMap<String, u64> = BTreeMap::new();
        for seed in 2..=nseeds {
            let o = run_seed(seed);
            acc.traces += 1;
            acc.nontrivial += 1;
            *distinct.entry(format!("{:x}", crate::evidence::fnv(&o.out))).or_insert(0) += 1;
            if o.status != base.status {
                acc.violate(&format!("exit-differs:{}", c.name), format!("{}: exit {} with hash seed {} but {} with seed 1", c.name, o.status, seed, base.status), replay(format!("exit {} vs {}", o.status, base.status), &base.out, &o.out));
            } else if normalise(&o.out, c.cmp) != nb {
                acc.violate(&format!("output-differs:{}", c.name), format!("{}: output with hash seed {} differs from seed 1 ({} comparison)", c.name, seed, c.cmp), replay(format!("seed {} differs", seed), &base.out, &o.out));
            }
        }
        // ---- environment alphabet (default hash seeds)
        for (en, ev, cwd) in &envs {
            let mut e = ev.clone();
            e.push(("LD_PRELOAD".into(), shim.clone()));
            e.push(("VERIF_HASH_SEED".into(), "1".into()));
            let o = fold(cli_proc(&c.argv, &c.stdin, &e, cwd.as_deref(), 20_000));
            acc.traces += 1;
            if o.status != base.status || normalise(&o.out, c.cmp) != nb {
                acc.violate(&format!("environment:{}", c.name), format!("{}: differs under {}", c.name, en), replay(format!("differs under {}", en), &base.out, &o.out));
            }
        }
        // ---- history inside one invocation: the data files given in the opposite order (what was evaluated earlier must not
        //      matter to a later file's part of the output); plain outputs only, compared as multisets of lines
        let dpos: Vec<usize> = c.argv.iter().enumerate().filter(|(_, a)| *a == "-d").map(|(k, _)| k + 1).collect();
        if dpos.len() >= 2 && c.cmp == "lines" {
            let mut rev = c.argv.clone();
            for (a, b) in dpos.iter().zip(dpos.iter().rev()) {
                rev[*a] = c.argv[*b].clone();
            }
            let o = cli_proc(&rev, &c.stdin, &[("LD_PRELOAD".into(), shim.clone()), ("VERIF_HASH_SEED".into(), "1".into())], None, 20_000);
            acc.traces += 1;
            if o.status != base.status || normalise(&o.out, c.cmp) != nb {
                acc.violate(&format!("data-order-history:{}", c.name), format!("{}: the output for the same files differs when the data files are given in the opposite order", c.name), replay("opposite data order differs".into(), &base.out, &o.out));
            }
        }
        // ---- in-process history: the same invocation 5 times on fresh threads, interleaved with unrelated evaluations
        if c.argv[0] != "rulegen" && c.argv[0] != "completions" {
            let mut outs: Vec<(i32, Vec<String>)> = vec![];
            for round in 0..5 {
                let (argv, stdin, cmp) = (c.argv.clone(), c.stdin.clone(), c.cmp);
                let h = std::thread::spawn(move || {
                    crate::impl_::silence_panics();
                    let o = cli_inproc(&argv, &stdin);
                    (o.status(), normalise(&o.out, cmp))
                });
                outs.push(h.join().unwrap_or((-1, vec![])));
                // unrelated evaluations in between (other rules, other data)
                let other = &cs[(k + 1 + round) % n];
                if other.argv[0] != "rulegen" && other.argv[0] != "completions" {
                    let (a2, s2) = (other.argv.clone(), other.stdin.clone());
                    let _ = std::thread::spawn(move || {
                        crate::impl_::silence_panics();
                        cli_inproc(&a2, &s2).status()
                    })
                    .join();
                }
                acc.traces += 2;
            }
            for (r, o) in outs.iter().enumerate().skip(1) {
                if *o != outs[0] {
                    acc.violate(&format!("in-process-repeat:{}", c.name), format!("{}: evaluation #{} in one process differs from #1", c.name, r + 1), replay(format!("repeat {} differs", r + 1), &outs[0].1.join("\n"), &o.1.join("\n")));
                }
            }
        }
    }, Acc::merge);
    // ---- library history: run_checks called twice on one thread with different documents of the same name and length;
    //      the second answer must be the one a fresh thread gives
    let mut res = res;
    {
        // the same document twice on one thread must give the same answer twice (and the answer of a fresh thread)
        for (r, d) in [(CASE_RULES, CASE_DATA), (RULES_C, DATA[0]), (RULES5, DATA[1])] {
            for verbose in [false, true] {
                let (r1, d1) = (r.to_string(), d.to_string());
                let fresh = std::thread::spawn({
                    let (r1, d1) = (r1.clone(), d1.clone());
                    move || {
                        crate::impl_::silence_panics();
                        crate::impl_::lib_raw(&r1, &d1, verbose)
                    }
                })
                .join()
                .unwrap_or(Err("thread".into()));
                let seq = std::thread::spawn(move || {
                    crate::impl_::silence_panics();
                    (0..5).map(|_| crate::impl_::lib_raw(&r1, &d1, verbose)).collect::<Vec<_>>()
                })
                .join()
                .unwrap_or_default();
                res.acc.traces += 6;
                for (k, x) in seq.iter().enumerate() {
                    if *x != fresh {
                        res.acc.violate("library-history", format!("run_checks call #{} on one thread for the same rules and document differs from a fresh thread's answer (verbose={})", k + 1, verbose), json!({"kind":"lib","rules":r,"data":d,"expected":"the same answer every time","observed":format!("{:?}", x).chars().take(300).collect::<String>()}));
                        break;
                    }
                }
            }
        }
        let lib_rules = [RULES5, RULES_B, RULES_C];
        let lib_docs = ["{\"a\":1,\"b\":1,\"l\":[{\"x\":1}],\"m\":[1]}", "{\"a\":2,\"b\":1,\"l\":[{\"x\":1}],\"m\":[1]}", "{\"a\":1,\"b\":2,\"l\":[{\"x\":3}],\"m\":[7]}", "{\"a\":9,\"b\":9,\"l\":[{\"y\":1}],\"m\":[1]}"];
        let mut lh = 0u64;
        for r in lib_rules {
            for a in lib_docs {
                for b in lib_docs {
                    if a == b {
                        continue;
                    }
                    for verbose in [false, true] {
                        let (r1, a1, b1) = (r.to_string(), a.to_string(), b.to_string());
                        let fresh = std::thread::spawn({
                            let (r1, b1) = (r1.clone(), b1.clone());
                            move || {
                                crate::impl_::silence_panics();
                                crate::impl_::lib_raw(&r1, &b1, verbose)
                            }
                        })
                        .join()
                        .unwrap_or(Err("thread".into()));
                        let after = std::thread::spawn(move || {
                            crate::impl_::silence_panics();
                            let _ = crate::impl_::lib_raw(&r1, &a1, verbose);
                            crate::impl_::lib_raw(&r1, &b1, verbose)
                        })
                        .join()
                        .unwrap_or(Err("thread".into()));
                        lh += 1;
                        res.acc.traces += 3;
                        if fresh != after {
                            res.acc.violate("library-history", format!("run_checks on {} answers differently after a call on {} on the same thread (verbose={})", b, a, verbose), json!({"kind":"lib2","rules":r,"data":a,"rules2":r,"data2":b,"expected":"the answer of a fresh thread","observed":format!("{:?}", after).chars().take(300).collect::<String>()}));
                        }
                    }
                }
            }
        }
        rep.extra.insert("library_history_pairs".into(), json!(lh));
        // ---- history on disk: --output onto a file that does not exist / holds a longer / a shorter / an equal-length earlier
        //      output; the bytes written must be the same every time
        let mut oh = 0u64;
        let odir = reset_dir("c05o");
        let r_long = put("c05o/long.guard", RULES5);
        let r_short = put("c05o/short.guard", "rule r { a exists }\n");
        let t_long = put("c05o/long.json", "{\"Resources\":{\"a\":{\"Type\":\"AWS::S3::Bucket\",\"Properties\":{\"BucketName\":\"first-bucket-name\",\"Tags\":[1,2,3]}},\"b\":{\"Type\":\"AWS::EC2::Volume\",\"Properties\":{\"Size\":100}}}}");
        let t_short = put("c05o/short.json", "{\"Resources\":{\"a\":{\"Type\":\"AWS::S3::Bucket\",\"Properties\":{\"P\":1}}}}");
        let env = vec![("LD_PRELOAD".to_string(), shim.clone()), ("VERIF_HASH_SEED".to_string(), "1".to_string())];
        let cmds: Vec<(&str, Vec<String>, Vec<String>)> = vec![
            ("parse-tree", sv(&["parse-tree", "-r", &r_short]), sv(&["parse-tree", "-r", &r_long])),
            ("parse-tree:json", sv(&["parse-tree", "-p", "-r", &r_short]), sv(&["parse-tree", "-p", "-r", &r_long])),
            ("parse-tree:yaml", sv(&["parse-tree", "-y", "-r", &r_short]), sv(&["parse-tree", "-y", "-r", &r_long])),
            ("rulegen", sv(&["rulegen", "-t", &t_short]), sv(&["rulegen", "-t", &t_long])),
        ];
        for (name, short_cmd, long_cmd) in &cmds {
            let outp = format!("{}/out-{}.txt", odir, name.replace(':', "-"));
            let with_out = |c: &Vec<String>| {
                let mut a = c.clone();
                a.extend(sv(&["-o", &outp]));
                a
            };
            for (which, cmd, other) in [("short", short_cmd, long_cmd), ("long", long_cmd, short_cmd)] {
                let _ = std::fs::remove_file(&outp);
                let fresh_run = cli_proc(&with_out(cmd), "", &env, None, 20_000);
                let fresh = std::fs::read(&outp).unwrap_or_default();
                // earlier contents: the other command's output, junk of three lengths
                let mut earlier: Vec<(String, Vec<u8>)> = vec![];
                let _ = std::fs::remove_file(&outp);
                let _ = cli_proc(&with_out(other), "", &env, None, 20_000);
                earlier.push(("the output of another run".into(), std::fs::read(&outp).unwrap_or_default()));
                earlier.push(("a longer file".into(), vec![b'#'; fresh.len() + 100]));
                earlier.push(("a shorter file".into(), vec![b'#'; fresh.len() / 2]));
                earlier.push(("a file of the same length".into(), vec![b'#'; fresh.len()]));
                earlier.push(("its own earlier output".into(), fresh.clone()));
                for (what, bytes) in earlier {
                    std::fs::write(&outp, &bytes).unwrap();
                    let o = cli_proc(&with_out(cmd), "", &env, None, 20_000);
                    let now = std::fs::read(&outp).unwrap_or_default();
                    oh += 1;
                    res.acc.traces += 1;
                    if now != fresh || o.status != fresh_run.status {
                        res.acc.violate(&format!("output-file-history:{}", name), format!("{} ({} input) --output onto {}: {} bytes (exit {}), onto no file {} bytes (exit {})", name, which, what, now.len(), o.status, fresh.len(), fresh_run.status), json!({"kind":"proc","argv":with_out(cmd),"stdin":"","expected":"the bytes written to a file that did not exist","observed":format!("{} bytes instead of {}", now.len(), fresh.len()),"earlier_content":what}));
                    }
                }
            }
        }
        rep.extra.insert("output_file_histories".into(), json!(oh));
    }
    let mut res = res;
    res.acc.traces += mixed_runs;
    res.acc = Acc::merge(res.acc, mixed);
    rep.extra.insert("mixed_history_runs".into(), json!(mixed_runs));
    rep.states = res.acc.traces;
    rep.transitions = res.acc.traces;
    if res.capped {
        rep.caps_hit.push(format!("wall-clock cap: {} of {} cases", res.done, n));
    }
    rep.distinct_nontrivial = cs.len() as u64;
    rep.extra.insert("cases".into(), json!(cs.iter().map(|c| c.name.clone()).collect::<Vec<_>>()));
    rep.extra.insert("hash_seeds".into(), json!(nseeds));
    rep.extra.insert("environments".into(), json!(envs.iter().map(|e| e.0).collect::<Vec<_>>()));
    rep.extra.insert("in_process_repeats".into(), json!(5));
    rep.samples.push(json!({"case": cs[1].name, "argv": cs[1].argv}));
    rep.samples.push(json!({"case": "test:files:json", "rules": RULES5, "tests": TEST_FILE}));
    rep.rule = "states = (invocation, schedule) where a schedule is a pinned hash seed in a fresh process (LD_PRELOAD getrandom shim; the same seed is run twice to prove the harness owns the nondeterminism), an environment variant, or the k-th of five in-process repetitions on fresh threads interleaved with unrelated evaluations; exit codes must be equal, structured outputs byte-identical after masking JUnit time attributes, plain outputs equal as multisets of lines, rulegen output equal as a set of rules".into();
    rep.assumptions = vec!["exhaustive over the seeds tried, not over all hash orders; now() is not called; colour variables are held fixed (NO_COLOR=1)".into()];
    let mut rep = rep;
    res.acc.into_report(&mut rep);
    cleanup_workdirs();
    rep.finish()
}
