//! C08 — no input crashes the tool; bad input is reported as an error (DESIGN 5/C08).
//! Cases run in isolated worker processes (the harness re-executes itself as `gmc --c08-worker`):
//! the driver streams cases over a pipe and records the in-flight case when a worker dies
//! (stack overflow, abort) or exceeds its per-case deadline.
use crate::ast::*;
use crate::cli::*;
use crate::evidence::Report;
use crate::universe::*;
use crate::val::*;
use serde_json::{json, Value};
use std::collections::BTreeMap;
use std::io::{BufRead, BufReader, Write};
use std::process::{Command, Stdio};
use std::sync::atomic::{AtomicUsize, Ordering};
use std::sync::{Arc, Mutex};
use std::time::{Duration, Instant};

// ------------------------------------------------------------------ worker side
pub fn worker_main() {
    crate::impl_::silence_panics();
    let stdin = std::io::stdin();
    let mut out = std::io::stdout();
    for line in stdin.lock().lines() {
        let line = match line {
            Ok(l) => l,
            Err(_) => break,
        };
        let c: Value = match serde_json::from_str(&line) {
            Ok(v) => v,
            Err(_) => continue,
        };
        let r = run_case(&c);
        let _ = writeln!(out, "{}", r);
        let _ = out.flush();
    }
    cleanup_workdirs();
}

fn run_case(c: &Value) -> Value {
    let kind = c["kind"].as_str().unwrap_or("");
    let g = |k: &str| c[k].as_str().unwrap_or("").to_string();
    match kind {
        "lib" => {
            let mut res = vec![];
            for verbose in [true, false] {
                match crate::impl_::lib_raw(&g("rules"), &g("data"), verbose) {
                    Err(p) => return json!({"panic": p}),
                    Ok(Ok(_)) => res.push("ok"),
                    Ok(Err(_)) => res.push("err"),
                }
            }
            json!({"status": res.join("/")})
        }
        "cli" | "bin" => {
            // files: {relative name: content}; argv uses @name to refer to a file
            reset_dir("c08");
            let mut paths: BTreeMap<String, String> = BTreeMap::new();
            if let Some(fs) = c["files"].as_object() {
                for (n, t) in fs {
                    // content may be given as text or as an array of bytes
                    let p = workdir().join("c08").join(n);
                    if let Some(d) = p.parent() {
                        std::fs::create_dir_all(d).ok();
                    }
                    match t {
                        Value::String(sx) => std::fs::write(&p, sx).ok(),
                        Value::Array(bytes) => std::fs::write(&p, bytes.iter().map(|b| b.as_u64().unwrap_or(0) as u8).collect::<Vec<u8>>()).ok(),
                        _ => None,
                    };
                    paths.insert(n.clone(), p.to_string_lossy().to_string());
                }
            }
            let argv: Vec<String> = c["argv"].as_array().map(|a| a.iter().map(|x| {
                let sx = x.as_str().unwrap_or("");
                match sx.strip_prefix('@') {
                    Some(n) => paths.get(n).cloned().unwrap_or_else(|| workdir().join("c08").join(n).to_string_lossy().to_string()),
                    None => sx.to_string(),
                }
            }).collect()).unwrap_or_default();
            if kind == "bin" {
                // the repository's real binary as a child process: the real stdout (a line writer over a pipe) and the
                // real exit mapping are part of what is exercised
                let o = crate::cli::cli_proc(&argv, &g("stdin"), &[], None, 15_000);
                let panic_line = o.err.lines().skip_while(|l| !l.contains("panicked at")).take(2).collect::<Vec<_>>().join(" ");
                return if o.status == -1000 {
                    json!({"child_timeout": true, "why": "the real binary did not exit within 15 s"})
                } else if !panic_line.is_empty() || o.status == 101 {
                    // keep the message (second line) first: it is what the signature is built from
                    let msg = o.err.lines().skip_while(|l| !l.contains("panicked at")).nth(1).unwrap_or("").to_string();
                    json!({"panic": format!("{} [{}] (exit {})", msg, panic_line.chars().take(200).collect::<String>(), o.status)})
                } else if o.status < 0 {
                    json!({"child_died": true, "why": format!("the real binary was killed by signal {}", -o.status)})
                } else {
                    json!({"status": o.status, "out": o.out.chars().take(200).collect::<String>(), "err": o.err.chars().take(300).collect::<String>(), "out_bytes": o.out.len()})
                };
            }
            let o = cli_inproc(&argv, &g("stdin"));
            match o.panic {
                Some(p) => json!({"panic": p}),
                None => json!({"status": o.status(), "out": o.out.chars().take(400).collect::<String>(), "err": o.err.chars().take(400).collect::<String>(), "code_err": o.code.err().unwrap_or_default().chars().take(300).collect::<String>()}),
            }
        }
        _ => json!({"status": "unknown-kind"}),
    }
}

// ------------------------------------------------------------------ driver side
#[derive(Clone, Debug)]
pub struct CaseOut {
    pub idx: usize,
    /// "ok" | "panic" | "died" | "timeout"
    pub outcome: String,
    pub detail: Value,
}

struct Worker {
    child: std::process::Child,
    stdin: std::process::ChildStdin,
    stdout: BufReader<std::process::ChildStdout>,
}
fn spawn_worker() -> Worker {
    let exe = std::env::current_exe().expect("exe");
    let mut child = Command::new(exe).arg("--c08-worker").stdin(Stdio::piped()).stdout(Stdio::piped()).stderr(Stdio::null()).spawn().expect("spawn worker");
    let stdin = child.stdin.take().unwrap();
    let stdout = BufReader::new(child.stdout.take().unwrap());
    Worker { child, stdin, stdout }
}

/// runs all cases on a pool of isolated workers; per-case deadline in ms
pub fn run_isolated(cases: &[Value], deadline_ms: u64, wall: Option<Instant>) -> (Vec<CaseOut>, bool) {
    let next = Arc::new(AtomicUsize::new(0));
    let results: Arc<Mutex<Vec<CaseOut>>> = Arc::new(Mutex::new(Vec::with_capacity(cases.len())));
    let capped = Arc::new(std::sync::atomic::AtomicBool::new(false));
    let nw = crate::par::workers();
    std::thread::scope(|sc| {
        for _ in 0..nw {
            let (next, results, capped) = (next.clone(), results.clone(), capped.clone());
            sc.spawn(move || {
                let mut w = spawn_worker();
                loop {
                    let i = next.fetch_add(1, Ordering::Relaxed);
                    if i >= cases.len() {
                        break;
                    }
                    if let Some(d) = wall {
                        if Instant::now() > d {
                            capped.store(true, Ordering::Relaxed);
                            break;
                        }
                    }
                    let line = cases[i].to_string();
                    let sent = writeln!(w.stdin, "{}", line).and_then(|_| w.stdin.flush());
                    // read the reply with a deadline: a helper thread would need ownership; poll the child instead
                    let start = Instant::now();
                    let mut reply = String::new();
                    let outcome;
                    if sent.is_err() {
                        outcome = CaseOut { idx: i, outcome: "died".into(), detail: json!({"why":"pipe closed before the case was sent"}) };
                        let _ = w.child.kill();
                        let _ = w.child.wait();
                        w = spawn_worker();
                    } else {
                        // blocking read guarded by a watchdog that kills the child on timeout
                        let pid = w.child.id();
                        let done = Arc::new(std::sync::atomic::AtomicBool::new(false));
                        let d2 = done.clone();
                        let wd = std::thread::spawn(move || {
                            let t0 = Instant::now();
                            while !d2.load(Ordering::Relaxed) {
                                if t0.elapsed() > Duration::from_millis(deadline_ms) {
                                    unsafe_kill(pid);
                                    return true;
                                }
                                std::thread::sleep(Duration::from_millis(5));
                            }
                            false
                        });
                        let rd = w.stdout.read_line(&mut reply);
                        done.store(true, Ordering::Relaxed);
                        let timed_out = wd.join().unwrap_or(false);
                        match rd {
                            Ok(n) if n > 0 && reply.ends_with('\n') => {
                                let v: Value = serde_json::from_str(reply.trim()).unwrap_or(json!({"status":"unparsable-reply"}));
                                if v.get("panic").is_some() {
                                    outcome = CaseOut { idx: i, outcome: "panic".into(), detail: v };
                                } else if v.get("child_died").is_some() {
                                    outcome = CaseOut { idx: i, outcome: "died".into(), detail: v };
                                } else if v.get("child_timeout").is_some() {
                                    outcome = CaseOut { idx: i, outcome: "timeout".into(), detail: v };
                                } else {
                                    outcome = CaseOut { idx: i, outcome: "ok".into(), detail: v };
                                }
                            }
                            _ => {
                                let st = w.child.wait().ok();
                                use std::os::unix::process::ExitStatusExt;
                                let why = match st {
                                    Some(s) => format!("exit {:?} signal {:?}", s.code(), s.signal()),
                                    None => "?".into(),
                                };
                                outcome = CaseOut { idx: i, outcome: if timed_out { "timeout".into() } else { "died".into() }, detail: json!({"why": why, "elapsed_ms": start.elapsed().as_millis() as u64}) };
                                w = spawn_worker();
                            }
                        }
                    }
                    results.lock().unwrap().push(outcome);
                }
                let _ = w.child.kill();
                let _ = w.child.wait();
            });
        }
    });
    let mut r = Arc::try_unwrap(results).unwrap().into_inner().unwrap();
    r.sort_by_key(|c| c.idx);
    (r, capped.load(Ordering::Relaxed))
}

fn unsafe_kill(pid: u32) {
    let _ = Command::new("kill").arg("-9").arg(pid.to_string()).status();
}

// ------------------------------------------------------------------ case generation
fn lib_case(rules: &str, data: &str, class: &str) -> Value {
    json!({"kind":"lib","rules":rules,"data":data,"class":class})
}
fn bin_case(argv: &[&str], files: Value, stdin: &str, class: &str) -> Value {
    json!({"kind":"bin","argv":argv,"files":files,"stdin":stdin,"class":class})
}
fn cli_case(argv: &[&str], files: Value, stdin: &str, class: &str) -> Value {
    json!({"kind":"cli","argv":argv,"files":files,"stdin":stdin,"class":class})
}

const MUT_ALPHABET: [&str; 24] = ["\"", "'", "[", "]", "{", "}", "(", ")", "%", "|", "<", ">", "#", "\\", "\n", "\t", "\u{0}", "é", "€", "😀", ":", ",", ".", "-"];

/// all single character edits of a text
pub fn single_edits(t: &str) -> Vec<String> {
    let chars: Vec<char> = t.chars().collect();
    let mut out = vec![];
    let join = |v: &[char]| v.iter().collect::<String>();
    for i in 0..=chars.len() {
        if i < chars.len() {
            // delete, duplicate
            let mut d = chars.clone();
            d.remove(i);
            out.push(join(&d));
            let mut d = chars.clone();
            d.insert(i, chars[i]);
            out.push(join(&d));
            // replace
            for a in MUT_ALPHABET {
                let mut d = chars.clone();
                d.splice(i..i + 1, a.chars());
                out.push(join(&d));
            }
        }
        // truncate at i
        if i < chars.len() {
            out.push(join(&chars[..i]));
        }
        // insert
        for a in MUT_ALPHABET {
            let mut d = chars.clone();
            for (k, ch) in a.chars().enumerate() {
                d.insert(i + k, ch);
            }
            out.push(join(&d));
        }
    }
    out
}

/// single edits over a reduced alphabet (for the second edit of the double-edit family)
pub fn single_edits_small(t: &str) -> Vec<String> {
    const A: [char; 10] = ['"', '\'', '[', '{', '}', '%', '<', '#', '\n', '\u{e9}'];
    let chars: Vec<char> = t.chars().collect();
    let mut out = vec![];
    let join = |v: &[char]| v.iter().collect::<String>();
    for i in 0..=chars.len() {
        if i < chars.len() {
            let mut d = chars.clone();
            d.remove(i);
            out.push(join(&d));
            for a in A {
                let mut d = chars.clone();
                d[i] = a;
                out.push(join(&d));
            }
            out.push(join(&chars[..i]));
        }
        for a in A {
            let mut d = chars.clone();
            d.insert(i, a);
            out.push(join(&d));
        }
    }
    out
}

/// token-level edits: delete / duplicate / swap adjacent whitespace-separated tokens
pub fn token_edits(t: &str) -> Vec<String> {
    let toks: Vec<&str> = t.split_inclusive(|c: char| c.is_whitespace()).collect();
    let mut out = vec![];
    for i in 0..toks.len() {
        let mut d = toks.clone();
        d.remove(i);
        out.push(d.concat());
        let mut d = toks.clone();
        d.insert(i, toks[i]);
        out.push(d.concat());
        if i + 1 < toks.len() {
            let mut d = toks.clone();
            d.swap(i, i + 1);
            out.push(d.concat());
        }
    }
    out
}

pub fn rule_seeds() -> Vec<&'static str> {
    vec![
        "rule r { a == 1 }\n",
        "let v = [1, \"x\"]\nrule r when a exists { not some a[*].b[ c == 1 ] in %v <<m>> or this.b !empty }\n",
        "rule r { a[ k | b == 1 ].c !empty\n  %k == \"x\" }\n",
        "rule r {\n  a.b[0] in r[1,5)\n  a.'k k'.* == /re+x/\n}\n",
        "AWS::S3::Bucket when Properties exists { Properties.Name == 'x' }\n",
        "rule p(x, y) { %x == %y }\nrule r { p(a, 1) }\n",
        "rule r {\n  let n = count(a[*])\n  %n >= 2\n  when b == true { c is_string }\n}\n",
        "rule r { a { b exists\n c[ keys == /x/ ] !empty } }\nrule q {\n  r\n  not r or\n  a is_list\n}\n",
        "a == 1 or b != 'x'\nc not in [1, 2.5, null]\n",
        "rule r { some a[*] { this >= 1.5 <<\n multi\n line >> } }\n",
        "let s = regex_replace(a, \"^(x+)$\", \"${1}y\")\nrule r { %s == join(b[*], \",\") }\n",
        "rule r { a IN ['x', \"y\"] |OR| b EXISTS }\n# trailing comment",
    ]
}
pub fn data_seeds() -> Vec<&'static str> {
    vec![
        "{\"a\": 1, \"b\": [true, null, 1.5, \"x\"], \"c\": {\"d\": \"e\"}}",
        "a: 1\nb:\n  - x\n  - {c: 1}\nd: !Ref e\n",
        "Resources:\n  r1:\n    Type: AWS::S3::Bucket\n    Properties:\n      Name: \"x\"\n      Tags: [!Sub \"${a}\", !GetAtt b.c]\n",
        "{a: [1, 2], b: 'q', c: \"w\"}\n",
        "---\na: |\n  text\nb: >-\n  folded\n",
        "[1, {\"a\": [2]}]",
    ]
}
const GOOD_RULES: &str = "rule r { a == 1 }\nrule q { b[*] exists or c.d == \"e\" }\n";
const GOOD_DATA: &str = "{\"a\": 1, \"b\": [1], \"c\": {\"d\": \"e\"}}";

fn adversarial(thorough: bool) -> Vec<Value> {
    let mut out = vec![];
    // --- filter placement x value shapes (incl. after this / index / another filter / wildcard)
    let f = "[ b == 1 ]";
    let shapes = ["{\"a\":{\"b\":1}}", "{\"a\":[{\"b\":1}]}", "{\"a\":[[{\"b\":1}]]}", "{\"a\":1}", "{\"a\":{\"x\":{\"b\":1}}}", "{\"a\":[]}", "{\"a\":{}}", "{\"a\":\"s\"}", "{\"a\":null}", "{}", "[{\"b\":1}]", "{\"a\":{\"b\":{\"b\":1}}}"];
    let qs = [
        format!("this{}", f),
        format!("this{}.b", f),
        format!("a[0]{}", f),
        format!("a{}{}", f, f),
        format!("a.*{}", f),
        format!("a[*]{}", f),
        format!("a.*{}{}", f, f),
        format!("a[0][0]{}", f),
        format!("a.b{}", f),
        format!("a[ this{} !empty ]", f),
        format!("a[ keys == /b/ ]{}", f),
        format!("a{}[0]{}", f, f),
        format!("this.*{}", f),
        format!("this[*]{}", f),
    ];
    for q in &qs {
        for sfx in [" exists", " !empty", " == 1", " { b exists }"] {
            for d in shapes {
                out.push(lib_case(&format!("rule r {{ {}{} }}\n", q, sfx), d, "filter-placement"));
            }
        }
        for d in shapes {
            out.push(lib_case(&format!("let v = {}\nrule r {{ %v exists }}\n", q), d, "filter-placement"));
        }
    }
    // --- every built-in x argument position x argument kinds
    let fns: [(&str, usize); 15] = [("count", 1), ("json_parse", 1), ("regex_replace", 3), ("substring", 3), ("to_upper", 1), ("to_lower", 1), ("join", 2), ("url_decode", 1), ("parse_int", 1), ("parse_float", 1), ("parse_string", 1), ("parse_boolean", 1), ("parse_char", 1), ("parse_epoch", 1), ("now", 0)];
    let argk = ["1", "-1", "1.5", "\"s\"", "\"\"", "true", "null", "[1, \"a\"]", "{\"k\": 1}", "/re/", "r[1,2]", "s", "n", "l", "l[*]", "m", "nosuch", "l[ zz exists ]", "to_upper(s)", "count(l[*])", "\"héllo\"", "\"(\"", "99999999999", "e[*]"];
    let fdoc = "{\"s\":\"héllo wörld\",\"n\":3,\"l\":[\"a\",1,null,{\"k\":1}],\"m\":{\"k\":\"v\"},\"e\":[]}";
    for (fname, arity) in fns {
        if arity == 0 {
            out.push(lib_case(&format!("rule r {{\n  let x = {}()\n  %x exists\n}}\n", fname), fdoc, "function-arguments"));
            continue;
        }
        let defaults = ["s", "\"a\"", "\"b\""];
        for pos in 0..arity {
            for a in argk {
                let mut args: Vec<&str> = defaults[..arity].to_vec();
                if fname == "substring" {
                    args = vec!["s", "1", "3"];
                }
                args[pos] = a;
                let call = format!("{}({})", fname, args.join(", "));
                out.push(lib_case(&format!("rule r {{\n  let x = {}\n  %x exists\n  %x == 1\n  %x !empty\n}}\n", call), fdoc, "function-arguments"));
                out.push(lib_case(&format!("let x = {}\nrule r {{ s == %x }}\n", call), fdoc, "function-arguments"));
                out.push(lib_case(&format!("rule r {{ s == {} }}\n", call), fdoc, "function-arguments"));
            }
        }
    }
    // --- substring at every pair of byte offsets of strings with 2-, 3- and 4-byte characters (an offset inside a character
    //     must skip the string or report an error), the other string functions on the same strings
    for sv in ["h\u{e9}llo", "a\u{20ac}b", "\u{1f600}x", "caf\u{e9}-bucket", "\u{e9}"] {
        let n = sv.len();
        let d = format!("{{\"s\":\"{}\",\"l\":[\"{}\",\"abc\"]}}", sv, sv);
        for a in 0..=n + 1 {
            for b in 0..=n + 1 {
                out.push(lib_case(&format!("rule r {{\n  let x = substring(s, {}, {})\n  %x == \"zz\"\n}}\n", a, b), &d, "function-multibyte"));
                if (a + b) % 3 == 0 {
                    out.push(lib_case(&format!("let x = substring(l[*], {}, {})\nrule r {{ %x !empty }}\n", a, b), &d, "function-multibyte"));
                }
            }
        }
        for call in ["to_upper(s)", "to_lower(s)", "url_decode(s)", "regex_replace(s, \".\", \"-\")", "regex_replace(s, \"(.)\", \"${1}${1}\")", "join(l[*], s)", "parse_char(s)", "parse_int(s)", "json_parse(s)", "parse_epoch(s)"] {
            out.push(lib_case(&format!("rule r {{\n  let x = {}\n  %x == \"zz\"\n}}\n", call), &d, "function-multibyte"));
        }
        out.push(cli_case(&["validate", "-r", "@r.guard", "-d", "@d.json"], json!({"r.guard": "rule r {\n  let x = substring(s, 0, 2)\n  %x == \"zz\"\n}\n", "d.json": d}), "", "function-multibyte"));
        out.push(cli_case(&["test", "-r", "@r.guard", "-t", "@t.yaml"], json!({"r.guard": "rule r {\n  let x = substring(s, 0, 2)\n  %x == \"zz\"\n}\n", "t.yaml": format!("- name: t\n  input: {}\n  expectations:\n    rules:\n      r: FAIL\n", d)}), "", "function-multibyte"));
    }
    // --- unary / binary checks on literal variables and odd left-hand sides
    for lit in ["1", "1.5", "\"s\"", "true", "null", "[1,2]", "[]", "{\"k\":1}", "{}", "/re/", "r[1,2]", "r(1.0,2.0)"] {
        for op in ["exists", "!exists", "empty", "!empty", "is_string", "is_list", "is_struct", "is_int", "is_float", "is_bool", "is_null", "== 1", "!= \"s\"", "in [1]", "< 2", ">= \"a\"", "== /x/", "in r[0,5]", "[*] == 1", ".k == 1", "[0] exists", "[ k == 1 ] !empty", "{ this exists }", ".* exists"] {
            out.push(lib_case(&format!("let v = {}\nrule r {{ %v {} }}\n", lit, op), "{\"a\":1}", "literal-variable"));
            out.push(lib_case(&format!("rule r {{ a == %v }}\nlet v = {}\n", lit), "{\"a\":1}", "literal-variable"));
        }
    }
    // --- map-key interpolation with odd keys
    for v in ["a", "a[*]", "\"k\"", "1", "[\"k\", 1]", "nosuch", "m"] {
        for tail in ["", "[*]", "[0]", ".k", "[ k == 1 ]"] {
            out.push(lib_case(&format!("let v = {}\nrule r {{ m.%v{} exists }}\n", v, tail), "{\"a\":\"k\",\"m\":{\"k\":{\"k\":1}}}", "key-interpolation"));
        }
    }
    // --- regexes with look-around / back-references / catastrophic shapes against strings up to 40 chars
    for re in ["(?=a)a", "(?!a)b", "(?<=a)b", "(a)\\1", "(a+)+$", "(a|aa)+$", "(.*)*x", "(?i)(?:a|b)+c", "\\p{L}+", "[[:alpha:]]+", "a{2,}", "(?P<n>a)\\k<n>", "\\"] {
        for sx in ["", "a", "aa", "ab", "aaaaaaaaaaaaaaaaaaaaaaaaaaaaaaaaaaaaaaab", "héllo", "aaaaaaaaaaaaaaaaaaaaaaaaaaaaaaaaaaaaaaaa"] {
            out.push(lib_case(&format!("rule r {{ a == /{}/ }}\n", re), &format!("{{\"a\":\"{}\"}}", sx), "regex"));
            out.push(lib_case(&format!("rule r {{\n  let x = regex_replace(a, \"{}\", \"-\")\n  %x exists\n}}\n", re.replace('\\', "\\\\")), &format!("{{\"a\":\"{}\"}}", sx), "regex"));
        }
    }
    // --- look-around (which selects the backtracking engine) in front of catastrophic shapes: the engine gives up with
    //     an error after its step limit, on `==`, `!=`, `in` and inside filters
    for la in ["(?=a)", "(?!b)", "(?<=a)", "(?<!b)"] {
        for shape in ["(a+)+$", "(a|aa)+$", "(a*)*c", "(.*)*x"] {
            let d = format!("{{\"a\":\"{}b\",\"l\":[{{\"n\":\"{}b\"}}]}}", "a".repeat(40), "a".repeat(40));
            let rules = format!("rule r {{ a == /{la}{shape}/ }}\nrule s {{ a != /{la}{shape}/ }}\nrule t {{ a in [/{la}{shape}/, \"x\"] }}\nrule u {{ a not in [/{la}{shape}/] }}\nrule v {{ l[ n == /{la}{shape}/ ] !empty }}\nrule w {{ some l[*].n == /{la}{shape}/ }}\n", la = la, shape = shape);
            out.push(lib_case(&rules, &d, "regex"));
            for one in rules.lines() {
                out.push(lib_case(&format!("{}\n", one), &d, "regex"));
            }
        }
    }
    // --- not-a-number and infinities (plain YAML scalars `nan`, `.nan`, `inf`, `.inf`, `-.inf`; parse_float of such strings)
    //     against every comparison and type check
    for spell in ["nan", "NaN", ".nan", ".NaN", "inf", "-inf", ".inf", "-.inf", "Infinity", "+.inf"] {
        let d = format!("a: {}\nb: [{}, 1.5]\nc: \"{}\"\nd: 1.5\n", spell, spell, spell);
        let mut rules = String::new();
        for (k, op) in ["==", "!=", "<", "<=", ">", ">=", "in", "not in"].iter().enumerate() {
            let rhs = if op.ends_with("in") { "[1.5, 2.5]" } else { "1.5" };
            rules.push_str(&format!("rule l{k} {{ a {op} {rhs} }}\nrule q{k} {{ a {op} d }}\nrule s{k} {{ a {op} a }}\nrule m{k} {{ b[*] {op} {rhs} }}\nrule f{k} {{ let x = parse_float(c)\n %x {op} {rhs} }}\nrule r{k} {{ d {op} r(1.0, 2.0) }}\n", k = k, op = op, rhs = rhs));
        }
        rules.push_str("rule t1 { a is_float }\nrule t2 { a is_string }\nrule t3 { a in r[0.0, 9.0] }\nrule t4 { let y = parse_int(a)\n %y exists }\nrule t5 { let z = parse_string(a)\n %z exists }\n");
        out.push(cli_case(&["validate", "-r", "@r.guard", "-d", "@d.yaml"], json!({"r.guard": rules, "d.yaml": d}), "", "nan-inf"));
        out.push(cli_case(&["validate", "-r", "@r.guard", "-d", "@d.yaml", "--structured", "-o", "json", "-S", "none"], json!({"r.guard": rules, "d.yaml": d}), "", "nan-inf"));
        out.push(lib_case(&rules, &d, "nan-inf"));
        for one in rules.split("rule ").filter(|x| !x.trim().is_empty()) {
            out.push(lib_case(&format!("rule {}", one), &d, "nan-inf"));
        }
        let t = format!("- input:\n    a: {}\n    b: [{}, 1.5]\n    c: \"{}\"\n    d: 1.5\n  expectations:\n    rules:\n      t1: PASS\n", spell, spell, spell);
        out.push(cli_case(&["test", "-r", "@r.guard", "-t", "@t.yaml"], json!({"r.guard": rules, "t.yaml": t}), "", "nan-inf"));
    }
    // --- parameterised rules called with every arity 0..3 against declarations of arity 1..2, odd arguments
    for decl in ["rule p(x) { %x exists }", "rule p(x, y) { %x == %y }", "rule p(x) { a == %x\n %x !empty }"] {
        for call in ["p()", "p(a)", "p(a, 1)", "p(a, 1, \"s\")", "p(nosuch)", "p(a[ zz exists ])", "p(count(a))", "p(p)", "p(%u)", "q(a)", "not p(a, b, c, d)"] {
            for d in ["{\"a\":1}", "{\"a\":[1,2]}", "{}"] {
                out.push(lib_case(&format!("{}\nrule r {{ {} }}\n", decl, call), d, "parameterised-arity"));
                out.push(lib_case(&format!("{}\nrule r when {} {{ a exists }}\n", decl, call), d, "parameterised-arity"));
            }
        }
    }
    // --- YAML tags: every CloudFormation short-form function name (also those outside the loader's tables), odd tags
    for tag in ["Ref", "GetAtt", "Base64", "Sub", "GetAZs", "ImportValue", "Condition", "RefAll", "Select", "Split", "Join", "FindInMap", "And", "Equals", "Contains", "EachMemberIn", "EachMemberEquals", "ValueOf", "If", "Not", "Or", "Cidr", "Length", "ToJsonString", "Transform", "ForEach", "GetParam", "Rain::Embed", "", "!", "!str", "!int", "!float", "!bool", "!null", "!map", "!seq", "!binary", "!set", "<tag:yaml.org,2002:int>", "x y"] {
        for payload in ["x", "[a, b]", "{k: v}", "", "[!Ref a, [b]]", "1", "|\n    text"] {
            for pos in ["k: !{T} {P}\n", "- !{T} {P}\n", "!{T} {P}\n", "k:\n  - !{T} {P}\n  - !{T} {P}\n", "? !{T} {P}\n: v\n"] {
                let d = pos.replace("{T}", tag).replace("{P}", payload);
                out.push(cli_case(&["validate", "-r", "@r.guard", "-d", "@d.yaml"], json!({"r.guard": "rule r { k exists }\n", "d.yaml": d}), "", "yaml-tags"));
                out.push(lib_case("rule r { k exists }\n", &d, "yaml-tags"));
                let t = format!("- input:\n{}\n  expectations:\n    rules:\n      r: PASS\n", d.lines().map(|l| format!("    {}", l)).collect::<Vec<_>>().join("\n"));
                out.push(cli_case(&["test", "-r", "@r.guard", "-t", "@t.yaml"], json!({"r.guard": "rule r { k exists }\n", "t.yaml": t}), "", "yaml-tags"));
            }
        }
    }
    // --- negative / huge indices, numeric keys
    for q in ["a[-1]", "a[-2147483648]", "a[2147483647]", "a.0", "a.-1", "a[99999999999]", "a.00", "a['0']", "a[ 0 ]"] {
        for d in ["{\"a\":[1,2]}", "{\"a\":{\"0\":1}}", "{\"a\":[]}", "{\"a\":1}"] {
            out.push(lib_case(&format!("rule r {{ {} exists }}\n", q), d, "indices"));
        }
    }
    // --- data with a multi-byte character around byte 100 of a malformed document (error message excerpt)
    for off in 88..112 {
        for ch in ["é", "€", "😀"] {
            let mut d = String::from("{\"a\": [");
            while d.len() < off {
                d.push('x');
            }
            d.push_str(ch);
            d.push_str("yyyyyyyyyyyyyyyyyyyyyyyyyyy");
            out.push(cli_case(&["validate", "-r", "@r.guard", "-d", "@d.json"], json!({"r.guard": GOOD_RULES, "d.json": d}), "", "malformed-data-excerpt"));
            out.push(cli_case(&["validate", "-r", "@r.guard", "-d", "@d.json", "--structured", "-o", "json", "-S", "none"], json!({"r.guard": GOOD_RULES, "d.json": d}), "", "malformed-data-excerpt"));
        }
    }
    // --- malformed rules with a multi-byte character at every byte offset after the error position (error messages quote
    //     the remaining input; a cut at a fixed byte count must not land inside a character)
    {
        let mut offs: Vec<usize> = (1..=300).collect();
        offs.extend(500..=520);
        offs.extend(1016..=1032);
        for off in offs {
            for ch in ["é", "€", "😀"] {
                // (a) the error at the very beginning, (b) after a well-formed rule
                for head in ["%%% ", "rule ok { a exists }\nrule r { a == == "] {
                    let mut t = String::from(head);
                    let start = t.len();
                    while t.len() < start + off {
                        t.push('x');
                    }
                    t.push_str(ch);
                    t.push_str(" yyyyyyyy\n# tail\n");
                    out.push(cli_case(&["validate", "-r", "@r.guard", "-d", "@d.json"], json!({"r.guard": t, "d.json": GOOD_DATA}), "", "malformed-rules-excerpt"));
                    if off % 4 == 0 {
                        out.push(cli_case(&["parse-tree", "-r", "@r.guard"], json!({"r.guard": t}), "", "malformed-rules-excerpt"));
                        out.push(lib_case(&t, GOOD_DATA, "malformed-rules-excerpt"));
                    }
                }
            }
        }
    }
    // --- console reporters on CloudFormation-shaped data in every layout (code excerpts around the failing line)
    for d in ["{\"Resources\":{\"b\":{\"Type\":\"AWS::S3::Bucket\",\"Properties\":{\"Name\":\"y\"}}}}", "{\n\"Resources\":{\"b\":{\"Type\":\"AWS::S3::Bucket\",\"Properties\":{\"Name\":\"y\"}}}}", "Resources:\n  b:\n    Type: AWS::S3::Bucket\n    Properties:\n      Name: y\n", "Resources: {b: {Type: 'AWS::S3::Bucket', Properties: {Name: y}}}", "\n\nResources:\n  b:\n    Type: AWS::S3::Bucket\n", "{\"resource_changes\":[{\"type\":\"aws_s3_bucket\",\"change\":{\"after\":{\"name\":\"y\"}}}],\"terraform_version\":\"1\"}"] {
        for r in ["rule r { Resources.*.Properties.Name == \"x\" <<m>> }\n", "AWS::S3::Bucket { Properties.Name == \"x\" }\n", "rule r { Resources.b.Properties.Missing exists }\n", "rule r { Resources.*.Properties.Name in [\"a\",\"b\"] }\nrule q { Resources.*.Type == Resources.*.Properties.Name }\n", "rule r { resource_changes[*].change.after.name == \"x\" }\n", "rule r { Resources exists\n Resources.* { Properties.Name != \"y\" } }\n"] {
            for extra in [vec!["-S", "all"], vec!["-S", "fail"], vec!["-S", "none"], vec!["-S", "all", "-v"], vec!["-o", "json"], vec!["-o", "yaml", "-S", "all"], vec!["-S", "all", "-p"]] {
                let mut argv = vec!["validate", "-r", "@r.guard", "-d", "@d.yaml"];
                argv.extend(extra.iter());
                out.push(cli_case(&argv, json!({"r.guard": r, "d.yaml": d}), "", "console-reporters"));
                let mut argv2 = vec!["validate", "-r", "@r.guard"];
                argv2.extend(extra.iter());
                out.push(cli_case(&argv2, json!({"r.guard": r}), d, "console-reporters-stdin"));
            }
        }
    }
    // --- the CloudFormation-aware console reporter on every resource shape: Type present / absent / not a string, a resource that is
    //     not a map, Metadata of odd shapes, resource names containing '/', failures at every depth below /Resources
    {
        let resources = [
            "{\"Type\":\"T\",\"Properties\":{\"X\":2,\"D\":{\"E\":{\"F\":2}}}}",
            "{\"Properties\":{\"X\":2,\"D\":{\"E\":{\"F\":2}}}}",
            "{\"Type\":1,\"Properties\":{\"X\":2}}",
            "{\"Type\":[\"T\"],\"Properties\":{\"X\":2}}",
            "{\"Type\":{\"Ref\":\"t\"},\"Properties\":{\"X\":2}}",
            "{\"Type\":null,\"Properties\":{\"X\":2}}",
            "{\"Type\":\"T\",\"Metadata\":{\"aws:cdk:path\":1},\"Properties\":{\"X\":2}}",
            "{\"Type\":\"T\",\"Metadata\":{\"aws:cdk:path\":\"a/b\"},\"Properties\":{\"X\":2}}",
            "{\"Type\":\"T\",\"Metadata\":\"m\",\"Properties\":{\"X\":2}}",
            "{\"Type\":\"T\",\"Properties\":{\"X\":{\"Type\":\"Inner\",\"Properties\":{\"X\":2}}}}",
            "{\"Type\":\"T\"}",
            "{}",
            "2",
            "\"s\"",
            "[{\"Type\":\"T\",\"Properties\":{\"X\":2}}]",
            "null",
        ];
        let names = ["a", "a/b", "", "Type", "0"];
        let rules = [
            "rule r { Resources.*.Properties.X == 1 }\n",
            "rule r { Resources.*.Properties.D.E.F == 1 }\n",
            "rule r { Resources.*.Type == \"U\" }\n",
            "rule r { Resources.* == 1 }\n",
            "rule r { Resources == 1 }\n",
            "rule r { Resources.*.Properties.Missing exists }\n",
            "rule r { Resources.*.Properties.X.Properties.X == 1 }\n",
            "rule r { Resources.*[*].Properties.X == 1 }\n",
            "rule r { Resources.*.Properties.X !exists <<msg>> }\n",
            "rule r { Resources.*.Properties.X in [5, 6] }\n",
            "T { Properties.X == 1 }\n",
            "rule r { Resources.*.Properties.X not in [2] }\n",
            "rule r { Resources.*.Properties.X in Resources.*.Type }\n",
            "rule r { Resources.*.Properties.X is_string }\n",
            "rule r { Resources.*.Type == Resources.*.Properties.X }\n",
            "rule r { Resources.*.Properties { X == 1 } }\n",
            "let n = Resources.*.Properties.X\nrule r { %n == 1 }\n",
            "let v = 1\nrule r { Resources.*.Properties.X == %v }\n",
            "let v = 1\nrule r { %v is_string\n Resources.*.Properties.X == 1 }\n",
            "let v = [5, 6]\nrule r { Resources.*.Properties.X in %v }\n",
            "rule r { Resources.*.Properties.X[*] == 1 }\n",
            "rule r { Resources.*.Properties.X empty }\n",
            "rule r { some Resources.*.Properties.Y exists }\n",
            "rule p(x) { %x == 1 }\nrule r { p(Resources.*.Properties.X) <<called>> }\n",
            "rule a { Resources.*.Properties.X == 1 }\nrule r {\n  a\n}\n",
            "rule r when Resources exists { Resources.*.Properties.X == 1 or Resources.*.Properties.X == 3 }\n",
            "rule r { count(Resources.*) == 0 }\n",
            "rule r { Resources.*.Properties.X == /z/ }\n",
            "rule r { Resources.*.Properties.X in r[5, 9] }\n",
        ];
        for res in resources {
            for name in names {
                if name != "a" && !(res.starts_with("{\"Type\":\"T\",\"Properties\":{\"X\":2,") || res.starts_with("{\"Properties\"")) {
                    continue;
                }
                let docs = [
                    format!("{{\"Resources\":{{{}:{}}}}}", serde_json::to_string(name).unwrap(), res),
                    format!("{{\n \"Resources\": {{\n  {}:\n   {}\n }}\n}}\n", serde_json::to_string(name).unwrap(), res),
                    format!("{{\"Resources\":{{\"ok\":{{\"Type\":\"T\",\"Properties\":{{\"X\":1,\"D\":{{\"E\":{{\"F\":1}}}}}}}},{}:{}}}}}", serde_json::to_string(name).unwrap(), res),
                ];
                for d in &docs {
                    for r in rules {
                        for extra in [vec![], vec!["-S", "all", "-v"], vec!["-o", "json"], vec!["-o", "yaml"], vec!["-S", "fail", "-p"]] {
                            let mut argv = vec!["validate", "-r", "@r.guard", "-d", "@d.json"];
                            argv.extend(extra.iter());
                            out.push(cli_case(&argv, json!({"r.guard": r, "d.json": d}), "", "cfn-shapes"));
                        }
                    }
                }
            }
        }
        for d in ["{\"Resources\":[]}", "{\"Resources\":{}}", "{\"Resources\":[{\"Type\":\"T\",\"Properties\":{\"X\":2}}]}", "{\"Resources\":\"x\"}", "{\"Resources\":null}", "{\"Resources\":{\"a\":{\"Type\":\"T\",\"Properties\":{\"X\":2}}},\"Other\":{\"X\":2}}"] {
            for r in ["rule r { Resources.*.Properties.X == 1 }\n", "rule r { Resources == 1 }\n", "rule r { Resources[*].Properties.X == 1 }\n", "rule r { Other.X == 1 }\n", "rule r { Resources.* exists\n Other.X == 1\n Resources.*.Properties.X == 1 }\n", "rule r { Missing exists }\n"] {
                for extra in [vec![], vec!["-S", "all", "-v"], vec!["-o", "json"]] {
                    let mut argv = vec!["validate", "-r", "@r.guard", "-d", "@d.json"];
                    argv.extend(extra.iter());
                    out.push(cli_case(&argv, json!({"r.guard": r, "d.json": d}), "", "cfn-shapes"));
                }
            }
        }
    }
    // --- the Terraform-aware console reporter: resource_changes entries of every shape, failures on keys that sort after
    //     resource_changes (terraform_version, variables), resource_changes of the wrong type
    {
        let entries = [
            "{\"address\":\"aws_s3_bucket.b\",\"change\":{\"after\":{\"name\":\"y\"}}}",
            "{\"change\":{\"after\":{\"name\":\"y\"}}}",
            "{\"address\":1,\"change\":{\"after\":{\"name\":\"y\"}}}",
            "{\"address\":\"nodot\",\"change\":{\"after\":{\"name\":\"y\"}}}",
            "{\"address\":\"\",\"change\":{\"after\":{\"name\":\"y\"}}}",
            "{\"address\":\".\",\"change\":{\"after\":{\"name\":\"y\"}}}",
            "{\"address\":[\"a.b\"],\"change\":{\"after\":{\"name\":\"y\"}}}",
            "{\"address\":\"a.b\",\"change\":{\"after\":\"y\"}}",
            "{\"address\":\"a.b\",\"change\":{\"before\":{\"name\":\"y\"}}}",
            "{\"address\":\"a.b\",\"type\":\"a\",\"name\":\"y\"}",
            "[{\"address\":\"a.b\",\"change\":{\"after\":{\"name\":\"y\"}}}]",
            "\"x\"",
            "null",
        ];
        let rules = [
            "rule r { resource_changes[*].change.after.name == \"x\" }\n",
            "rule r { resource_changes.*.change.after.name == \"x\" }\n",
            "rule r { resource_changes[*].change.after == \"x\" }\n",
            "rule r { resource_changes[*].change == 1 }\n",
            "rule r { resource_changes[*].name == \"x\" }\n",
            "rule r { resource_changes[*] == 1 }\n",
            "rule r { resource_changes == 1 }\n",
            "rule r { terraform_version == \"2\" }\n",
            "rule r { variables.v == 2 }\n",
            "rule r { resource_changes[*].change.after.name == \"x\"\n variables.v == 2 }\n",
            "rule r { resource_changes[*].change.after.missing exists }\n",
            "rule r { resource_changes[*][*].change.after.name == \"x\" }\n",
            "rule r { planned_values.nosuch exists }\n",
            "rule r { resource_changes[*].change.after.name in [\"x\", \"z\"] }\n",
            "rule r { resource_changes[*].change.after.name not in [\"y\"] }\n",
            "rule r { resource_changes[*].change.after.name in resource_changes[*].address }\n",
            "rule r { resource_changes[*].change.after.name !exists <<m>> }\n",
            "rule r { resource_changes[*].change.after.name is_int }\n",
            "rule r { resource_changes[*].address == resource_changes[*].change.after.name }\n",
            "rule r { variables.v == resource_changes[*].change.after.name }\n",
            "rule r { resource_changes[*].change.after { name == \"x\" } }\n",
            "let n = resource_changes[*].change.after.name\nrule r { %n == \"x\" }\n",
            "let v = \"x\"\nrule r { resource_changes[*].change.after.name == %v }\n",
            "let v = 1\nrule r { %v is_string\n resource_changes[*].change.after.name == \"x\" }\n",
            "let v = [\"x\"]\nrule r { resource_changes[*].change.after.name in %v }\n",
            "rule r { resource_changes[*].change.after.name empty }\n",
            "rule p(x) { %x == \"x\" }\nrule r { p(resource_changes[*].change.after.name) <<called>> }\n",
            "rule a { resource_changes[*].change.after.name == \"x\" }\nrule r {\n  a\n}\n",
            "rule r { resource_changes[*].change.after.name == \"x\" or resource_changes[*].change.after.name == \"z\" }\n",
            "rule r { resource_changes[*].change.after.name == /z/ }\n",
            "rule r { count(resource_changes[*]) == 0 }\n",
            "rule r { resource_changes[ address == \"aws_s3_bucket.b\" ].change.after.name == \"x\" }\n",
        ];
        let mut docs: Vec<String> = vec![];
        for e in entries {
            docs.push(format!("{{\"resource_changes\":[{}],\"terraform_version\":\"1\",\"variables\":{{\"v\":1}}}}", e));
            docs.push(format!("{{\"resource_changes\":[{},{}],\"terraform_version\":\"1\"}}", entries[0], e));
            docs.push(format!("{{\"resource_changes\":{{\"k\":{}}},\"variables\":{{\"v\":1}}}}", e));
        }
        for d in ["{\"resource_changes\":[]}", "{\"resource_changes\":{}}", "{\"resource_changes\":\"x\"}", "{\"resource_changes\":null,\"variables\":{\"v\":1}}", "{\"resource_changes\":1,\"terraform_version\":\"1\"}"] {
            docs.push(d.to_string());
        }
        for d in &docs {
            for r in rules {
                for extra in [vec![], vec!["-S", "all", "-v"], vec!["-o", "json"], vec!["-o", "yaml"]] {
                    let mut argv = vec!["validate", "-r", "@r.guard", "-d", "@d.json"];
                    argv.extend(extra.iter());
                    out.push(cli_case(&argv, json!({"r.guard": r, "d.json": d}), "", "tf-shapes"));
                }
            }
        }
    }
    // --- block clauses `<query> { .. }` whose own query raises an evaluation error (undefined / failing / self-referential
    //     variables, an error inside a filter of the query), at rule, block, when and file level, through every entry point
    {
        let heads = [
            ("", "%nosuch"),
            ("", "%nosuch.b"),
            ("let v = parse_int(a)\n", "%v"),
            ("let v = parse_int(a)\n", "%v[*]"),
            ("let v = %w\nlet w = %v\n", "%v"),
            ("", "l[ b empty ]"),
            ("", "l[ b empty ].c"),
            ("", "l[ %nosuch exists ]"),
            ("", "a[ keys == %nosuch ]"),
            ("", "l[*].%nosuch"),
            ("let v = regex_replace(a, \"(\", \"x\")\n", "%v"),
        ];
        let docs = ["{\"a\":\"x\",\"b\":1,\"l\":[{\"b\":1,\"c\":{\"d\":1}}]}", "{\"Resources\":{\"r\":{\"Type\":\"T\",\"Properties\":{\"a\":\"x\",\"l\":[{\"b\":1}]}}},\"a\":\"x\",\"l\":[{\"b\":2}]}"];
        for (lets, q) in heads {
            let forms = [
                format!("{}rule r {{ {} {{ d exists }} }}\n", lets, q),
                format!("{}rule r {{ {} {{ d exists <<m>> }} }}\n", lets, q),
                format!("{}rule r {{ some {} {{ d exists }} }}\n", lets, q),
                format!("{}rule r {{ {} !empty {{ d exists }} }}\n", lets, q),
                format!("{}rule r {{ a exists\n {} {{ d exists }} or b exists }}\n", lets, q),
                format!("{}rule r {{ l[*] {{ {} {{ d exists }} }} }}\n", lets, q),
                format!("{}rule r {{ when a exists {{ {} {{ d exists }} }} }}\n", lets, q),
                format!("{}rule r when a exists {{ {} {{ d exists }} }}\n", lets, q),
                format!("{}{} {{ d exists }}\n", lets, q),
                format!("{}rule p(x) {{ {} {{ d exists }} }}\nrule r {{ p(a) }}\n", lets, q),
                format!("{}rule r {{ T {{ {} {{ d exists }} }} }}\n", lets, q),
            ];
            for r in &forms {
                for d in docs {
                    out.push(lib_case(r, d, "erroring-block-query"));
                    for extra in [vec![], vec!["-S", "all", "-v"], vec!["-p"], vec!["-o", "json"], vec!["--structured", "-o", "json", "-S", "none"], vec!["--structured", "-o", "sarif", "-S", "none"]] {
                        let mut argv = vec!["validate", "-r", "@r.guard", "-d", "@d.json"];
                        argv.extend(extra.iter());
                        out.push(cli_case(&argv, json!({"r.guard": r, "d.json": d}), "", "erroring-block-query"));
                    }
                    out.push(cli_case(&["validate", "--payload"], json!({}), &json!({"rules":[r],"data":[d]}).to_string(), "erroring-block-query"));
                    let tests = format!("[{{\"name\":\"t\",\"input\":{},\"expectations\":{{\"rules\":{{\"r\":\"PASS\"}}}}}}]", d);
                    for fmt in [vec![], vec!["-v"], vec!["-o", "json"], vec!["-o", "junit"]] {
                        let mut argv = vec!["test", "-r", "@r.guard", "-t", "@t.json"];
                        argv.extend(fmt.iter());
                        out.push(cli_case(&argv, json!({"r.guard": r, "t.json": tests}), "", "erroring-block-query"));
                    }
                }
            }
        }
    }
    // --- custom messages of every degenerate shape (empty, blanks, only separators, separators at either end, line breaks)
    //     on every kind of clause that takes one, over CloudFormation / Terraform / plain documents, in every output mode
    {
        let msgs = ["", " ", ";", " ; ", ";;", "a;", ";a", "a;;b", "\n", "a\nb", "\n\n", ";\n", "a ; ", "\t"];
        let docs = [
            "{\"Resources\":{\"a\":{\"Type\":\"T\",\"Properties\":{\"X\":2}}}}",
            "{\"resource_changes\":[{\"address\":\"t.n\",\"change\":{\"after\":{\"X\":2}}}]}",
            "{\"X\":2}",
        ];
        let qs = ["Resources.*.Properties.X", "resource_changes[*].change.after.X", "X"];
        for (d, q) in docs.iter().zip(qs.iter()) {
            for m in msgs {
                let rules = [
                    format!("rule r {{ {} == 1 <<{}>> }}\n", q, m),
                    format!("rule r {{ {} !exists <<{}>> }}\n", q, m),
                    format!("rule r {{ {}.Missing exists <<{}>> }}\n", q, m),
                    format!("rule p(x) {{ %x == 1 }}\nrule r {{ p({}) <<{}>> }}\n", q, m),
                    format!("rule a {{ {} == 1 <<{}>> }}\nrule r {{ a <<{}>> }}\n", q, m, m),
                    format!("rule r {{ {} == 1 <<{}>> or {} == 3 <<{}>> }}\n", q, m, q, m),
                    format!("rule r {{ {} in [5, 6] <<{}>> }}\n", q, m),
                ];
                for r in &rules {
                    for extra in [vec![], vec!["-S", "all", "-v"], vec!["-o", "json"], vec!["-o", "yaml"], vec!["--structured", "-o", "junit", "-S", "none"], vec!["--structured", "-o", "sarif", "-S", "none"]] {
                        let mut argv = vec!["validate", "-r", "@r.guard", "-d", "@d.json"];
                        argv.extend(extra.iter());
                        out.push(cli_case(&argv, json!({"r.guard": r, "d.json": d}), "", "message-shapes"));
                    }
                }
            }
        }
    }
    // --- the real binary writing to its real stdout: long lines of multi-byte characters (test-case names, custom messages,
    //     string values, keys, rule-file names) so that the line writer behind stdout has to split a line between two writes
    {
        let fills: Vec<String> = vec!["\u{20ac}".repeat(700), "\u{e9}".repeat(1100), "\u{1F600}".repeat(600), format!("a{}", "\u{20ac}".repeat(1400)), "x".repeat(5000)];
        for f in &fills {
            for lead in ["", "x\n", "ab"] {
                let s = format!("{}{}", lead, f);
                let js = serde_json::to_string(&s).unwrap();
                // test: the name of the test case, the name of a rule's expectation, an input string
                let tests = format!("[{{\"name\":{},\"input\":{{\"a\":1,\"s\":{}}},\"expectations\":{{\"rules\":{{\"r\":\"PASS\"}}}}}}]", js, js);
                for fmt in [vec![], vec!["-v"], vec!["-o", "json"], vec!["-o", "yaml"], vec!["-o", "junit"]] {
                    let mut argv = vec!["test", "-r", "@r.guard", "-t", "@t.json"];
                    argv.extend(fmt.iter());
                    out.push(bin_case(&argv, json!({"r.guard": "rule r { a == 1 }\nrule q { s == \"y\" }\n", "t.json": tests}), "", "real-stdout-long-lines"));
                }
                // validate: a failing string value, a failing check under a long key, a long custom message
                let datas = [format!("{{\"s\":{}}}", js), format!("{{{}:{{\"s\":1}}}}", js), format!("{{\"Resources\":{{\"a\":{{\"Type\":\"T\",\"Properties\":{{\"s\":{}}}}}}}}}", js)];
                let msg: String = s.replace('>', "").replace('\n', " ");
                let rules = ["rule r { s == \"y\" }\n".to_string(), "rule r { *.s == 2 }\n".to_string(), format!("rule r {{ s == \"y\" <<{}>> }}\n", msg), "rule r { Resources.*.Properties.s == \"y\" }\n".to_string()];
                for d in &datas {
                    for r in &rules {
                        for extra in [vec![], vec!["-S", "all", "-v"], vec!["-p"], vec!["-o", "json"], vec!["-o", "yaml"], vec!["--structured", "-o", "json", "-S", "none"], vec!["--structured", "-o", "junit", "-S", "none"], vec!["--structured", "-o", "sarif", "-S", "none"]] {
                            let mut argv = vec!["validate", "-r", "@r.guard", "-d", "@d.json"];
                            argv.extend(extra.iter());
                            out.push(bin_case(&argv, json!({"r.guard": r, "d.json": d}), "", "real-stdout-long-lines"));
                        }
                    }
                }
                out.push(bin_case(&["parse-tree", "-r", "@r.guard"], json!({"r.guard": format!("rule r {{ s == {} }}\n", js)}), "", "real-stdout-long-lines"));
                out.push(bin_case(&["parse-tree", "-r", "@r.guard", "-j"], json!({"r.guard": format!("rule r {{ s == {} }}\n", js)}), "", "real-stdout-long-lines"));
            }
        }
    }
    // --- several test files for one rules file, every ordered pair of {good, cut off, empty, wrong shape, not YAML, not UTF-8},
    //     picked up by name order (-a) and in directory mode, in every output format
    {
        let good = json!("- name: t\n  input:\n    a: 1\n  expectations:\n    rules:\n      r: PASS\n");
        let kinds: Vec<(&str, Value)> = vec![
            ("good", good.clone()),
            ("cut", json!("- name: t\n  input:\n    a: 1\n  expectations:\n    rul\n")),
            ("empty", json!("")),
            ("shape", json!("input: {a: 1}\n")),
            ("notyaml", json!("{{{ - ]\n")),
            ("notutf8", json!([255, 254, 0, 97])),
        ];
        for (_, ka) in &kinds {
            for (_, kb) in &kinds {
                for fmt in [vec![], vec!["-v"], vec!["-o", "json"], vec!["-o", "yaml"], vec!["-o", "junit"]] {
                    let files = json!({"s/r.guard": "rule r { a == 1 }\n", "s/tests/r_a.yaml": ka, "s/tests/r_b.yaml": kb});
                    let mut a1 = vec!["test", "-r", "@s/r.guard", "-t", "@s/tests", "-a"];
                    a1.extend(fmt.iter());
                    out.push(cli_case(&a1, files.clone(), "", "test-files-multi"));
                    let mut a2 = vec!["test", "-d", "@s"];
                    a2.extend(fmt.iter());
                    out.push(cli_case(&a2, files.clone(), "", "test-files-multi"));
                    let mut a3 = vec!["test", "-r", "@s/r.guard", "-t", "@s/tests/r_a.yaml", "-t", "@s/tests/r_b.yaml"];
                    a3.extend(fmt.iter());
                    out.push(cli_case(&a3, files, "", "test-files-multi"));
                }
            }
        }
    }
    // --- a directory of two rules files, each with one test file: every ordered pair of {all expectations met, one unmet,
    //     broken test file, broken rules file}, by name order and by modification order, in every output format
    {
        let kinds: Vec<(&str, &str)> = vec![
            ("rule r { a == 1 }\n", "- input: {a: 1}\n  expectations:\n    rules:\n      r: PASS\n"),
            ("rule r { a == 1 }\n", "- input: {a: 2}\n  expectations:\n    rules:\n      r: PASS\n"),
            ("rule r { a == 1 }\n", "- input: {a: 1\n  expectations\n"),
            ("rule r { a == }\n", "- input: {a: 1}\n  expectations:\n    rules:\n      r: PASS\n"),
        ];
        for (ra, ta) in &kinds {
            for (rb, tb) in &kinds {
                for fmt in [vec![], vec!["-v"], vec!["-o", "json"], vec!["-o", "yaml"], vec!["-o", "junit"]] {
                    for order in [vec![], vec!["-a"], vec!["-m"]] {
                        let files = json!({"d/a_first.guard": ra, "d/tests/a_first_tests.yaml": ta, "d/b_second.guard": rb, "d/tests/b_second_tests.yaml": tb});
                        let mut argv = vec!["test", "-d", "@d"];
                        argv.extend(fmt.iter());
                        argv.extend(order.iter());
                        out.push(cli_case(&argv, files, "", "test-dir-two-rules-files"));
                    }
                }
            }
        }
    }
    // --- comparison operators on every pair of operand shapes (empty and nested lists on either side), literal, query and
    //     variable right-hand sides
    {
        let shapes = ["1", "\"a\"", "[]", "[1]", "[[1]]", "[[]]", "[1,2]", "[[1],[2]]", "{}", "{\"k\":[]}", "null", "[null]", "[{}]"];
        for x in shapes {
            for y in shapes {
                let d = format!("{{\"x\":{},\"y\":{}}}", x, y);
                let lit = if y == "null" { "\"null\"".to_string() } else { y.replace("{\"k\":[]}", "{k:[]}") };
                let mut rules = String::new();
                for (k, op) in ["in", "not in", "==", "!=", "<", ">=", "IN", "!IN"].iter().enumerate() {
                    for (j, some) in ["", "some "].iter().enumerate() {
                        rules.push_str(&format!("rule l{k}{j} {{ {some}x {op} {lit} }}\nrule q{k}{j} {{ {some}x {op} y }}\nrule v{k}{j} {{ let v = {lit}\n {some}x {op} %v }}\nrule w{k}{j} {{ {some}x[*] {op} {lit} }}\nrule n{k}{j} {{ not {some}x {op} y[*] }}\n", k = k, j = j, some = some, op = op, lit = lit));
                    }
                }
                out.push(lib_case(&rules, &d, "operand-shapes"));
                out.push(cli_case(&["validate", "-r", "@r.guard", "-d", "@d.json", "-S", "all"], json!({"r.guard": rules, "d.json": d}), "", "operand-shapes"));
            }
        }
    }
    // --- the remaining sub-commands with every flag value
    // (`completions` writes to the process's stdout directly, which is the worker's reply channel: it is run as a child
    // process by C05 instead)
    for flags in [vec!["--print-json"], vec!["--print-yaml"], vec![], vec!["--print-json", "--print-yaml"], vec!["-o", "@out.txt"]] {
        let mut argv = vec!["parse-tree", "-r", "@r.guard"];
        argv.extend(flags.iter());
        out.push(cli_case(&argv, json!({"r.guard": GOOD_RULES}), "", "other-commands"));
        let mut argv2 = vec!["parse-tree"];
        argv2.extend(flags.iter());
        out.push(cli_case(&argv2, json!({}), GOOD_RULES, "other-commands"));
    }
    // --- test files: unknown status words, wrong shapes
    for t in ["- input: {a: 1}\n  expectations:\n    rules:\n      r: MAYBE\n", "- input: {a: 1}\n  expectations:\n    rules:\n      r: pass\n", "- input: {a: 1}\n", "- expectations:\n    rules:\n      r: PASS\n", "input: {a: 1}\n", "[]\n", "- input: ~\n  expectations:\n    rules: {}\n", "- input: [1]\n  expectations:\n    rules:\n      nosuch: PASS\n", "- name: 1\n  input: {a: &x 1, b: *x}\n  expectations:\n    rules:\n      r: PASS\n", "- input: {1: 2}\n  expectations:\n    rules:\n      r: PASS\n", ""] {
        for fmt in [vec![], vec!["-v"], vec!["-o", "json"], vec!["-o", "yaml"], vec!["-o", "junit"]] {
            let mut argv = vec!["test", "-r", "@r.guard", "-t", "@t.yaml"];
            argv.extend(fmt.iter());
            out.push(cli_case(&argv, json!({"r.guard": GOOD_RULES, "t.yaml": t}), "", "test-files"));
        }
    }
    // --- payloads
    for p in ["", "{}", "{\"rules\":[],\"data\":[]}", "{\"rules\":[\"rule r { a == 1 }\"],\"data\":[]}", "{\"rules\":[],\"data\":[\"{}\"]}", "{\"rules\":[\"\"],\"data\":[\"\"]}", "{\"rules\":[1],\"data\":[2]}", "{\"rules\":\"x\",\"data\":\"y\"}", "[1]", "{\"rules\":[\"rule r { a == }\"],\"data\":[\"{\\\"a\\\":1}\"]}", "{\"rules\":[\"rule r { a == 1 }\"],\"data\":[\"{\\\"a\\\": [1,\"]}", "{\"rules\":[\"rule r { a == 1 }\"],\"data\":[\"# c\"],\"extra\":1}"] {
        for extra in [vec![], vec!["--structured", "-o", "json", "-S", "none"], vec!["-S", "all", "-v"]] {
            let mut argv = vec!["validate", "--payload"];
            argv.extend(extra.iter());
            out.push(cli_case(&argv, json!({}), p, "payloads"));
        }
    }
    // --- invalid UTF-8 and odd files
    for bytes in [vec![0xffu8, 0xfe, 0x00], vec![0xc3], vec![b'a', b':', b' ', 0xe2, 0x82], vec![0xef, 0xbb, 0xbf, b'a', b':', b' ', b'1']] {
        let arr: Vec<Value> = bytes.iter().map(|b| json!(*b)).collect();
        out.push(cli_case(&["validate", "-r", "@r.guard", "-d", "@d.yaml"], json!({"r.guard": GOOD_RULES, "d.yaml": arr.clone()}), "", "invalid-utf8"));
        out.push(cli_case(&["validate", "-r", "@r.guard", "-d", "@d.yaml"], json!({"r.guard": arr.clone(), "d.yaml": GOOD_DATA}), "", "invalid-utf8"));
        out.push(cli_case(&["parse-tree", "-r", "@r.guard"], json!({"r.guard": arr.clone()}), "", "invalid-utf8"));
        out.push(cli_case(&["test", "-r", "@r.guard", "-t", "@t.yaml"], json!({"r.guard": GOOD_RULES, "t.yaml": arr}), "", "invalid-utf8"));
    }
    // --- every library case of the adversarial classes again through the command line, in the console and the structured
    //     reporters (the report builders have their own assumptions about what a failing check can hold)
    let derived: Vec<Value> = out
        .iter()
        .filter(|c| c["kind"] == "lib" && matches!(c["class"].as_str().unwrap_or(""), "chained-filters" | "filter-placement" | "function-arguments" | "indices" | "key-interpolation" | "literal-variable" | "operand-shapes" | "parameterised-arity" | "regex"))
        .cloned()
        .collect();
    for c in derived {
        let class = format!("{}-cli", c["class"].as_str().unwrap_or("?"));
        for extra in [vec![], vec!["-S", "all", "-v"], vec!["-o", "yaml", "-S", "all"], vec!["--structured", "-o", "json", "-S", "none"], vec!["--structured", "-o", "junit", "-S", "none"], vec!["--structured", "-o", "sarif", "-S", "none"]] {
            let mut argv = vec!["validate", "-r", "@r.guard", "-d", "@d.json"];
            argv.extend(extra.iter());
            out.push(cli_case(&argv, json!({"r.guard": c["rules"], "d.json": c["data"]}), "", &class));
        }
    }
    let _ = thorough;
    out
}

/// self-referential rules: stack overflow would kill the worker (isolated)
fn cycles() -> Vec<Value> {
    let mut out = vec![];
    let texts = [
        "rule r {\n  r\n}\n",
        "rule r {\n  not r\n}\n",
        "rule r when r { a == 1 }\n",
        "rule a {\n  b\n}\nrule b {\n  a\n}\n",
        "rule a {\n  b\n}\nrule b {\n  c\n}\nrule c {\n  a\n}\n",
        "rule a when b { x exists }\nrule b when a { x exists }\n",
        "rule p(x) { p(%x) }\nrule r { p(a) }\n",
        "rule p(x) { q(%x) }\nrule q(y) { p(%y) }\nrule r { p(1) }\n",
        "rule r {\n  a exists or\n  r\n}\n",
        // parameterised rules that recurse through when blocks, query blocks and negation, and one that terminates
        "rule p(x) { when %x exists { %x { a exists or\n when this exists { p(%x) } } } }\nrule r { p(a) }\n",
        "rule p(x) { when p(%x) { a exists } }\nrule r { p(a) }\n",
        "rule p(x) { not p(%x) }\nrule r { p(a) }\n",
        "rule p(x, y) { p(%y, %x) or\n a exists }\nrule r { p(a, 1) }\n",
        "rule p(x) when a exists { q(count(%x)) }\nrule q(y) { p(%y) }\nrule r when p(a) { a exists }\n",
        "rule p(x) { when %x exists { %x.v == 1\n p(%x.next) } }\nrule r { p(a) }\n",
        "let v = %v\nrule r { %v exists }\n",
        "let v = %w\nlet w = %v\nrule r { %v exists }\n",
        "rule r {\n  let v = %v\n  %v exists\n}\n",
        // variables defined by function calls that refer to themselves / to each other, at every scope
        "let v = count(%v)\nrule r { %v == 1 }\n",
        "rule r {\n  let v = count(%v)\n  %v == 1\n}\n",
        "rule r {\n  let v = to_lower(%w)\n  let w = to_upper(%v)\n  %v == \"x\"\n}\n",
        "let v = to_lower(%w)\nlet w = to_upper(%v)\nrule r { %v == \"x\" }\n",
        "rule r {\n  when a exists {\n    let v = join(%v, \",\")\n    %v exists\n  }\n}\n",
        "rule r {\n  this {\n    let v = parse_int(%w)\n    let w = parse_string(%v)\n    %w exists\n  }\n}\n",
        "rule r {\n  let v = count(%w)\n  let w = a[ b == %v ]\n  %v == 0\n}\n",
        "T {\n  let v = to_upper(%v)\n  %v exists\n}\n",
    ];
    for t in texts {
        let class = if t.contains("rule p(") { "reference-cycle-parameterised-rule" } else if t.contains("let v") { "reference-cycle-variable" } else { "reference-cycle-named-rule" };
        for d in ["{\"a\":1}", "{}", "{\"a\":{\"v\":1,\"next\":{\"v\":1,\"next\":{\"v\":2}}}}"] {
            out.push(lib_case(t, d, class));
            out.push(cli_case(&["validate", "-r", "@r.guard", "-d", "@d.json"], json!({"r.guard": t, "d.json": d}), "", class));
        }
    }
    // deep nesting (the property bounds depth; these stay well inside any reasonable bound)
    for depth in [8usize, 32, 64] {
        let rules = format!("rule r {{ {}a exists{} }}\n", "a { ".repeat(depth), " }".repeat(depth));
        let data = format!("{}1{}", "{\"a\":".repeat(depth + 1), "}".repeat(depth + 1));
        out.push(lib_case(&rules, &data, "deep-nesting"));
        let lit = format!("rule r {{ a == {}1{} }}\n", "[".repeat(depth), "]".repeat(depth));
        out.push(lib_case(&lit, "{\"a\":1}", "deep-nesting"));
        let ydata = format!("a: {}1{}\n", "[".repeat(depth), "]".repeat(depth));
        out.push(cli_case(&["validate", "-r", "@r.guard", "-d", "@d.yaml"], json!({"r.guard": "rule r { a exists }\n", "d.yaml": ydata}), "", "deep-nesting"));
    }
    out
}

fn mutants(thorough: bool) -> Vec<Value> {
    let mut out = vec![];
    let rs = rule_seeds();
    let ds = data_seeds();
    let (nr, nd) = if thorough { (rs.len(), ds.len()) } else { (5, 3) };
    for seed in &rs[..nr] {
        let mut edits = single_edits(seed);
        edits.extend(token_edits(seed));
        for e in edits {
            out.push(lib_case(&e, GOOD_DATA, "rule-mutant"));
        }
    }
    // the rejected-as-a-whole clause is checked through the CLI on a subset (every 7th mutant)
    for seed in &rs[..nr] {
        for (k, e) in single_edits(seed).into_iter().enumerate() {
            if k % if thorough { 3 } else { 11 } == 0 {
                out.push(cli_case(&["validate", "-r", "@r.guard", "-d", "@d.json", "-S", "all"], json!({"r.guard": e, "d.json": GOOD_DATA}), "", "rule-mutant-cli"));
            }
            if k % 17 == 0 {
                out.push(cli_case(&["parse-tree", "-r", "@r.guard"], json!({"r.guard": e}), "", "rule-mutant-parse-tree"));
                out.push(cli_case(&["test", "-r", "@r.guard", "-t", "@t.yaml", "-o", "json"], json!({"r.guard": e, "t.yaml": "- input: {a: 1}\n  expectations:\n    rules:\n      r: PASS\n"}), "", "rule-mutant-test"));
            }
        }
    }
    for seed in &ds[..nd] {
        let mut edits = single_edits(seed);
        edits.extend(token_edits(seed));
        for (k, e) in edits.into_iter().enumerate() {
            out.push(lib_case(GOOD_RULES, &e, "data-mutant"));
            out.push(cli_case(&["validate", "-r", "@r.guard", "-d", "@d.yaml", "-S", "all"], json!({"r.guard": GOOD_RULES, "d.yaml": e}), "", "data-mutant-cli"));
            if k % 5 == 0 {
                out.push(cli_case(&["validate", "-r", "@r.guard", "-d", "@d.yaml", "--structured", "-o", "sarif", "-S", "none"], json!({"r.guard": GOOD_RULES, "d.yaml": e}), "", "data-mutant-cli"));
                out.push(cli_case(&["validate", "-r", "@r.guard", "-d", "@d.yaml", "-i", "@p.yaml"], json!({"r.guard": GOOD_RULES, "d.yaml": GOOD_DATA, "p.yaml": e}), "", "param-mutant-cli"));
            }
        }
    }
    // thorough: every pair of edits (reduced alphabet, set semantics) of the shortest rules seed and of two short documents
    if thorough {
        let mut seen: std::collections::BTreeSet<String> = Default::default();
        for e1 in single_edits_small(rs[0]) {
            for e2 in single_edits_small(&e1) {
                if seen.insert(e2.clone()) {
                    out.push(lib_case(&e2, GOOD_DATA, "rule-double-mutant"));
                }
            }
        }
        let mut seen: std::collections::BTreeSet<String> = Default::default();
        for dseed in ["{\"a\": [1, \"x\"]}", "a:\n  - x\n  - !Ref e\n"] {
            for e1 in single_edits_small(dseed) {
                for e2 in single_edits_small(&e1) {
                    if seen.insert(e2.clone()) {
                        out.push(cli_case(&["validate", "-r", "@r.guard", "-d", "@d.yaml", "-S", "all"], json!({"r.guard": GOOD_RULES, "d.yaml": e2}), "", "data-double-mutant-cli"));
                    }
                }
            }
        }
    }
    // test-file and payload mutants
    let tseed = "- name: t\n  input: {a: 1, b: [1]}\n  expectations:\n    rules:\n      r: PASS\n      q: FAIL\n";
    for (k, e) in single_edits(tseed).into_iter().enumerate() {
        if thorough || k % 3 == 0 {
            out.push(cli_case(&["test", "-r", "@r.guard", "-t", "@t.yaml"], json!({"r.guard": GOOD_RULES, "t.yaml": e}), "", "test-mutant"));
        }
    }
    let pseed = "{\"rules\":[\"rule r { a == 1 }\"],\"data\":[\"{\\\"a\\\":2}\"]}";
    for (k, e) in single_edits(pseed).into_iter().enumerate() {
        if thorough || k % 3 == 0 {
            out.push(cli_case(&["validate", "--payload"], json!({}), &e, "payload-mutant"));
        }
    }
    // parser-accepted generated programs with chained filters / literal heads etc. x documents (thorough: more)
    let fbs = filter_bodies();
    let docs = docs_quick();
    for q in queries_filter(&fbs[..2]).iter().step_by(if thorough { 1 } else { 4 }) {
        for d in docs.iter().step_by(6) {
            let mut q2 = q.clone();
            q2.push(Part::Filter(fbs[1].clone()));
            out.push(lib_case(&print_file(&file1(rule("r", vec![vec![un(q2.clone(), UnOp::Exists, false)]]))), &d.json(), "chained-filters"));
            let mut q3 = vec![Part::This];
            q3.extend(q.iter().skip(1).cloned());
            out.push(lib_case(&print_file(&file1(rule("r", vec![vec![un(q3, UnOp::Empty, true)]]))), &d.json(), "chained-filters"));
        }
    }
    let _ = (i(0), s(""));
    out
}

fn panic_site(p: &str) -> String {
    // a short, stable key for the panic: the message up to the first value-dependent part
    let p = p.replace(|c: char| c.is_ascii_digit(), "N");
    let p = p.split(';').next().unwrap_or("").split(" '").next().unwrap_or("").to_string();
    p.chars().take(60).collect::<String>().split(": PathAware").next().unwrap_or("").to_string()
}

pub fn run(tier: &str) -> i32 {
    let thorough = tier == "thorough";
    let mut rep = Report::new("C08", tier);
    let mut cases = adversarial(thorough);
    cases.extend(cycles());
    cases.extend(mutants(thorough));
    // debugging aid: write the case list (one JSON document per line, the worker's input format) and stop
    if let Ok(p) = std::env::var("GMC_C08_DUMP") {
        let text: String = cases.iter().filter(|c| !c["class"].as_str().unwrap_or("").starts_with("reference-cycle")).map(|c| format!("{}\n", c)).collect();
        std::fs::write(&p, text).expect("dump");
        return 0;
    }
    let wall = Some(Instant::now() + Duration::from_secs(if thorough { 3000 } else { 150 }));
    let (outs, capped) = run_isolated(&cases, 20_000, wall);
    rep.states = outs.len() as u64;
    rep.transitions = outs.len() as u64;
    rep.traces = outs.len() as u64;
    if capped {
        rep.caps_hit.push(format!("wall-clock cap: {} of {} cases", outs.len(), cases.len()));
    }
    let mut by_class: BTreeMap<String, u64> = BTreeMap::new();
    for o in &outs {
        let c = &cases[o.idx];
        let class = c["class"].as_str().unwrap_or("?").to_string();
        *by_class.entry(class.clone()).or_insert(0) += 1;
        // outcome classes: a normal result, a diagnostic (error reported), or one of the crash classes
        let label = if o.outcome == "ok" {
            let diag = match o.detail["status"].as_i64() {
                Some(st) => ![0, 19, 7].contains(&st),
                None => o.detail["status"].as_str().map(|t| t.contains("err")).unwrap_or(false),
            };
            if diag { "ok:diagnostic".to_string() } else { "ok:result".to_string() }
        } else {
            o.outcome.clone()
        };
        rep.outcome(&label, 1);
        let replay = json!({"kind":"c08","case":c,"expected":"a normal result or a diagnostic","observed":o.detail});
        match o.outcome.as_str() {
            "panic" => {
                let msg = o.detail["panic"].as_str().unwrap_or("");
                rep.violate(&format!("panic:{}:{}", class, panic_site(msg)), format!("panic `{}` in class {}: {}", msg.chars().take(160).collect::<String>(), class, c.to_string().chars().take(400).collect::<String>()), replay);
            }
            "died" => rep.violate(&format!("abort:{}", class), format!("worker process died ({}) on {}", o.detail["why"], c.to_string().chars().take(400).collect::<String>()), replay),
            "timeout" => rep.violate(&format!("hang:{}", class), format!("no result within 20 s on {}", c.to_string().chars().take(400).collect::<String>()), replay),
            _ => {
                // documented exit codes only
                if c["kind"] == "cli" || c["kind"] == "bin" {
                    let st = o.detail["status"].as_i64().unwrap_or(-1);
                    let cmd = c["argv"][0].as_str().unwrap_or("");
                    let ok = match cmd {
                        "validate" => [0, 19, 5, 255, 2].contains(&st),
                        "test" => [0, 7, 1, 255, 2].contains(&st),
                        _ => [0, 255, 2, 1].contains(&st),
                    };
                    if !ok {
                        rep.violate(&format!("undocumented-exit:{}:{}", cmd, st), format!("{} exits {} on {}", cmd, st, c.to_string().chars().take(300).collect::<String>()), replay.clone());
                    }
                    // a rules file outside the grammar is rejected as a whole, with line and column, nothing evaluated
                    if class == "rule-mutant-cli" {
                        let rules = c["files"]["r.guard"].as_str().unwrap_or("");
                        let parses = matches!(crate::impl_::lib_raw(rules, "{}", false), Ok(Ok(_))) || !format!("{:?}", crate::impl_::lib_raw(rules, "{}", false)).contains("Pars");
                        let err = format!("{}{}", o.detail["err"].as_str().unwrap_or(""), o.detail["code_err"].as_str().unwrap_or(""));
                        let out_txt = o.detail["out"].as_str().unwrap_or("");
                        if st == 5 {
                            if !(err.contains("line") && err.contains("column")) {
                                rep.violate("parse-error-without-position", format!("parse error message names no line/column: `{}` for rules {:?}", err.chars().take(200).collect::<String>(), rules), replay.clone());
                            }
                            if out_txt.contains(" Status = ") || out_txt.contains("PASS") || out_txt.contains("FAIL") {
                                rep.violate("rejected-file-partly-evaluated", format!("rules file rejected but a status is printed: `{}` for rules {:?}", out_txt.chars().take(200).collect::<String>(), rules), replay.clone());
                            }
                        }
                        let _ = parses;
                    }
                }
            }
        }
    }
    rep.distinct_nontrivial = cases.len() as u64;
    rep.extra.insert("cases_by_class".into(), json!(by_class));
    rep.extra.insert("per_case_deadline_ms".into(), json!(20000));
    rep.samples.push(cases[0].clone());
    rep.samples.push(cases[cases.len() / 2].clone());
    rep.samples.push(cases[cases.len() - 1].clone());
    rep.rule = "states = inputs: adversarial classes enumerated completely over small alphabets (filter placement x value shapes, every built-in x argument position x argument kind, literal variables x operators, key interpolation, look-around / back-reference / catastrophic regexes, odd indices, malformed data with a multi-byte character at every offset 88..111, console reporters on CloudFormation / Terraform shaped data in every summary mode and via stdin, test files, payloads, invalid UTF-8, rule / variable reference cycles, deep nesting) and all single character edits (24-character alphabet incl. NUL and 2-, 3-, 4-byte characters) plus token deletions / duplications / swaps of a seed corpus of rules, data, test, payload and parameter files; every case runs in an isolated worker process with a 20 s deadline".into();
    rep.assumptions = vec!["in-process execution through the library and CfnGuard::execute inside worker processes, except the class real-stdout-long-lines (the real binary as a child process); rulegen and the real binary's exit mapping are otherwise exercised by C19 and C06".into(), "inputs more than one edit away from the seed corpus and the enumerated classes are not covered".into()];
    rep.finish()
}
