//! C09 — the structured report partitions the rules exactly as they were evaluated (DESIGN 5/C09).
use crate::ast::*;
use crate::c01::Acc;
use crate::cli::*;
use crate::evidence::Report;
use crate::impl_::{lib_record, obs_from_record, Obs, St};
use crate::p2::*;
use crate::report::*;
use crate::universe::*;
use crate::val::*;
use serde_json::{json, Value};
use std::collections::{BTreeMap, BTreeSet};

/// give every leaf clause a unique custom message m<k>
pub fn tag_messages(f: &File, prefix: &str) -> File {
    fn tag_cnf(c: &mut Cnf, n: &mut usize, prefix: &str) {
        for line in c.iter_mut() {
            for alt in line.iter_mut() {
                match alt {
                    Clause::Unary { msg, q, .. } | Clause::Binary { msg, q, .. } => {
                        *msg = Some(format!("{}m{}", prefix, *n));
                        *n += 1;
                        for p in q.iter_mut() {
                            if let Part::Filter(fc) = p {
                                tag_cnf(fc, n, prefix);
                            }
                        }
                    }
                    Clause::Named { msg, .. } | Clause::Call { msg, .. } => {
                        *msg = Some(format!("{}m{}", prefix, *n));
                        *n += 1;
                    }
                    Clause::Block { body, .. } => tag_cnf(body, n, prefix),
                    Clause::When { cond, body, .. } => {
                        tag_cnf(cond, n, prefix);
                        tag_cnf(body, n, prefix);
                    }
                    Clause::TypeBlock { cond, body, .. } => {
                        if let Some(c) = cond {
                            tag_cnf(c, n, prefix);
                        }
                        tag_cnf(body, n, prefix);
                    }
                }
            }
        }
    }
    let mut g = f.clone();
    let mut n = 0;
    for r in g.rules.iter_mut() {
        if let Some(w) = r.when.as_mut() {
            tag_cnf(w, &mut n, prefix);
        }
        tag_cnf(&mut r.body, &mut n, prefix);
    }
    g
}

pub fn rename_rules(f: &File, prefix: &str) -> File {
    fn ren_cnf(c: &mut Cnf, prefix: &str) {
        for line in c.iter_mut() {
            for alt in line.iter_mut() {
                match alt {
                    Clause::Named { name, .. } | Clause::Call { name, .. } => *name = format!("{}{}", prefix, name),
                    Clause::Block { body, .. } => ren_cnf(body, prefix),
                    Clause::When { cond, body, .. } => {
                        ren_cnf(cond, prefix);
                        ren_cnf(body, prefix);
                    }
                    Clause::TypeBlock { cond, body, .. } => {
                        if let Some(c) = cond {
                            ren_cnf(c, prefix);
                        }
                        ren_cnf(body, prefix);
                    }
                    _ => {}
                }
            }
        }
    }
    let mut g = f.clone();
    for r in g.rules.iter_mut() {
        r.name = format!("{}{}", prefix, r.name);
        if let Some(w) = r.when.as_mut() {
            ren_cnf(w, prefix);
        }
        ren_cnf(&mut r.body, prefix);
    }
    g
}

/// rules that fail without a displayable check, parameterised calls, dependent rules, skipped rules
pub fn extra_pool() -> Vec<File> {
    let a = || vec![key("a")];
    let lp = leaf_pool();
    let mut out = vec![];
    // fails only through a missing block value
    out.push(file1(rule("r0", vec![vec![Clause::Block { some: false, q: vec![key("nosuch")], not_empty: false, lets: vec![], body: vec![vec![lp[1].clone()]] }]])));
    out.push(file1(rule("r0", vec![vec![Clause::Block { some: false, q: vec![key("a"), key("nosuch")], not_empty: false, lets: vec![], body: vec![vec![lp[0].clone()]] }], vec![lp[1].clone()]])));
    // fails only through a dependent rule
    out.push(File { lets: vec![], rules: vec![rule("r0", vec![vec![lp[0].clone()]]), rule("r1", vec![vec![named("r0")]]), rule("r2", vec![vec![named("r0").with_not(true)]])], default: vec![] });
    // when-skipped rule and a user of it
    let mut sk = rule("r0", vec![vec![lp[0].clone()]]);
    sk.when = Some(vec![vec![un(vec![key("b")], UnOp::Exists, false)]]);
    out.push(File { lets: vec![], rules: vec![sk, rule("r1", vec![vec![named("r0")], vec![lp[1].clone()]])], default: vec![] });
    // parameterised rule calls
    let pr = Rule { name: "pf".into(), params: Some(vec!["p".into()]), when: None, lets: vec![], body: vec![vec![bin(a(), BinOp::Eq, false, V::Null)]] };
    let mut prb = pr.clone();
    prb.body = vec![vec![Clause::Binary { not: false, some: false, q: a(), op: BinOp::Eq, opneg: false, rhs: Arg::Q(false, vec![Part::Var("p".into())]), msg: None }]];
    for arg in [Arg::Lit(i(1)), Arg::Lit(i(2)), Arg::Q(false, vec![key("b")])] {
        out.push(File { lets: vec![], rules: vec![prb.clone(), rule("r0", vec![vec![Clause::Call { not: false, name: "pf".into(), args: vec![arg.clone()], msg: None }]]), rule("r1", vec![vec![lp[1].clone()]])], default: vec![] });
    }
    // `!empty` on an empty filter selection (NoValueForEmptyCheck) and some-clauses
    out.push(file1(rule("r0", vec![vec![lp[5].clone()], vec![lp[4].clone()]])));
    // query right-hand sides, resolved and unresolved on either side
    for (lq, rq) in [(vec![key("a"), Part::All], vec![key("b"), Part::All]), (vec![key("a")], vec![key("b")]), (vec![key("a"), Part::All], vec![key("b")]), (vec![key("a")], vec![key("nosuch")]), (vec![key("nosuch")], vec![key("a")]), (vec![key("a"), key("b")], vec![key("b")])] {
        for (op, opneg) in [(BinOp::Eq, false), (BinOp::Eq, true), (BinOp::In, false), (BinOp::In, true), (BinOp::Le, false)] {
            let c = Clause::Binary { not: false, some: false, q: lq.clone(), op, opneg, rhs: Arg::Q(false, rq.clone()), msg: None };
            // the same with the right-hand side held by a variable
            let cv = Clause::Binary { not: false, some: false, q: lq.clone(), op, opneg, rhs: Arg::Q(false, vec![Part::Var("rv".into())]), msg: None };
            out.push(File { lets: vec![Let { name: "rv".into(), val: Arg::Q(false, rq.clone()) }], rules: vec![rule("r0", vec![vec![cv]])], default: vec![] });
            out.push(file1(rule("r0", vec![vec![c.clone()]])));
            out.push(File { lets: vec![], rules: vec![rule("r0", vec![vec![c.clone(), lp[0].clone()]]), rule("r1", vec![vec![lp[1].clone()], vec![c]])], default: vec![] });
        }
    }
    // a satisfied `not r0` next to a failing clause (the rule is non-compliant, the reference is not why)
    for k in [0usize, 1, 9] {
        out.push(File { lets: vec![], rules: vec![rule("r0", vec![vec![lp[k].clone()]]), rule("r1", vec![vec![named("r0").with_not(true)], vec![lp[1].clone()]]), rule("r2", vec![vec![lp[0].clone()], vec![named("r0")], vec![named("r1").with_not(true)]])], default: vec![] });
    }
    // filters whose own tests are not checks of the rule: a key filter that rejects some keys, a filter on the scalars selected
    // by `[*]` that drops some elements (the clause behind the filter fails on what is left)
    out.push(file1(rule("r0", vec![vec![bin(vec![key("a"), Part::KeysFilter(false, BinOp::Eq, V::Regex("^a".into()))], BinOp::Eq, false, i(9))]])));
    out.push(file1(rule("r0", vec![vec![bin(vec![Part::This, Part::KeysFilter(false, BinOp::Eq, s("a"))], BinOp::Eq, false, i(9))], vec![lp[1].clone()]])));
    out.push(file1(rule("r0", vec![vec![bin(vec![key("a"), Part::All, Part::Filter(vec![vec![bin(vec![Part::This], BinOp::Eq, true, i(1))]])], BinOp::Eq, false, i(9))]])));
    out.push(file1(rule("r0", vec![vec![bin(vec![key("a"), Part::All, Part::Filter(vec![vec![un(vec![key("b")], UnOp::Exists, false)]]), key("b")], BinOp::Eq, false, i(9))]])));
    // an `or` line whose alternative is a block holding its own `or` line (nested disjunctions), a when block, a call;
    // two-level parameterised calls, each with its own message
    let inner_or = Clause::Block { some: false, q: vec![key("a"), Part::All], not_empty: false, lets: vec![], body: vec![vec![bin(vec![key("b")], BinOp::Eq, false, i(8)), bin(vec![key("b")], BinOp::Eq, false, i(9))], vec![un(vec![key("zz")], UnOp::Exists, false)]] };
    out.push(file1(rule("r0", vec![vec![bin(a(), BinOp::Eq, false, i(9)), inner_or.clone()]])));
    out.push(file1(rule("r0", vec![vec![inner_or.clone(), bin(a(), BinOp::Eq, false, i(9))], vec![lp[0].clone()]])));
    out.push(file1(rule("r0", vec![vec![bin(a(), BinOp::Eq, false, i(9)), Clause::When { cond: vec![vec![un(a(), UnOp::Exists, false)]], lets: vec![], body: vec![vec![bin(a(), BinOp::Eq, false, i(7)), bin(a(), BinOp::Eq, false, i(8))]] }]])));
    {
        let inner = Rule { name: "pin".into(), params: Some(vec!["p".into()]), when: None, lets: vec![], body: vec![vec![Clause::Binary { not: false, some: false, q: a(), op: BinOp::Eq, opneg: false, rhs: Arg::Q(false, vec![Part::Var("p".into())]), msg: None }]] };
        let outer = Rule { name: "pout".into(), params: Some(vec!["q".into()]), when: None, lets: vec![], body: vec![vec![Clause::Call { not: false, name: "pin".into(), args: vec![Arg::Q(false, vec![Part::Var("q".into())])], msg: None }], vec![un(vec![Part::Var("q".into())], UnOp::Exists, false)]] };
        for arg in [Arg::Lit(i(2)), Arg::Q(false, vec![key("b")])] {
            out.push(File { lets: vec![], rules: vec![inner.clone(), outer.clone(), rule("r0", vec![vec![Clause::Call { not: false, name: "pout".into(), args: vec![arg.clone()], msg: None }]]), rule("r1", vec![vec![Clause::Call { not: false, name: "pin".into(), args: vec![arg.clone()], msg: None }], vec![lp[1].clone()]])], default: vec![] });
        }
    }
    // query block with `some`, nested when
    out.push(file1(rule("r0", vec![vec![Clause::Block { some: true, q: vec![key("a"), Part::All], not_empty: false, lets: vec![], body: vec![vec![un(vec![key("b")], UnOp::Exists, false)], vec![bin(vec![key("a")], BinOp::Eq, false, i(1)), bin(vec![key("b")], BinOp::Eq, false, i(1))]] }]])));
    out
}

fn status_map(o: &Obs) -> Option<Vec<(String, St)>> {
    match o {
        Obs::Ok(_, rs) => Some(rs.clone()),
        _ => None,
    }
}

/// checks one run of 1..3 rules files against one document
pub fn check_run(files: &[File], doc_json: &str, acc: &mut Acc, class: &str) {
    check_run_layout(files, doc_json, acc, class, "flat");
    if files.len() > 1 {
        // the same rules files under one base name in different directories, given one by one and as a directory tree
        check_run_layout(files, doc_json, acc, &format!("{}-same-basename", class), "same-basename");
        check_run_layout(files, doc_json, acc, &format!("{}-tree", class), "tree");
    }
}

fn check_run_layout(files: &[File], doc_json: &str, acc: &mut Acc, class: &str, layout: &str) {
    let texts: Vec<String> = files.iter().map(print_file).collect();
    let mut argv = sv(&["validate"]);
    if layout == "tree" {
        let d = crate::cli::reset_dir("c09/tree");
        for (k, t) in texts.iter().enumerate() {
            put(&format!("c09/tree/d{}/rules.guard", k), t);
        }
        argv.push("-r".into());
        argv.push(d);
    } else {
        for (k, t) in texts.iter().enumerate() {
            argv.push("-r".into());
            argv.push(if layout == "flat" { put(&format!("c09/f{}.guard", k), t) } else { put(&format!("c09/sb{}/rules.guard", k), t) });
        }
    }
    argv.push("-d".into());
    argv.push(put("c09/d.json", doc_json));
    argv.extend(sv(&["--structured", "-o", "json", "-S", "none"]));
    let o = cli_inproc(&argv, "");
    acc.traces += 1;
    let replay = |exp: &str, obs: String| json!({"kind":"cli","argv":argv,"stdin":"","files":{"rules":texts,"data":doc_json},"expected":exp,"observed":obs});
    if let Some(p) = &o.panic {
        acc.violate(&format!("panic:{}", class), format!("panic {} rules {:?} data {}", p, texts, doc_json), replay("no panic", p.clone()));
        return;
    }
    // baseline: each rules file alone through the library, verbose record
    let mut expected: Vec<(String, St)> = vec![];
    let mut failed_msgs: BTreeMap<String, BTreeSet<String>> = BTreeMap::new();
    let mut any_err = false;
    for t in &texts {
        match lib_record(t, doc_json) {
            Ok(rec) => {
                if let Some(rs) = status_map(&obs_from_record(&rec)) {
                    expected.extend(rs);
                }
                for (k, v) in failed_messages_by_rule(&rec) {
                    failed_msgs.entry(k).or_default().extend(v);
                }
            }
            Err(Obs::Empty) => {}
            Err(_) => any_err = true,
        }
    }
    // a called parameterised rule is recorded with the message of the call that reached it, no other call's
    {
        fn calls(c: &Cnf, out: &mut Vec<(String, Option<String>)>) {
            for line in c {
                for alt in line {
                    match alt {
                        Clause::Call { name, msg, .. } => out.push((name.clone(), msg.clone())),
                        Clause::Block { body, .. } => calls(body, out),
                        Clause::When { cond, body, .. } => {
                            calls(cond, out);
                            calls(body, out);
                        }
                        Clause::TypeBlock { cond, body, .. } => {
                            if let Some(c2) = cond {
                                calls(c2, out);
                            }
                            calls(body, out);
                        }
                        _ => {}
                    }
                }
            }
        }
        fn nested_rule_checks(n: &serde_json::Value, depth: usize, out: &mut Vec<(String, Option<String>)>) {
            if depth > 1 {
                if let Some(rc) = n.get("container").and_then(|c| c.get("RuleCheck")) {
                    out.push((bare(rc.get("name").and_then(|x| x.as_str()).unwrap_or("?")), rc.get("message").and_then(|m| m.as_str()).map(|x| x.to_string())));
                }
            }
            if let Some(ch) = n.get("children").and_then(|c| c.as_array()) {
                for c in ch {
                    nested_rule_checks(c, depth + 1, out);
                }
            }
        }
        for (f, t) in files.iter().zip(texts.iter()) {
            let mut declared = vec![];
            for r in &f.rules {
                if let Some(w) = &r.when {
                    calls(w, &mut declared);
                }
                calls(&r.body, &mut declared);
            }
            calls(&f.default, &mut declared);
            if declared.is_empty() {
                continue;
            }
            if let Ok(rec) = lib_record(t, doc_json) {
                let mut seen = vec![];
                nested_rule_checks(&rec, 0, &mut seen);
                for (name, msg) in seen {
                    if f.rules.iter().any(|r| r.name == name && r.params.is_some()) && !declared.iter().any(|(n, m)| *n == name && *m == msg) {
                        acc.violate(&format!("call-message:{}", class), format!("the recorded evaluation of parameterised rule {} carries message {:?}, but the calls of it are {:?} | rules `{}` data {}", name, msg, declared.iter().filter(|(n, _)| *n == name).collect::<Vec<_>>(), t.trim(), doc_json), replay("the message of the call", format!("{:?}", msg)));
                    }
                }
            }
        }
    }
    if any_err {
        *acc.outcomes.entry("evaluation-error".into()).or_insert(0) += 1;
        if o.code.is_ok() {
            acc.violate("report-despite-error", format!("an evaluation errors in the library but the CLI returned {:?}; rules {:?} data {}", o.code, texts, doc_json), replay("error exit", format!("{:?}", o.code)));
        }
        return;
    }
    let reps = match parse_structured_json(&o.out) {
        Ok(r) => r,
        Err(e) => {
            acc.violate("report-not-json", format!("{}: code {:?} stdout {}", e, o.code, o.out.chars().take(200).collect::<String>()), replay("JSON report", e.clone()));
            return;
        }
    };
    if reps.len() != 1 {
        acc.violate("report-count", format!("{} file reports for one data file", reps.len()), replay("one report", reps.len().to_string()));
        return;
    }
    let r = &reps[0];
    *acc.outcomes.entry(format!("{}", r.status.map_or("?", |s| s.txt()))).or_insert(0) += 1;
    let mut extra_traces = 0u64;
    let mut viols: Vec<(String, String)> = vec![];
    let mut bad = |sig: &str, what: String| {
        viols.push((sig.to_string(), what));
    };
    let _unused = |sig: &str, what: String| {
        acc.violate(&format!("{}:{}", sig, class), format!("{} | rules {:?} data {}", what, texts, doc_json), replay(sig, what.clone()));
    };
    // (0) every listed check, re-evaluated from the values it names, is one that failed: a value reported as "not in" a
    //     list is not a member of it (and the other way round for `not in`), two integers reported as failing an ordering or
    //     equality comparison do fail it
    if let Ok(raw) = serde_json::from_str::<Value>(&o.out) {
        fn walk(v: &Value, out: &mut Vec<String>) {
            match v {
                Value::Object(m) => {
                    if let Some(c) = m.get("InResolved") {
                        let from = &c["from"]["value"];
                        let neg = c["comparison"][1].as_bool().unwrap_or(false);
                        let mut members: Vec<&Value> = vec![];
                        for t in c["to"].as_array().map(|a| a.as_slice()).unwrap_or(&[]) {
                            match &t["value"] {
                                Value::Array(a) if !from.is_array() => members.extend(a.iter()),
                                other => members.push(other),
                            }
                        }
                        let comparable = !from.is_null() && !from.is_array() && !from.is_object() && members.iter().all(|x| !x.is_null() && !x.is_object() && !(x.is_string() && from.is_string()));
                        // (strings may be matched as regular expressions by the tool: left to the message-level oracle)
                        if comparable && c["comparison"][0] == "In" {
                            let is_member = members.iter().any(|x| *x == from);
                            if is_member != neg {
                                out.push(format!("a check lists {} as {} {:?}", from, if neg { "in (for `not in`)" } else { "not in" }, members));
                            }
                        }
                    }
                    if let Some(c) = m.get("Resolved") {
                        if let (Some(a), Some(b), Some(op)) = (c["from"]["value"].as_i64(), c["to"]["value"].as_i64(), c["comparison"][0].as_str()) {
                            let neg = c["comparison"][1].as_bool().unwrap_or(false);
                            let holds = match op {
                                "Eq" => Some(a == b),
                                "Lt" => Some(a < b),
                                "Le" => Some(a <= b),
                                "Gt" => Some(a > b),
                                "Ge" => Some(a >= b),
                                _ => None,
                            };
                            if let Some(h) = holds {
                                if h != neg {
                                    out.push(format!("a check lists {} {}{} {} as failed", a, if neg { "not " } else { "" }, op, b));
                                }
                            }
                        }
                    }
                    for x in m.values() {
                        walk(x, out);
                    }
                }
                Value::Array(a) => a.iter().for_each(|x| walk(x, out)),
                _ => {}
            }
        }
        let mut wrong = vec![];
        walk(&raw, &mut wrong);
        for w in wrong {
            bad("listed-check-did-not-fail", w);
        }
    }
    // (1) partition: every evaluated rule name in exactly one class, the class of its status
    let mut listed: Vec<(String, St)> = vec![];
    listed.extend(r.compliant.iter().map(|n| (bare(n), St::Pass)));
    listed.extend(r.not_applicable.iter().map(|n| (bare(n), St::Skip)));
    listed.extend(r.not_compliant.iter().map(|(n, _)| (bare(n), St::Fail)));
    let mut l_sorted = listed.clone();
    l_sorted.sort();
    let mut e_sorted = expected.clone();
    e_sorted.sort();
    if l_sorted != e_sorted {
        bad("partition", format!("report lists {:?} but the rules evaluated to {:?}", l_sorted, e_sorted));
    }
    // (2) file status fold
    let want = if !r.not_compliant.is_empty() {
        St::Fail
    } else if !r.compliant.is_empty() {
        St::Pass
    } else {
        St::Skip
    };
    if r.status != Some(want) {
        bad("file-status", format!("status {:?} with {} non-compliant / {} compliant rules", r.status, r.not_compliant.len(), r.compliant.len()));
    }
    // (3) listed checks belong to clauses that FAILed under that rule
    for (n, msgs) in &r.not_compliant {
        let allowed = failed_msgs.get(&bare(n)).cloned().unwrap_or_default();
        for m in msgs {
            if !allowed.contains(m) {
                bad("check-attribution", format!("rule {} lists a check with message {:?}; messages of its failed checks: {:?}", n, m, allowed));
            }
        }
    }
    // (3b) the tests of a filter are not checks of the rule: a message written on a clause inside `[ .. ]` is never listed
    {
        fn filter_msgs(c: &Cnf, inside: bool, out: &mut std::collections::BTreeSet<String>) {
            for line in c {
                for alt in line {
                    match alt {
                        Clause::Unary { msg, q, .. } | Clause::Binary { msg, q, .. } => {
                            if inside {
                                if let Some(m) = msg {
                                    out.insert(m.clone());
                                }
                            }
                            for p in q {
                                if let Part::Filter(fc) = p {
                                    filter_msgs(fc, true, out);
                                }
                            }
                        }
                        Clause::Block { q, body, .. } => {
                            for p in q {
                                if let Part::Filter(fc) = p {
                                    filter_msgs(fc, true, out);
                                }
                            }
                            filter_msgs(body, inside, out);
                        }
                        Clause::When { cond, body, .. } => {
                            filter_msgs(cond, inside, out);
                            filter_msgs(body, inside, out);
                        }
                        Clause::TypeBlock { cond, body, .. } => {
                            if let Some(c) = cond {
                                filter_msgs(c, inside, out);
                            }
                            filter_msgs(body, inside, out);
                        }
                        _ => {}
                    }
                }
            }
        }
        let mut fm = std::collections::BTreeSet::new();
        for f in files {
            for rl in &f.rules {
                filter_msgs(&rl.body, false, &mut fm);
                if let Some(w) = &rl.when {
                    filter_msgs(w, false, &mut fm);
                }
            }
            filter_msgs(&f.default, false, &mut fm);
        }
        for (n, msgs) in &r.not_compliant {
            for m in msgs {
                if fm.contains(m) {
                    bad("filter-test-listed-as-check", format!("rule {} lists a check with message {:?}, which is written on a clause inside a filter", n, m));
                }
            }
        }
    }
    // (3c) a clause that names a rule is satisfied or not by that rule's status alone (PASS iff the rule is PASS, inverted under
    //      `not`): the message of a satisfied reference is never listed as a failed check
    {
        fn named_msgs(c: &Cnf, out: &mut Vec<(String, bool, String)>) {
            for line in c {
                for alt in line {
                    match alt {
                        Clause::Named { name, not, msg: Some(m), .. } => out.push((name.clone(), *not, m.clone())),
                        Clause::Block { body, .. } => named_msgs(body, out),
                        Clause::When { body, .. } => named_msgs(body, out),
                        Clause::TypeBlock { body, .. } => named_msgs(body, out),
                        _ => {}
                    }
                }
            }
        }
        for f in files {
            for rl in &f.rules {
                let mut nm = vec![];
                named_msgs(&rl.body, &mut nm);
                let listed_here: Vec<&String> = r.not_compliant.iter().filter(|(n, _)| bare(n) == rl.name).flat_map(|(_, ms)| ms.iter()).collect();
                for (dep, not, m) in nm {
                    // statuses of all definitions of the referenced rule: first definition that is not SKIP decides
                    let dst: Vec<St> = expected.iter().filter(|(n, _)| *n == dep).map(|(_, st)| *st).collect();
                    if dst.len() != 1 {
                        continue;
                    }
                    let satisfied = (dst[0] == St::Pass) != not;
                    if satisfied && listed_here.iter().any(|x| **x == m) {
                        bad("satisfied-rule-reference-listed", format!("rule {} lists the message {:?} of its clause `{}{}`, which is satisfied ({} is {:?})", rl.name, m, if not { "not " } else { "" }, dep, dep, dst[0]));
                    }
                }
            }
        }
    }
    // (4) exit code agrees
    let want_code = if want == St::Fail { 19 } else { 0 };
    if o.code != Ok(want_code) {
        bad("exit-code", format!("exit {:?} with file status {:?}", o.code, want));
    }
    // (5) union: the multi-file report equals the union of the single-file reports
    if files.len() > 1 {
        let mut union: Vec<(String, St)> = vec![];
        for (k, t) in texts.iter().enumerate() {
            let mut av = sv(&["validate", "-r"]);
            av.push(put(&format!("c09/s{}.guard", k), t));
            av.push("-d".into());
            av.push(put("c09/d.json", doc_json));
            av.extend(sv(&["--structured", "-o", "json", "-S", "none"]));
            let so = cli_inproc(&av, "");
            extra_traces += 1;
            if let Ok(srs) = parse_structured_json(&so.out) {
                for sr in srs {
                    union.extend(sr.compliant.iter().map(|n| (bare(n), St::Pass)));
                    union.extend(sr.not_applicable.iter().map(|n| (bare(n), St::Skip)));
                    union.extend(sr.not_compliant.iter().map(|(n, _)| (bare(n), St::Fail)));
                }
            }
        }
        union.sort();
        if union != l_sorted {
            bad("union", format!("multi-file report {:?} differs from the union of single-file reports {:?}", l_sorted, union));
        }
    }
    acc.traces += extra_traces;
    for (sig, what) in viols {
        acc.violate(&format!("{}:{}", sig, class), format!("{} | rules {:?} data {}", what, texts, doc_json), replay(&sig, what.clone()));
    }
}

pub fn run(tier: &str) -> i32 {
    let thorough = tier == "thorough";
    let mut rep = Report::new("C09", tier);
    let g = Gen::standard(thorough);
    let b = bfs(&g, 3, if thorough { 200_000 } else { 60_000 });
    let mut progs: Vec<File> = vec![];
    progs.extend(b.levels[0].iter().cloned());
    progs.extend(b.levels[1].iter().cloned());
    let l3 = &b.levels[2];
    let step = if thorough { 1 } else { (l3.len() / 900).max(1) };
    progs.extend(l3.iter().step_by(step).cloned());
    progs.extend(extra_pool());
    progs.extend(same_name_family(false).into_iter().step_by(41).filter(|_| false)); // same-named rules are outside C09 (distinct names)
    let progs: Vec<File> = progs.iter().map(|f| tag_messages(f, "")).collect();
    let docs = docs_quick();
    let mut djs: Vec<String> = docs.iter().map(|d| d.json()).collect();
    // several values on both sides with a partial overlap (the checks listed for a failed query-to-query comparison are
    // those of the values that fail it)
    djs.push(r#"{"a":[1,2,3],"b":[1,3]}"#.to_string());
    djs.push(r#"{"a":[2,1],"b":[1,5,2]}"#.to_string());
    djs.push(r#"{"a":[1,2,7],"b":2}"#.to_string());
    let n = progs.len() * djs.len();
    let res = crate::par::run(n, rep.seed as u64, crate::par::deadline_secs(if thorough { 3000 } else { 40 }), Acc::new, |k, acc| {
        let (pi, di) = (k / djs.len(), k % djs.len());
        check_run(&[progs[pi].clone()], &djs[di], acc, "single");
    }, Acc::merge);
    rep.states += res.done as u64;
    rep.transitions += res.done as u64;
    if res.capped {
        rep.caps_hit.push(format!("wall-clock cap: {} of {} single-file states", res.done, n));
    }
    let mut acc = res.acc;
    // multi-file runs: ordered pairs / triples from a 12-file pool (rule names made distinct per file)
    let pool_idx: Vec<usize> = (0..12).map(|k| (k * 97 + 15) % progs.len()).collect();
    let pool: Vec<File> = pool_idx.iter().enumerate().map(|(k, pi)| tag_messages(&rename_rules(&progs[*pi], &format!("f{}", k)), &format!("f{}", k))).collect();
    // one of the twelve files holds no rule at all (an empty rules file is skipped, the files after it are not)
    let mut pool = pool;
    pool[11] = File::default();
    let mut combos: Vec<Vec<usize>> = vec![];
    for a in 0..12 {
        for b2 in 0..12 {
            if a != b2 {
                combos.push(vec![a, b2]);
                if thorough {
                    for c in 0..12 {
                        if c != a && c != b2 {
                            combos.push(vec![a, b2, c]);
                        }
                    }
                }
            }
        }
    }
    if !thorough {
        for t in 0..60 {
            combos.push(vec![t % 12, (t * 5 + 1) % 12, (t * 7 + 2) % 12]);
        }
        combos.retain(|c| c.iter().collect::<BTreeSet<_>>().len() == c.len());
    }
    let mdocs: Vec<&String> = djs.iter().step_by(if thorough { 2 } else { 5 }).collect();
    let n2 = combos.len() * mdocs.len();
    let r2 = crate::par::run(n2, rep.seed as u64, crate::par::deadline_secs(if thorough { 1200 } else { 20 }), Acc::new, |k, acc| {
        let (ci, di) = (k / mdocs.len(), k % mdocs.len());
        let fs: Vec<File> = combos[ci].iter().map(|x| pool[*x].clone()).collect();
        check_run(&fs, mdocs[di], acc, "multi");
    }, Acc::merge);
    rep.states += r2.done as u64;
    rep.transitions += r2.done as u64 + b.transitions;
    acc = Acc::merge(acc, r2.acc);
    rep.distinct_nontrivial = (progs.len() + combos.len()) as u64;
    rep.extra.insert("programs".into(), json!(progs.len()));
    rep.extra.insert("multi_file_runs".into(), json!(combos.len()));
    rep.samples.push(json!({"rules": print_file(&progs[progs.len() - 3]), "data": djs[2]}));
    rep.samples.push(json!({"rules": [print_file(&pool[0]), print_file(&pool[1])], "data": djs[0]}));
    rep.rule = "states = (1..3 rules files with distinct rule names and unique custom messages, document); each state runs validate --structured -o json in-process; the report is compared with the per-rule statuses and failed-check messages of the library's verbose record of each rules file alone; distinct_nontrivial = distinct programs + file combinations".into();
    rep.assumptions = vec!["soundness of listed checks is verified (messages belong to failed checks of that rule); completeness of the check list is not required by the property".into()];
    acc.into_report(&mut rep);
    cleanup_workdirs();
    rep.finish()
}
