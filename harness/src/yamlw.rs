//! The harness's own YAML / JSON writers with layout switches and position tracking (C10, C11).
use crate::val::{float_txt, json_str, V};

#[derive(Clone, Copy, Debug, PartialEq)]
pub enum Quote {
    /// plain where the YAML core schema keeps the type (numbers, bools, null, and "safe" words), else double
    PlainSafe,
    Single,
    Double,
    /// block scalars `|-` / `>-` for string values of block mappings (where expressible), else double quotes
    Literal,
    Folded,
}

#[derive(Clone, Debug)]
pub struct Layout {
    pub kind: &'static str, // "json" | "json-pretty" | "flow" | "block"
    pub indent: usize,
    pub quote: Quote,
    pub doc_start: bool,      // leading `---`
    pub comments: bool,       // comment lines before / between entries
    pub blank_lines: bool,    // blank lines between entries
    pub wrap: bool,           // flow: line break after every top-level entry
    pub quote_keys: bool,
    pub lead_blank: bool,     // two blank lines before the document
    pub root_indent: usize,   // every line of the document indented by this many spaces
}
impl Layout {
    pub fn new(kind: &'static str) -> Layout {
        Layout { kind, indent: 2, quote: Quote::PlainSafe, doc_start: false, comments: false, blank_lines: false, wrap: false, quote_keys: false, lead_blank: false, root_indent: 0 }
    }
    pub fn name(&self) -> String {
        format!("{}{}{}{}{}{}{}", self.kind, if self.kind == "block" || self.kind == "json-pretty" { format!("-i{}", self.indent) } else { String::new() }, match self.quote { Quote::PlainSafe => "", Quote::Single => "-sq", Quote::Double => "-dq", Quote::Literal => "-lit", Quote::Folded => "-fold" }, if self.doc_start { "-doc" } else { "" }, if self.comments { "-cmt" } else { "" }, if self.blank_lines { "-blank" } else { "" }, if self.wrap { "-wrap" } else { "" }) + if self.quote_keys { "-qk" } else { "" } + if self.lead_blank { "-leadblank" } else { "" } + &if self.root_indent > 0 { format!("-rootindent{}", self.root_indent) } else { String::new() }
    }
}

/// (json-pointer path, 0-based line, 0-based column) of every scalar's first character
pub type Positions = Vec<(String, usize, usize)>;

pub struct W {
    pub out: String,
    pub pos: Positions,
    line: usize,
    col: usize,
}
impl W {
    fn new() -> W {
        W { out: String::new(), pos: vec![], line: 0, col: 0 }
    }
    fn push(&mut self, s: &str) {
        for c in s.chars() {
            if c == '\n' {
                self.line += 1;
                self.col = 0;
            } else {
                self.col += 1;
            }
        }
        self.out.push_str(s);
    }
    fn mark(&mut self, path: &str) {
        self.pos.push((path.to_string(), self.line, self.col));
    }
}

fn plain_safe_word(s: &str) -> bool {
    if s.is_empty() {
        return false;
    }
    let reserved = ["true", "false", "null", "yes", "no", "on", "off", "y", "n", "nan", "inf"];
    if reserved.contains(&s.to_lowercase().as_str()) {
        return false;
    }
    let mut chars = s.chars();
    let first = chars.next().unwrap();
    first.is_ascii_lowercase() && s.chars().all(|c| c.is_ascii_lowercase() || c.is_ascii_digit() || c == '_') && s.parse::<f64>().is_err()
}

/// characters YAML 1.1 treats as line breaks or as non-printable: only a double-quoted scalar with escapes can carry them
fn yaml_special(c: char) -> bool {
    let u = c as u32;
    u < 0x20 || (0x7f..=0x9f).contains(&u) || u == 0x2028 || u == 0x2029 || u == 0xfeff
}
fn yaml_dq(s: &str) -> String {
    let mut o = String::new();
    let mut j = String::new();
    json_str(s, &mut j);
    for c in j.chars() {
        if yaml_special(c) {
            o.push_str(&format!("\\u{:04x}", c as u32));
        } else {
            o.push(c);
        }
    }
    o
}

pub fn yaml_str(s: &str, q: Quote) -> String {
    if s.chars().any(yaml_special) {
        return yaml_dq(s);
    }
    match q {
        Quote::PlainSafe if plain_safe_word(s) => s.to_string(),
        Quote::Literal | Quote::Folded => {
            let mut o = String::new();
            json_str(s, &mut o);
            o
        }
        Quote::Single if !s.contains('\n') && !s.chars().any(|c| (c as u32) < 0x20) => format!("'{}'", s.replace('\'', "''")),
        _ => {
            let mut o = String::new();
            json_str(s, &mut o); // JSON string escapes are valid YAML double-quoted escapes
            o
        }
    }
}

fn scalar_txt(v: &V, q: Quote) -> String {
    match v {
        V::Null => "null".into(),
        V::Bool(b) => b.to_string(),
        V::Int(n) => n.to_string(),
        V::Float(x) => float_txt(*x),
        V::Str(s) => yaml_str(s, q),
        _ => unreachable!(),
    }
}

fn key_txt(k: &str, l: &Layout) -> String {
    if l.quote_keys {
        yaml_str(k, if l.quote == Quote::Single { Quote::Single } else { Quote::Double })
    } else {
        yaml_str(k, Quote::PlainSafe)
    }
}

fn ptr(path: &str, seg: &str) -> String {
    format!("{}/{}", path, seg)
}

fn flow(w: &mut W, v: &V, l: &Layout, path: &str, top: bool) {
    match v {
        V::List(items) => {
            w.push("[");
            for (i, x) in items.iter().enumerate() {
                if i > 0 {
                    w.push(", ");
                }
                flow(w, x, l, &ptr(path, &i.to_string()), false);
            }
            w.push("]");
        }
        V::Map(m) => {
            w.push("{");
            for (i, (k, x)) in m.iter().enumerate() {
                if i > 0 {
                    w.push(",");
                    if top && l.wrap {
                        w.push("\n  ");
                    } else {
                        w.push(" ");
                    }
                }
                w.push(&key_txt(k, l));
                w.push(": ");
                flow(w, x, l, &ptr(path, k), false);
            }
            w.push("}");
        }
        s => {
            w.mark(path);
            w.push(&scalar_txt(s, l.quote));
        }
    }
}

fn block(w: &mut W, v: &V, l: &Layout, path: &str, depth: usize, inline_first: bool) {
    let pad = " ".repeat(depth * l.indent);
    match v {
        V::Map(m) if !m.is_empty() => {
            for (i, (k, x)) in m.iter().enumerate() {
                if !(i == 0 && inline_first) {
                    if l.comments && depth == 0 {
                        w.push(&format!("{}# entry {}\n", pad, i));
                    }
                    if l.blank_lines && i > 0 && depth == 0 {
                        w.push("\n");
                    }
                    w.push(&pad);
                }
                w.push(&key_txt(k, l));
                w.push(":");
                match x {
                    V::Map(mm) if !mm.is_empty() => {
                        w.push("\n");
                        block(w, x, l, &ptr(path, k), depth + 1, false);
                    }
                    V::List(ll) if !ll.is_empty() => {
                        w.push("\n");
                        block(w, x, l, &ptr(path, k), depth + 1, false);
                    }
                    V::Str(sv) if matches!(l.quote, Quote::Literal | Quote::Folded) && !sv.is_empty() && !sv.starts_with(' ') && !sv.ends_with(' ') && !sv.contains('\n') && !sv.chars().any(yaml_special) => {
                        // a block scalar starts at its indicator
                        w.push(" ");
                        w.mark(&ptr(path, k));
                        w.push(if l.quote == Quote::Literal { "|-\n" } else { ">-\n" });
                        w.push(&" ".repeat((depth + 1) * l.indent));
                        w.push(sv);
                        w.push("\n");
                    }
                    other => {
                        w.push(" ");
                        flow(w, other, l, &ptr(path, k), false);
                        w.push("\n");
                    }
                }
            }
        }
        V::List(items) if !items.is_empty() => {
            for (i, x) in items.iter().enumerate() {
                if !(i == 0 && inline_first) {
                    w.push(&pad);
                }
                w.push("- ");
                match x {
                    V::Map(mm) if !mm.is_empty() => {
                        // first entry on the dash line, the rest aligned under it
                        let inner_depth_cols = depth * l.indent + 2;
                        block_cols(w, x, l, &ptr(path, &i.to_string()), inner_depth_cols);
                    }
                    V::List(ll) if !ll.is_empty() => {
                        flow(w, x, l, &ptr(path, &i.to_string()), false);
                        w.push("\n");
                    }
                    other => {
                        flow(w, other, l, &ptr(path, &i.to_string()), false);
                        w.push("\n");
                    }
                }
            }
        }
        other => {
            w.push(&pad);
            flow(w, other, l, path, false);
            w.push("\n");
        }
    }
}

/// a map written at an explicit column (inside a `- ` list item)
fn block_cols(w: &mut W, v: &V, l: &Layout, path: &str, cols: usize) {
    if let V::Map(m) = v {
        for (i, (k, x)) in m.iter().enumerate() {
            if i > 0 {
                w.push(&" ".repeat(cols));
            }
            w.push(&key_txt(k, l));
            w.push(": ");
            flow(w, x, l, &ptr(path, k), false);
            w.push("\n");
        }
    }
}

fn json_pretty(w: &mut W, v: &V, l: &Layout, path: &str, depth: usize) {
    let pad = " ".repeat((depth + 1) * l.indent);
    let padc = " ".repeat(depth * l.indent);
    match v {
        V::List(items) if !items.is_empty() => {
            w.push("[\n");
            for (i, x) in items.iter().enumerate() {
                w.push(&pad);
                json_pretty(w, x, l, &ptr(path, &i.to_string()), depth + 1);
                if i + 1 < items.len() {
                    w.push(",");
                }
                w.push("\n");
            }
            w.push(&padc);
            w.push("]");
        }
        V::Map(m) if !m.is_empty() => {
            w.push("{\n");
            for (i, (k, x)) in m.iter().enumerate() {
                w.push(&pad);
                let mut ks = String::new();
                json_str(k, &mut ks);
                w.push(&ks);
                w.push(": ");
                json_pretty(w, x, l, &ptr(path, k), depth + 1);
                if i + 1 < m.len() {
                    w.push(",");
                }
                w.push("\n");
            }
            w.push(&padc);
            w.push("}");
        }
        V::List(_) => w.push("[]"),
        V::Map(_) => w.push("{}"),
        V::Str(sv) => {
            // JSON proper: only the characters JSON requires are escaped
            w.mark(path);
            let mut o = String::new();
            json_str(sv, &mut o);
            w.push(&o);
        }
        s => {
            w.mark(path);
            w.push(&scalar_txt(s, Quote::Double));
        }
    }
}

fn json_compact(w: &mut W, v: &V, path: &str) {
    match v {
        V::List(items) => {
            w.push("[");
            for (i, x) in items.iter().enumerate() {
                if i > 0 {
                    w.push(",");
                }
                json_compact(w, x, &ptr(path, &i.to_string()));
            }
            w.push("]");
        }
        V::Map(m) => {
            w.push("{");
            for (i, (k, x)) in m.iter().enumerate() {
                if i > 0 {
                    w.push(",");
                }
                let mut ks = String::new();
                json_str(k, &mut ks);
                w.push(&ks);
                w.push(":");
                json_compact(w, x, &ptr(path, k));
            }
            w.push("}");
        }
        V::Str(sv) => {
            // JSON proper: only the characters JSON requires are escaped
            w.mark(path);
            let mut o = String::new();
            json_str(sv, &mut o);
            w.push(&o);
        }
        s => {
            w.mark(path);
            w.push(&scalar_txt(s, Quote::Double));
        }
    }
}

pub fn write(v: &V, l: &Layout) -> (String, Positions) {
    let mut w = W::new();
    if l.lead_blank {
        w.push("\n\n");
    }
    if l.doc_start && (l.kind == "block" || l.kind == "flow") {
        w.push("---\n");
    }
    if l.comments && (l.kind == "block" || l.kind == "flow") {
        w.push("# a leading comment\n");
    }
    match l.kind {
        "json" => json_compact(&mut w, v, ""),
        "json-pretty" => {
            json_pretty(&mut w, v, l, "", 0);
            w.push("\n");
        }
        "flow" => {
            flow(&mut w, v, l, "", true);
            w.push("\n");
        }
        _ => block(&mut w, v, l, "", 0, false),
    }
    if l.root_indent > 0 {
        // the whole document moved to the right (a block document may be indented at its root)
        let pad = " ".repeat(l.root_indent);
        let text: String = w.out.split_inclusive('\n').map(|ln| if ln.trim().is_empty() { ln.to_string() } else { format!("{}{}", pad, ln) }).collect();
        let pos = w.pos.into_iter().map(|(p, ln, c)| (p, ln, c + l.root_indent)).collect();
        return (text, pos);
    }
    (w.out, w.pos)
}

pub fn layouts_c11() -> Vec<Layout> {
    let mut out = vec![Layout::new("json"), Layout::new("json-pretty")];
    for q in [Quote::PlainSafe, Quote::Single, Quote::Double] {
        let mut f = Layout::new("flow");
        f.quote = q;
        out.push(f);
        for indent in [2, 4] {
            let mut b = Layout::new("block");
            b.quote = q;
            b.indent = indent;
            out.push(b);
        }
    }
    for q in [Quote::Literal, Quote::Folded] {
        let mut b = Layout::new("block");
        b.quote = q;
        out.push(b);
    }
    for kind in ["block", "flow", "json-pretty"] {
        let mut ri = Layout::new(kind);
        ri.root_indent = 3;
        out.push(ri);
    }
    let mut rib = Layout::new("block");
    rib.root_indent = 2;
    rib.lead_blank = true;
    rib.quote = Quote::Double;
    out.push(rib);
    let mut qk = Layout::new("block");
    qk.quote_keys = true;
    out.push(qk);
    let mut qf = Layout::new("flow");
    qf.quote_keys = true;
    qf.quote = Quote::Single;
    out.push(qf);
    out
}
