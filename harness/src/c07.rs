//! C07 — the verdict is independent of output format, verbosity and entry point (DESIGN 5/C07).
use crate::ast::*;
use crate::c01::Acc;
use crate::c09::tag_messages;
use crate::cli::*;
use crate::evidence::Report;
use crate::impl_::{lib_raw, lib_record, obs_from_record, Obs, St};
use crate::p2::*;
use crate::report::*;
use crate::universe::*;
use crate::val::*;
use serde_json::{json, Value};
use std::collections::BTreeSet;

#[derive(Clone, Debug)]
pub struct Base {
    pub file: St,
    pub rules: Vec<(String, St)>,
}
impl Base {
    /// names shown under a status; a name defined several times is shown under PASS / FAIL when some definition passed /
    /// failed, and under SKIP only when every definition was skipped (the summary table's rule)
    fn set(&self, s: St) -> BTreeSet<String> {
        self.rules.iter().filter(|(n, x)| *x == s && (s != St::Skip || self.rules.iter().all(|(n2, x2)| n2 != n || *x2 == St::Skip))).map(|(n, _)| n.clone()).collect()
    }
    /// names with some definition of that status (detail lines are per definition)
    fn raw_set(&self, s: St) -> BTreeSet<String> {
        self.rules.iter().filter(|(_, x)| *x == s).map(|(n, _)| n.clone()).collect()
    }
    fn exit(&self) -> i32 {
        if self.file == St::Fail {
            19
        } else {
            0
        }
    }
}

#[derive(Clone, Debug)]
pub struct Config {
    pub name: String,
    pub argv: Vec<String>, // after `validate`, without -r/-d
    pub entry: &'static str, // files | stdin | payload
    pub fmt: &'static str,   // sls | json | yaml | sjson | syaml | junit | sarif
    pub summary: Vec<&'static str>, // selected sections
    pub verbose: bool,
    pub print_json: bool,
}

pub fn configs() -> Vec<Config> {
    let mut out = vec![];
    let sums: Vec<(&str, Vec<&'static str>)> = vec![("all", vec!["pass", "fail", "skip"]), ("pass", vec!["pass"]), ("fail", vec!["fail"]), ("skip", vec!["skip"]), ("none", vec![]), ("pass,fail", vec!["pass", "fail"])];
    for (sname, sel) in &sums {
        for v in [false, true] {
            for p in [false, true] {
                let mut a = sv(&["-S", sname]);
                if v {
                    a.push("-v".into());
                }
                if p {
                    a.push("-p".into());
                }
                out.push(Config { name: format!("sls -S {}{}{}", sname, if v { " -v" } else { "" }, if p { " -p" } else { "" }), argv: a, entry: "files", fmt: "sls", summary: sel.clone(), verbose: v, print_json: p });
            }
        }
    }
    for f in ["json", "yaml"] {
        for (sname, sel) in [("all", vec!["pass", "fail", "skip"]), ("none", vec![]), ("fail", vec!["fail"])] {
            for v in [false, true] {
                let mut a = sv(&["-o", f, "-S", sname]);
                if v {
                    a.push("-v".into());
                }
                out.push(Config { name: format!("-o {} -S {}{}", f, sname, if v { " -v" } else { "" }), argv: a, entry: "files", fmt: if f == "json" { "json" } else { "yaml" }, summary: sel.clone(), verbose: v, print_json: false });
            }
        }
    }
    for (f, tag) in [("json", "sjson"), ("yaml", "syaml"), ("junit", "junit"), ("sarif", "sarif")] {
        for entry in ["files", "stdin", "payload"] {
            out.push(Config { name: format!("structured {} via {}", f, entry), argv: sv(&["--structured", "-o", f, "-S", "none"]), entry, fmt: tag, summary: vec![], verbose: false, print_json: false });
        }
    }
    for entry in ["stdin", "payload"] {
        out.push(Config { name: format!("sls -S all via {}", entry), argv: sv(&["-S", "all"]), entry, fmt: "sls", summary: vec!["pass", "fail", "skip"], verbose: false, print_json: false });
        // the documented --type flag and the ordering flags never change a verdict
        out.push(Config { name: format!("sls -S all --type CFNTemplate via {}", entry), argv: sv(&["-S", "all", "--type", "CFNTemplate"]), entry, fmt: "sls", summary: vec!["pass", "fail", "skip"], verbose: false, print_json: false });
        out.push(Config { name: format!("structured json --type CFNTemplate -a via {}", entry), argv: sv(&["--structured", "-o", "json", "-S", "none", "-t", "CFNTemplate", "-a"]), entry, fmt: "sjson", summary: vec![], verbose: false, print_json: false });
        out.push(Config { name: format!("-o json -S none -p via {}", entry), argv: sv(&["-o", "json", "-S", "none", "-p"]), entry, fmt: "json", summary: vec![], verbose: false, print_json: true });
    }
    out
}

fn partition_of(fr: &FileRep) -> Vec<(String, St)> {
    let mut l: Vec<(String, St)> = vec![];
    l.extend(fr.compliant.iter().map(|n| (bare(n), St::Pass)));
    l.extend(fr.not_applicable.iter().map(|n| (bare(n), St::Skip)));
    l.extend(fr.not_compliant.iter().map(|(n, _)| (bare(n), St::Fail)));
    l.sort();
    l.dedup(); // a name defined several times is listed once per status
    l
}

pub fn check_config(cfg: &Config, text: &str, dj: &str, base: &Base, json_leaf_checks: Option<usize>, acc: &mut Acc) {
    let mut argv = sv(&["validate"]);
    let mut stdin = String::new();
    match cfg.entry {
        "files" => {
            argv.push("-r".into());
            argv.push(put("c07/r.guard", text));
            argv.push("-d".into());
            argv.push(put("c07/d.json", dj));
        }
        "stdin" => {
            argv.push("-r".into());
            argv.push(put("c07/r.guard", text));
            stdin = dj.to_string();
        }
        _ => {
            argv.push("--payload".into());
            stdin = json!({"rules":[text],"data":[dj]}).to_string();
        }
    }
    argv.extend(cfg.argv.iter().cloned());
    let o = cli_inproc(&argv, &stdin);
    acc.traces += 1;
    let mut viols: Vec<(String, String)> = vec![];
    let mut bad = |sig: &str, what: String| viols.push((sig.to_string(), what));
    if let Some(p) = &o.panic {
        bad("panic", format!("panic {}", p));
    } else {
        if o.code != Ok(base.exit()) {
            bad("exit-code", format!("exit {:?}, baseline file status {:?}", o.code, base.file));
        }
        let mut want_sorted = base.rules.clone();
        want_sorted.sort();
        want_sorted.dedup();
        match cfg.fmt {
            "sls" | "json" | "yaml" => {
                let pr = parse_plain(&o.out, cfg.fmt);
                for p in &pr.problems {
                    bad("rendering", p.clone());
                }
                // the table is printed when at least one selected section is non-empty
                let table_expected = cfg.summary.iter().any(|sec| {
                    !base.set(match *sec {
                        "pass" => St::Pass,
                        "fail" => St::Fail,
                        _ => St::Skip,
                    })
                    .is_empty()
                });
                if !cfg.summary.is_empty() && !table_expected {
                    if !pr.tables.is_empty() {
                        bad("summary-table", "a summary table is printed although every selected section is empty".into());
                    }
                } else if !cfg.summary.is_empty() {
                    if pr.tables.len() != 1 {
                        bad("summary-table", format!("{} summary tables for one pair", pr.tables.len()));
                    }
                    for t in &pr.tables {
                        if t.status != Some(base.file) {
                            bad("summary-table", format!("table says Status = {:?}, baseline {:?}", t.status, base.file));
                        }
                        for (sec, st, listed, present) in [("pass", St::Pass, &t.pass, t.has_pass), ("fail", St::Fail, &t.fail, t.has_fail), ("skip", St::Skip, &t.skip, t.has_skip)] {
                            let want = base.set(st);
                            let got: BTreeSet<String> = listed.iter().cloned().collect();
                            if cfg.summary.contains(&sec) {
                                if got != want || got.len() != listed.len() {
                                    bad("summary-table", format!("{} section lists {:?}, baseline {:?}", sec, listed, want));
                                }
                            } else if present && !listed.is_empty() {
                                bad("summary-table", format!("{} section shown although not selected", sec));
                            }
                        }
                    }
                } else if !pr.tables.is_empty() {
                    bad("summary-table", "summary table printed with -S none".into());
                }
                if cfg.fmt == "sls" {
                    if !pr.detail_pass.is_subset(&base.raw_set(St::Pass)) || !pr.detail_skip.is_subset(&base.raw_set(St::Skip)) || !pr.detail_fail.is_subset(&base.raw_set(St::Fail)) {
                        bad("detail-lines", format!("detail lines compliant={:?} not-applicable={:?} non-compliant={:?}, baseline {:?}", pr.detail_pass, pr.detail_skip, pr.detail_fail, base.rules));
                    }
                } else {
                    if pr.json_docs.len() != 1 {
                        bad("embedded-report", format!("{} embedded reports for one pair", pr.json_docs.len()));
                    }
                    for d in &pr.json_docs {
                        if partition_of(d) != want_sorted || d.status != Some(base.file) {
                            bad("embedded-report", format!("embedded report {:?} status {:?}, baseline {:?} {:?}", partition_of(d), d.status, want_sorted, base.file));
                        }
                    }
                }
                if cfg.verbose {
                    if pr.tree_rules != base.rules || pr.tree_files != vec![base.file] {
                        bad("verbose-tree", format!("tree shows file {:?} rules {:?}, baseline {:?} {:?}", pr.tree_files, pr.tree_rules, base.file, base.rules));
                    }
                }
                if cfg.print_json {
                    let recs = parse_record_stream(&o.out);
                    if recs.len() != 1 {
                        bad("print-json", format!("{} records printed for one pair", recs.len()));
                    }
                    for r in recs {
                        match obs_from_record(&r) {
                            Obs::Ok(f, rs) => {
                                let rs: Vec<(String, St)> = rs.into_iter().map(|(n, s)| (bare(&n), s)).collect();
                                if f != base.file || rs != base.rules {
                                    bad("print-json", format!("record says {:?} {:?}, baseline {:?} {:?}", f, rs, base.file, base.rules));
                                }
                            }
                            other => bad("print-json", format!("record unreadable: {}", other.short())),
                        }
                    }
                }
            }
            "sjson" | "syaml" => {
                let reps = if cfg.fmt == "sjson" {
                    parse_structured_json(&o.out)
                } else {
                    parse_structured_yaml(&o.out).map(|x| x.0)
                };
                match reps {
                    Err(e) => bad("structured-not-well-formed", e),
                    Ok(reps) => {
                        if reps.len() != 1 {
                            bad("structured-report", format!("{} reports", reps.len()));
                        }
                        for d in &reps {
                            if partition_of(d) != want_sorted || d.status != Some(base.file) {
                                bad("structured-report", format!("report {:?} status {:?}, baseline {:?} {:?}", partition_of(d), d.status, want_sorted, base.file));
                            }
                        }
                    }
                }
            }
            "junit" => match parse_junit(&o.out) {
                Err(e) => bad("junit-not-well-formed", e),
                Ok(cases) => {
                    for pb in junit_counter_problems(&o.out) {
                        bad("junit", pb);
                    }
                    if cases.len() != 1 {
                        bad("junit", format!("{} test cases for one pair", cases.len()));
                    }
                    for c in &cases {
                        let want = match base.file {
                            St::Pass => "pass",
                            St::Fail => "fail",
                            St::Skip => "skip",
                        };
                        if c.mark != want {
                            bad("junit", format!("test case marked {} but the file status is {:?}", c.mark, base.file));
                        }
                        let fails = base.set(St::Fail);
                        for r in &c.failure_rules {
                            if !fails.contains(&bare(r)) {
                                bad("junit", format!("failure attributed to rule {} which did not fail", r));
                            }
                        }
                    }
                }
            },
            "sarif" => match parse_sarif(&o.out) {
                Err(e) => bad("sarif-not-well-formed", e),
                Ok(results) => {
                    if let Some(n) = json_leaf_checks {
                        if results.len() != n {
                            bad("sarif", format!("{} results but the JSON report lists {} failing checks", results.len(), n));
                        }
                    }
                    let fails: BTreeSet<String> = base.set(St::Fail).iter().map(|s| s.to_uppercase()).collect();
                    for (rid, _) in &results {
                        if !fails.contains(&rid.to_uppercase()) {
                            bad("sarif", format!("result for rule {} which did not fail", rid));
                        }
                    }
                }
            },
            _ => {}
        }
    }
    for (sig, what) in viols {
        acc.violate(&format!("{}:{}", sig, cfg.fmt), format!("[{}] {} | rules `{}` data {}", cfg.name, what, text.trim(), dj), json!({"kind":"cli","argv":argv,"stdin":stdin,"files":{"rules":text,"data":dj},"expected":format!("file {:?} rules {:?}", base.file, base.rules),"observed":what}));
    }
}

/// two rules files, one document: structured json / yaml / junit / sarif and the console must agree
pub fn check_multi(files: &[File], dj: &str, acc: &mut Acc) {
    let texts: Vec<String> = files.iter().map(print_file).collect();
    let mut bases = vec![];
    for t in &texts {
        match lib_record(t, dj).map(|r| obs_from_record(&r)) {
            Ok(Obs::Ok(f, rs)) => bases.push(Base { file: f, rules: rs }),
            _ => return, // evaluation error in one of the files: no verdict to compare
        }
    }
    let all_rules: Vec<(String, St)> = bases.iter().flat_map(|b| b.rules.clone()).collect();
    let fold = if all_rules.iter().any(|(_, s)| *s == St::Fail) {
        St::Fail
    } else if all_rules.iter().any(|(_, s)| *s == St::Pass) {
        St::Pass
    } else {
        St::Skip
    };
    let want_exit = if fold == St::Fail { 19 } else { 0 };
    let mut want_sorted = all_rules.clone();
    want_sorted.sort();
    want_sorted.dedup();
    let run = |extra: &[&str]| {
        let mut a = sv(&["validate"]);
        for (k, t) in texts.iter().enumerate() {
            a.push("-r".into());
            a.push(put(&format!("c07m/f{}.guard", k), t));
        }
        a.push("-d".into());
        a.push(put("c07m/d.json", dj));
        a.extend(sv(extra));
        (cli_inproc(&a, ""), a)
    };
    let mut viols: Vec<(String, String, Vec<String>)> = vec![];
    let mut leaf = None;
    for fmt in ["json", "yaml", "junit", "sarif", "plain"] {
        let (o, argv) = if fmt == "plain" { run(&["-S", "all"]) } else { run(&["--structured", "-o", fmt, "-S", "none"]) };
        acc.traces += 1;
        acc.nontrivial += 1;
        let mut bad = |sig: &str, what: String| viols.push((format!("multi-{}:{}", sig, fmt), what, argv.clone()));
        if o.panic.is_some() {
            bad("panic", format!("{:?}", o.panic));
            continue;
        }
        if o.code != Ok(want_exit) {
            bad("exit-code", format!("exit {:?}, rules evaluate to {:?}", o.code, all_rules));
        }
        match fmt {
            "json" | "yaml" => {
                let reps = if fmt == "json" { parse_structured_json(&o.out) } else { parse_structured_yaml(&o.out).map(|x| x.0) };
                match reps {
                    Err(e) => bad("not-well-formed", e),
                    Ok(reps) => {
                        if reps.len() != 1 {
                            bad("report", format!("{} reports for one data file", reps.len()));
                        }
                        for d in &reps {
                            if fmt == "json" {
                                leaf = Some(d.leaf_checks);
                            }
                            if partition_of(d) != want_sorted || d.status != Some(fold) {
                                bad("report", format!("report {:?} status {:?}; rules evaluate to {:?}, fold {:?}", partition_of(d), d.status, want_sorted, fold));
                            }
                        }
                    }
                }
            }
            "junit" => match parse_junit(&o.out) {
                Err(e) => bad("not-well-formed", e),
                Ok(cases) => {
                    for pb in junit_counter_problems(&o.out) {
                        bad("counters", pb);
                    }
                    let marks: Vec<String> = cases.iter().map(|c| c.mark.clone()).collect();
                    let want: Vec<String> = bases.iter().map(|b| match b.file { St::Pass => "pass", St::Fail => "fail", St::Skip => "skip" }.to_string()).collect();
                    if marks != want {
                        bad("marks", format!("test case marks {:?}, per-file statuses {:?}", marks, want));
                    }
                }
            },
            "sarif" => match parse_sarif(&o.out) {
                Err(e) => bad("not-well-formed", e),
                Ok(results) => {
                    if let Some(n) = leaf {
                        if results.len() != n {
                            bad("results", format!("{} results but the JSON report lists {} failing checks", results.len(), n));
                        }
                    }
                }
            },
            _ => {
                let pr = parse_plain(&o.out, "sls");
                let got: Vec<(Option<St>, BTreeSet<String>, BTreeSet<String>, BTreeSet<String>)> = pr.tables.iter().map(|t| (t.status, t.pass.iter().cloned().collect(), t.fail.iter().cloned().collect(), t.skip.iter().cloned().collect())).collect();
                let want: Vec<(Option<St>, BTreeSet<String>, BTreeSet<String>, BTreeSet<String>)> = bases.iter().filter(|b| !b.rules.is_empty()).map(|b| (Some(b.file), b.set(St::Pass), b.set(St::Fail), b.set(St::Skip))).collect();
                if got != want {
                    bad("tables", format!("tables {:?}, per-file verdicts {:?}", got, want));
                }
            }
        }
    }
    // the same rules files and document through the --payload entry point: exit code and structured report
    let payload = json!({"rules": texts, "data": [dj]}).to_string();
    for (fmt, extra) in [("payload-plain", sv(&["-S", "all"])), ("payload-json", sv(&["--structured", "-o", "json", "-S", "none"]))] {
        let mut a = sv(&["validate", "--payload"]);
        a.extend(extra);
        let o = cli_inproc(&a, &payload);
        acc.traces += 1;
        acc.nontrivial += 1;
        if o.panic.is_some() {
            viols.push((format!("multi-panic:{}", fmt), format!("{:?}", o.panic), a.clone()));
            continue;
        }
        if o.code != Ok(want_exit) {
            viols.push((format!("multi-exit-code:{}", fmt), format!("exit {:?}, rules evaluate to {:?}", o.code, all_rules), a.clone()));
        }
        if fmt == "payload-json" {
            match parse_structured_json(&o.out) {
                Err(e) => viols.push((format!("multi-not-well-formed:{}", fmt), e, a.clone())),
                Ok(reps) => {
                    for d in &reps {
                        let got: Vec<(String, St)> = partition_of(d).into_iter().map(|(n, s)| (bare(&n), s)).collect();
                        let mut got = got;
                        got.sort();
                        if got != want_sorted || d.status != Some(fold) {
                            viols.push((format!("multi-report:{}", fmt), format!("report {:?} status {:?}; rules evaluate to {:?}, fold {:?}", got, d.status, want_sorted, fold), a.clone()));
                        }
                    }
                }
            }
        }
    }
    for (sig, what, argv) in viols {
        acc.violate(&sig, format!("{} | rules {:?} data {}", what, texts, dj), json!({"kind":"cli","argv":argv,"stdin":"","files":{"rules":texts,"data":dj},"expected":format!("{:?}", want_sorted),"observed":what}));
    }
}

/// one rules file against two data files in one run: every rendering gives, per data file, the verdicts of that file alone
pub fn check_two_data(file: &File, dj1: &str, dj2: &str, acc: &mut Acc) {
    let text = print_file(file);
    let mut bases = vec![];
    for dj in [dj1, dj2] {
        match lib_record(&text, dj).map(|r| obs_from_record(&r)) {
            Ok(Obs::Ok(f, rs)) => bases.push(Base { file: f, rules: rs }),
            _ => return,
        }
    }
    let want_exit = if bases.iter().any(|b| b.file == St::Fail) { 19 } else { 0 };
    for fmt in ["plain", "plain-v", "json", "yaml"] {
        let mut a = sv(&["validate", "-r"]);
        a.push(put("c07d/r.guard", &text));
        a.push("-d".into());
        a.push(put("c07d/0_first.json", dj1));
        a.push("-d".into());
        a.push(put("c07d/1_second.json", dj2));
        match fmt {
            "plain" => a.extend(sv(&["-S", "all"])),
            "plain-v" => a.extend(sv(&["-S", "all", "-v"])),
            f => a.extend(sv(&["--structured", "-o", f, "-S", "none"])),
        }
        let o = cli_inproc(&a, "");
        acc.traces += 1;
        acc.nontrivial += 1;
        let mut viols: Vec<(String, String)> = vec![];
        if o.panic.is_some() {
            viols.push((format!("two-data-panic:{}", fmt), format!("{:?}", o.panic)));
        } else {
            if o.code != Ok(want_exit) {
                viols.push((format!("two-data-exit-code:{}", fmt), format!("exit {:?} but the files alone are {:?} / {:?}", o.code, bases[0].file, bases[1].file)));
            }
            let want: Vec<(Option<St>, BTreeSet<String>, BTreeSet<String>, BTreeSet<String>)> = bases.iter().map(|b| (Some(b.file), b.set(St::Pass), b.set(St::Fail), b.set(St::Skip))).collect();
            if fmt.starts_with("plain") {
                let pr = parse_plain(&o.out, "sls");
                let got: Vec<(Option<St>, BTreeSet<String>, BTreeSet<String>, BTreeSet<String>)> = pr.tables.iter().map(|t| (t.status, t.pass.iter().cloned().collect(), t.fail.iter().cloned().collect(), t.skip.iter().cloned().collect())).collect();
                let want_nonempty: Vec<_> = want.iter().zip(bases.iter()).filter(|(_, b)| !b.rules.is_empty()).map(|(w, _)| w.clone()).collect();
                if got != want_nonempty {
                    viols.push((format!("two-data-tables:{}", fmt), format!("tables {:?}, the files alone give {:?}", got, want_nonempty)));
                }
            } else {
                let reps = if fmt == "json" { parse_structured_json(&o.out) } else { parse_structured_yaml(&o.out).map(|x| x.0) };
                match reps {
                    Err(e) => viols.push((format!("two-data-not-well-formed:{}", fmt), e)),
                    Ok(reps) => {
                        for (k, nm) in ["0_first.json", "1_second.json"].iter().enumerate() {
                            match reps.iter().find(|r| r.name.ends_with(nm)) {
                                None => viols.push((format!("two-data-report-missing:{}", fmt), format!("no report for {}", nm))),
                                Some(d) => {
                                    let mut w = bases[k].rules.clone();
                                    w.sort();
                                    w.dedup();
                                    let mut g = partition_of(d);
                                    g.dedup();
                                    if g != w || d.status != Some(bases[k].file) {
                                        viols.push((format!("two-data-report:{}", fmt), format!("report for {} lists {:?} status {:?}; alone {:?} {:?}", nm, g, d.status, w, bases[k].file)));
                                    }
                                }
                            }
                        }
                    }
                }
            }
        }
        for (sig, what) in viols {
            acc.violate(&sig, format!("{} | rules `{}` data {} / {}", what, text.trim(), dj1, dj2), json!({"kind":"cli","argv":a,"stdin":"","files":{"rules":text,"data":[dj1,dj2]},"expected":"each data file as when validated alone","observed":what}));
        }
    }
}

/// one (rules text, document): every output configuration against the library's verbose record
pub fn check_pair_all_configs(text: &str, dj: &str, cfgs: &[Config], acc: &mut Acc) {
    let text = text.to_string();
    let dj = &dj.to_string();
        let rec = match lib_record(&text, dj) {
            Ok(r) => r,
            Err(_) => {
                *acc.outcomes.entry("evaluation-error".into()).or_insert(0) += 1;
                return;
            }
        };
        let base = match obs_from_record(&rec) {
            Obs::Ok(f, rs) => Base { file: f, rules: rs },
            _ => return,
        };
        *acc.outcomes.entry(base.file.txt().into()).or_insert(0) += 1;
        // library non-verbose entry point
        acc.traces += 1;
        let mut leafs = None;
        match lib_raw(&text, dj, false) {
            Ok(Ok(s)) => match serde_json::from_str::<Value>(&s).map_err(|e| e.to_string()).and_then(|v| parse_file_report(&v)) {
                Ok(fr) => {
                    let mut w = base.rules.clone();
                    w.sort();
                    w.dedup();
                    if partition_of(&fr) != w || fr.status != Some(base.file) {
                        acc.violate("library-report", format!("run_checks(verbose=false) reports {:?} {:?}, record says {:?} {:?}; rules `{}` data {}", partition_of(&fr), fr.status, w, base.file, text.trim(), dj), json!({"kind":"lib","rules":text,"data":dj,"expected":format!("{:?}", w),"observed":format!("{:?}", partition_of(&fr))}));
                    }
                    leafs = Some(fr.leaf_checks);
                }
                Err(e) => acc.violate("library-report", format!("run_checks(verbose=false) output unreadable: {}", e), json!({"kind":"lib","rules":text,"data":dj,"expected":"JSON report","observed":e})),
            },
            other => acc.violate("library-report", format!("run_checks(verbose=false) gives {:?} where verbose succeeded", other), json!({"kind":"lib","rules":text,"data":dj,"expected":"report","observed":format!("{:?}", other)})),
        }
        for c in cfgs.iter() {
            check_config(c, &text, dj, &base, leafs, acc);
            acc.nontrivial += 1;
        }
        // YAML and JSON structured outputs denote the same data
        let mk = |f: &str| {
            let mut a = sv(&["validate", "-r"]);
            a.push(put("c07/r.guard", &text));
            a.push("-d".into());
            a.push(put("c07/d.json", dj));
            a.extend(sv(&["--structured", "-o", f, "-S", "none"]));
            cli_inproc(&a, "")
        };
        let (oj, oy) = (mk("json"), mk("yaml"));
        acc.traces += 2;
        let vj: Result<Value, _> = serde_json::from_str(&oj.out);
        let vy: Result<Value, String> = serde_yaml::from_str::<serde_yaml::Value>(&oy.out).map_err(|e| e.to_string()).and_then(|y| serde_json::to_value(&y).map_err(|e| e.to_string()));
        match (vj, vy) {
            (Ok(a), Ok(b2)) => {
                if a != b2 {
                    acc.violate("yaml-json-differ", format!("structured YAML and JSON denote different data; rules `{}` data {}", text.trim(), dj), json!({"kind":"cli","argv":["validate","--structured","-o","json|yaml"],"files":{"rules":text,"data":dj},"expected":"same data","observed":format!("json={} yaml={}", a, b2).chars().take(600).collect::<String>()}));
                }
            }
            (a, b2) => acc.violate("structured-not-well-formed", format!("json ok={} yaml ok={}; rules `{}` data {}", a.is_ok(), b2.is_ok(), text.trim(), dj), json!({"kind":"cli","files":{"rules":text,"data":dj},"expected":"well-formed","observed":"parse failure"})),
        }
}

pub fn run(tier: &str) -> i32 {
    let thorough = tier == "thorough";
    let mut rep = Report::new("C07", tier);
    let g = Gen::standard(true);
    let b = bfs(&g, 3, 60_000);
    let mut progs: Vec<File> = vec![];
    let all: Vec<File> = b.levels.iter().flatten().cloned().collect();
    let want_n = if thorough { 5000 } else { 60 };
    let step = (all.len() / want_n).max(1);
    progs.extend(all.iter().step_by(step).cloned());
    progs.extend(crate::c09::extra_pool());
    // three-rule files with one rule of each status (so that every section is non-empty)
    let lp = leaf_pool();
    let mut sk = rule("rs", vec![vec![lp[0].clone()]]);
    sk.when = Some(vec![vec![un(vec![key("zz")], UnOp::Exists, false)]]);
    progs.push(File { lets: vec![], rules: vec![rule("rp", vec![vec![un(vec![key("zz")], UnOp::Exists, true)]]), rule("rf", vec![vec![un(vec![key("zz")], UnOp::Exists, false)]]), sk.clone(), rule("rq", vec![vec![lp[0].clone()], vec![lp[9].clone()]])], default: vec![] });
    let progs: Vec<File> = progs.iter().map(|f| tag_messages(f, "")).collect();
    let mut docs: Vec<V> = docs_quick().into_iter().step_by(if thorough { 2 } else { 7 }).collect();
    docs.push(m(vec![("a", l(vec![m(vec![("a", i(1)), ("b", i(1))]), m(vec![("b", i(2))])])), ("b", i(1))]));
    // the same keys inside documents that the Terraform-aware / CloudFormation-aware console reporters recognise by their
    // top-level shape (with and without anything to report)
    docs.push(m(vec![("a", i(1)), ("b", i(1)), ("resource_changes", l(vec![m(vec![("address", s("t.n")), ("change", m(vec![("after", m(vec![("x", i(1))]))]))])]))]));
    docs.push(m(vec![("a", l(vec![i(1)])), ("resource_changes", l(vec![]))]));
    docs.push(m(vec![("a", i(1)), ("b", i(1)), ("Resources", m(vec![("r", m(vec![("Type", s("T")), ("Properties", m(vec![("x", i(1))]))]))]))]));
    docs.push(m(vec![("a", l(vec![i(1)])), ("Resources", m(vec![]))]));
    let djs: Vec<String> = docs.iter().map(|d| d.json()).collect();
    let cfgs = configs();
    let n = progs.len() * djs.len();
    let res = crate::par::run(n, rep.seed as u64, crate::par::deadline_secs(if thorough { 3000 } else { 45 }), Acc::new, |k, acc| {
        let (pi, di) = (k / djs.len(), k % djs.len());
        let text = print_file(&progs[pi]);
        let dj = &djs[di];
        check_pair_all_configs(&text, dj, &cfgs, acc);
    }, Acc::merge);
    // ---- markup and quote characters in compared strings, custom messages and keys: every rendering stays well-formed
    let specials = ["R&D", "a<b", "a>b", "\"q\"", "it's", "]]>", "&amp;", "&#x41;", "a&b<c>d\"e'f", "<!--", "é&ü", "a\u{1}b", "\u{8}x\u{c}", "x\u{1f}"];
    let mut sp: Vec<(String, String)> = vec![];
    for sp1 in specials {
        let doc = m(vec![("a", s(sp1)), ("b", l(vec![s(sp1), s("zz")])), (sp1, i(1))]);
        let msg = sp1.replace(">>", "> >");
        let files = [
            file1(rule("r", vec![vec![bin(vec![key("a")], BinOp::Eq, false, s("zz")).with_msg(&msg)]])),
            file1(rule("r", vec![vec![bin(vec![key("a")], BinOp::Eq, true, s(sp1))]])),
            file1(rule("r", vec![vec![bin(vec![key("b"), Part::All], BinOp::Eq, false, s(sp1)).with_msg(&msg)], vec![un(vec![key("zz")], UnOp::Exists, false).with_msg(&msg)]])),
            file1(rule("r", vec![vec![bin(vec![key(sp1)], BinOp::Eq, false, i(2))], vec![bin(vec![key("a")], BinOp::In, false, l(vec![s("x"), s(sp1)]))]])),
            File { lets: vec![], rules: vec![rule("p", vec![vec![bin(vec![key("a")], BinOp::Eq, false, s(sp1))]]), rule("f", vec![vec![bin(vec![key("a")], BinOp::Eq, false, V::Regex("^zz$".into())).with_msg(&msg)]])], default: vec![] },
        ];
        for f in files {
            sp.push((print_file(&f), doc.json()));
        }
    }
    // failing comparisons with range, regular-expression and structured right-hand sides (every renderer prints the operand)
    for (lit, docv) in [(rng_i(5, 9, true, false), i(1)), (rng_f(1.5, 2.5, false, true), f(9.5)), (V::Regex("^zz[0-9]+$".into()), s("abc")), (l(vec![i(5), s("x"), V::Null]), i(1)), (m(vec![("k", l(vec![i(1)]))]), m(vec![("k", l(vec![i(2)]))])), (rng_i(5, 9, true, true), s("not a number"))] {
        let doc = m(vec![("a", docv.clone()), ("b", l(vec![docv.clone(), i(7)]))]);
        for op in [BinOp::In, BinOp::Eq] {
            if op == BinOp::In && matches!(lit, V::Regex(_) | V::Map(_)) {
                continue;
            }
            let f = File { lets: vec![], rules: vec![rule("r", vec![vec![bin(vec![key("a")], op, false, lit.clone()).with_msg("range or regex")]]), rule("q", vec![vec![bin(vec![key("b"), Part::All], op, false, lit.clone())]])], default: vec![] };
            sp.push((print_file(&f), doc.json()));
        }
    }
    // failing checks on variables that hold literals, at file and at rule level, on either side of a comparison (the console
    // reporters name the value without a path into the document), on plain, CloudFormation- and Terraform-shaped documents
    for lit in ["10", "\"s\"", "[1, 2]", "{\"k\": 1}", "true", "1.5"] {
        for chk in ["%v is_string", "%v is_list", "%v is_struct", "%v !exists", "%v == 2", "%v != 10", "a == %v", "a in %v", "%v in [5, \"x\"]", "%v < 0", "some %v == 7"] {
            for dj in ["{\"a\":1}", "{\"a\":1,\"Resources\":{\"r\":{\"Type\":\"T\",\"Properties\":{\"x\":1}}}}", "{\"a\":1,\"resource_changes\":[{\"address\":\"t.n\",\"change\":{\"after\":{\"x\":1}}}]}"] {
                sp.push((format!("let v = {}\nrule r {{ {} <<on a literal>> }}\nrule ok {{ a exists }}\n", lit, chk), dj.to_string()));
                sp.push((format!("rule r {{\n  let v = {}\n  {}\n}}\n", lit, chk), dj.to_string()));
            }
        }
    }
    let r3 = crate::par::run(sp.len(), rep.seed as u64, None, Acc::new, |k, acc| {
        check_pair_all_configs(&sp[k].0, &sp[k].1, &cfgs, acc);
    }, Acc::merge);
    rep.extra.insert("special_character_pairs".into(), json!(sp.len()));
    let mut res = res;
    res.acc = Acc::merge(res.acc, r3.acc);
    // ---- one rules file against two data files; names defined twice (same-name family) in every configuration
    let mut named_progs: Vec<File> = crate::c04::extra_pool().into_iter().filter(|f| print_file(f).contains("rule u") || print_file(f).contains("rule r3")).collect();
    let snf = crate::p2::same_name_family(false);
    named_progs.extend(snf.iter().step_by(if thorough { 5 } else { 41 }).cloned());
    let dsel: Vec<String> = docs_quick().iter().step_by(if thorough { 3 } else { 6 }).map(|d| d.json()).collect();
    let mut td: Vec<(usize, usize, usize)> = vec![];
    for pi in 0..named_progs.len() {
        for a in 0..dsel.len() {
            for b2 in 0..dsel.len() {
                if a != b2 {
                    td.push((pi, a, b2));
                }
            }
        }
    }
    let r4 = crate::par::run(td.len(), rep.seed as u64, crate::par::deadline_secs(if thorough { 900 } else { 20 }), Acc::new, |k, acc| {
        let (pi, a, b2) = td[k];
        check_two_data(&named_progs[pi], &dsel[a], &dsel[b2], acc);
    }, Acc::merge);
    rep.extra.insert("two_data_file_runs".into(), json!(r4.done));
    let snf_texts: Vec<String> = snf.iter().step_by(if thorough { 3 } else { 29 }).map(print_file).collect();
    let r5 = crate::par::run(snf_texts.len() * dsel.len(), rep.seed as u64, crate::par::deadline_secs(if thorough { 900 } else { 20 }), Acc::new, |k, acc| {
        check_pair_all_configs(&snf_texts[k / dsel.len()], &dsel[k % dsel.len()], &cfgs, acc);
    }, Acc::merge);
    rep.extra.insert("same_name_pairs".into(), json!(r5.done));
    let mut res = res;
    res.acc = Acc::merge(res.acc, r4.acc);
    res.acc = Acc::merge(res.acc, r5.acc);
    // ---- several rules files against one document: the renderings must agree with each other
    let pool_idx: Vec<usize> = (0..10).map(|k| (k * 131 + 7) % progs.len()).collect();
    let pool: Vec<File> = pool_idx.iter().enumerate().map(|(k, pi)| tag_messages(&crate::c09::rename_rules(&progs[*pi], &format!("f{}", k)), &format!("f{}", k))).collect();
    let mut combos: Vec<(usize, usize)> = vec![];
    for a in 0..pool.len() {
        for b2 in 0..pool.len() {
            if a != b2 {
                combos.push((a, b2));
            }
        }
    }
    let n2 = combos.len() * djs.len();
    let r2 = crate::par::run(n2, rep.seed as u64, crate::par::deadline_secs(if thorough { 600 } else { 20 }), Acc::new, |k, acc| {
        let (ci, di) = (k / djs.len(), k % djs.len());
        let (a, b2) = combos[ci];
        check_multi(&[pool[a].clone(), pool[b2].clone()], &djs[di], acc);
    }, Acc::merge);
    let mut res = res;
    res.acc = Acc::merge(res.acc, r2.acc);
    rep.extra.insert("two_file_runs".into(), json!(r2.done));
    rep.states = res.acc.nontrivial + res.done as u64;
    rep.transitions = res.acc.nontrivial;
    if res.capped {
        rep.caps_hit.push(format!("wall-clock cap: {} of {} (program, document) pairs", res.done, n));
    }
    rep.distinct_nontrivial = progs.len() as u64;
    rep.extra.insert("configurations".into(), json!(cfgs.iter().map(|c| c.name.clone()).collect::<Vec<_>>()));
    rep.extra.insert("programs".into(), json!(progs.len()));
    rep.extra.insert("documents".into(), json!(djs.len()));
    rep.samples.push(json!({"rules": print_file(&progs[progs.len() - 1]), "data": djs[0], "configurations": cfgs.len()}));
    rep.rule = "states = (program, document, output configuration / entry point); every rendering is parsed back into the verdict components it exposes (rule sets per status, file status, exit code, per-case marks, result counts) and compared with the library's verbose record of the same pair".into();
    rep.assumptions = vec!["console detail lines are checked for soundness only (they show a subset depending on --show-summary)".into(), "documents are not CloudFormation/Terraform shaped, so the generic console reporter is exercised".into()];
    let mut rep = rep;
    res.acc.into_report(&mut rep);
    cleanup_workdirs();
    rep.finish()
}
