//! Deterministic parallel exploration over an indexed case list (16 worker threads, each
//! with its own evaluator state; the code under test is !Send but per-thread use is fine).
use std::sync::atomic::{AtomicBool, AtomicUsize, Ordering};
use std::sync::Mutex;
use std::time::{Duration, Instant};

pub fn workers() -> usize {
    std::env::var("GMC_WORKERS").ok().and_then(|s| s.parse().ok()).unwrap_or_else(|| {
        std::thread::available_parallelism().map(|n| n.get()).unwrap_or(8).min(16)
    })
}

/// Runs `f(i)` for every i in 0..n (order rotated by `seed`), collecting outputs per worker and
/// folding them with `merge`. Stops early (reporting `capped`) when `deadline` passes.
pub struct ParResult<A> {
    pub acc: A,
    pub done: usize,
    pub capped: bool,
}

pub fn run<A, F, M>(n: usize, seed: u64, deadline: Option<Instant>, init: impl Fn() -> A + Sync, f: F, merge: M) -> ParResult<A>
where
    A: Send,
    F: Fn(usize, &mut A) + Sync,
    M: Fn(A, A) -> A,
{
    let next = AtomicUsize::new(0);
    let capped = AtomicBool::new(false);
    let done = AtomicUsize::new(0);
    let results: Mutex<Vec<A>> = Mutex::new(vec![]);
    let w = workers();
    let chunk = ((n / (w * 64)).max(1)).min(4096);
    // the seed rotates the starting index only where no wall-clock cap applies: under a cap the states are taken in their
    // natural (priority) order, so that a loaded machine cuts the tail - the largest, last-listed family - and nothing else
    let rot = if n == 0 || deadline.is_some() { 0 } else { (seed as usize).wrapping_mul(2654435761) % n };
    std::thread::scope(|s| {
        for _ in 0..w {
            s.spawn(|| {
                let mut acc = init();
                loop {
                    let start = next.fetch_add(chunk, Ordering::Relaxed);
                    if start >= n {
                        break;
                    }
                    if let Some(d) = deadline {
                        if Instant::now() > d {
                            capped.store(true, Ordering::Relaxed);
                            break;
                        }
                    }
                    let end = (start + chunk).min(n);
                    for k in start..end {
                        let i = (k + rot) % n;
                        f(i, &mut acc);
                    }
                    done.fetch_add(end - start, Ordering::Relaxed);
                }
                results.lock().unwrap().push(acc);
            });
        }
    });
    let mut it = results.into_inner().unwrap().into_iter();
    let mut acc = it.next().unwrap_or_else(&init);
    for a in it {
        acc = merge(acc, a);
    }
    ParResult { acc, done: done.load(Ordering::Relaxed), capped: capped.load(Ordering::Relaxed) }
}

pub fn deadline_secs(s: u64) -> Option<Instant> {
    Some(Instant::now() + Duration::from_secs(s))
}
