//! C03 — negation is honoured (DESIGN 5/C03). Metamorphic, implementation against itself:
//! for every clause c: status(not c) == status(c-bar), status(not c-bar) == status(c), SKIP stays
//! SKIP, a single comparable value swaps PASS/FAIL (ordering operators: the dual operator);
//! `not R` is PASS exactly when R is not PASS; spellings not / NOT / !.
use crate::ast::*;
use crate::c01::Acc;
use crate::evidence::Report;
use crate::impl_::{lib_run, Obs, St};
use crate::refsem::{Scope, Sem, Variant, QR};
use crate::universe::*;
use crate::val::*;
use serde_json::json;

fn rule_status(o: &Obs) -> Result<St, String> {
    match o {
        Obs::Ok(_, rs) if rs.len() == 1 => Ok(rs[0].1),
        Obs::Err(_) => Err("ERROR".into()),
        other => Err(other.class().to_string()),
    }
}

fn set_not(c: &Clause, n: bool) -> Clause {
    c.clone().with_not(n)
}
fn set_opneg(c: &Clause, n: bool) -> Clause {
    let mut c = c.clone();
    match &mut c {
        Clause::Unary { opneg, .. } | Clause::Binary { opneg, .. } => *opneg = n,
        _ => {}
    }
    c
}

fn text_of(c: &Clause, st: &Style) -> String {
    print_file_with(&file1(rule("r", vec![vec![c.clone()]])), st)
}

fn swap(s: St) -> St {
    match s {
        St::Pass => St::Fail,
        St::Fail => St::Pass,
        St::Skip => St::Skip,
    }
}

/// is the selection a single resolved value comparable with the literal (per the native kernel)?
fn single_comparable(c: &Clause, doc: &V) -> bool {
    let f = File::default();
    let sem = Sem::new(&f, Variant::default());
    let sc = Scope::new(None, doc, &[]);
    match c {
        Clause::Unary { q, op, .. } => match sem.sel(q, doc, &sc) {
            Ok(s) if s.len() == 1 => match (&s[0], op) {
                (QR::R(v), UnOp::Empty) => matches!(v, V::List(_) | V::Map(_) | V::Str(_) | V::Bool(_)),
                (QR::R(_), _) => true,
                _ => false,
            },
            _ => false,
        },
        Clause::Binary { q, op, rhs: Arg::Lit(l), .. } => match sem.sel(q, doc, &sc) {
            Ok(s) if s.len() == 1 => match &s[0] {
                QR::R(v) => {
                    if matches!(v, V::List(_)) || matches!(l, V::List(_)) {
                        return false;
                    }
                    // comparable = the positive and the negated form differ on this single value
                    let a = crate::refsem::binary_lit(&s, *op, false, l, false);
                    let dual = match op {
                        BinOp::Lt => Some(BinOp::Ge),
                        BinOp::Le => Some(BinOp::Gt),
                        BinOp::Gt => Some(BinOp::Le),
                        BinOp::Ge => Some(BinOp::Lt),
                        _ => None,
                    };
                    let b = match dual {
                        Some(d) => crate::refsem::binary_lit(&s, d, false, l, false),
                        None => crate::refsem::binary_lit(&s, *op, true, l, false),
                    };
                    a != b
                }
                _ => false,
            },
            _ => false,
        },
        // right-hand side given as a query: one scalar on the left; on the right resolved scalars of the same type only -
        // any number of them for `in`, exactly one for the other operators
        Clause::Binary { q, op, rhs: Arg::Q(_, rq), .. } => match (sem.sel(q, doc, &sc), sem.sel(rq, doc, &sc)) {
            (Ok(ls), Ok(rs)) if ls.len() == 1 && !rs.is_empty() => match &ls[0] {
                QR::R(v) if !matches!(v, V::List(_) | V::Map(_) | V::Null | V::Bool(_)) => {
                    let same = rs.iter().all(|r| matches!(r, QR::R(w) if w.t() == v.t() && !matches!(w, V::List(_) | V::Map(_))));
                    same && (matches!(op, BinOp::In) || rs.len() == 1)
                }
                _ => false,
            },
            _ => false,
        },
        _ => false,
    }
}

fn check_clause(c: &Clause, doc: &V, dj: &str, spell: bool, acc: &mut Acc) {
    let st0 = Style::default();
    let has_opneg = match c {
        Clause::Unary { .. } => true,
        Clause::Binary { op, .. } => op.has_neg(),
        _ => false,
    };
    let base = set_opneg(&set_not(c, false), false);
    let t_c = text_of(&base, &st0);
    let t_nc = text_of(&set_not(&base, true), &st0);
    let o_c = lib_run(&t_c, dj);
    let o_nc = lib_run(&t_nc, dj);
    acc.traces += 2;
    let s_c = rule_status(&o_c);
    let s_nc = rule_status(&o_nc);
    *acc.outcomes.entry(format!("{}/{}", s_c.clone().map(|s| s.txt().to_string()).unwrap_or_else(|e| e), s_nc.clone().map(|s| s.txt().to_string()).unwrap_or_else(|e| e))).or_insert(0) += 1;
    let rp = |exp: &str, a: &str, b: &str, oa: &Obs, ob: &Obs| json!({"kind":"lib2","rules":a,"rules2":b,"data":dj,"expected":exp,"observed":format!("{} vs {}", oa.short(), ob.short())});
    let kind = match c {
        Clause::Unary { op, .. } => format!("unary-{}", op.txt()),
        Clause::Binary { op, rhs, .. } => format!("binary-{:?}-{}", op, if matches!(rhs, Arg::Lit(_)) { "lit" } else { "query" }),
        _ => "other".into(),
    };
    for (o, t) in [(&o_c, &t_c), (&o_nc, &t_nc)] {
        if let Obs::Panic(p) = o {
            acc.violate(&format!("panic:{}", kind), format!("panic {} on `{}` {}", p, t.trim(), dj), json!({"kind":"lib","rules":t,"data":dj,"expected":"no panic","observed":o.short()}));
            return;
        }
    }
    // error-iff-error
    if s_c.is_err() != s_nc.is_err() {
        acc.violate(&format!("error-asymmetry:{}", kind), format!("`{}` is {:?} but `{}` is {:?} on {}", t_c.trim(), s_c, t_nc.trim(), s_nc, dj), rp("both error or neither", &t_c, &t_nc, &o_c, &o_nc));
        return;
    }
    let (s_c, s_nc) = match (s_c, s_nc) {
        (Ok(a), Ok(b)) => (a, b),
        _ => return,
    };
    // SKIP stays SKIP
    if (s_c == St::Skip) != (s_nc == St::Skip) {
        acc.violate(&format!("skip-not-preserved:{}", kind), format!("`{}` is {} but `{}` is {} on {}", t_c.trim(), s_c.txt(), t_nc.trim(), s_nc.txt(), dj), rp("SKIP stays SKIP", &t_c, &t_nc, &o_c, &o_nc));
    }
    // never ignored: on a single comparable value the negated clause swaps
    if single_comparable(&base, doc) && s_nc != swap(s_c) {
        acc.violate(&format!("prefix-not-does-not-flip:{}", kind), format!("single comparable value: `{}` is {} and `{}` is {} on {}", t_c.trim(), s_c.txt(), t_nc.trim(), s_nc.txt(), dj), rp("negation flips PASS/FAIL", &t_c, &t_nc, &o_c, &o_nc));
    }
    if has_opneg {
        let t_cb = text_of(&set_opneg(&base, true), &st0);
        let t_ncb = text_of(&set_not(&set_opneg(&base, true), true), &st0);
        let o_cb = lib_run(&t_cb, dj);
        let o_ncb = lib_run(&t_ncb, dj);
        acc.traces += 2;
        if rule_status(&o_cb) != Ok(s_nc) {
            acc.violate(&format!("not-c!=c-bar:{}", kind), format!("`{}` is {} but `{}` is {:?} on {}", t_nc.trim(), s_nc.txt(), t_cb.trim(), rule_status(&o_cb), dj), rp("not c == c-bar", &t_nc, &t_cb, &o_nc, &o_cb));
        }
        if rule_status(&o_ncb) != Ok(s_c) {
            acc.violate(&format!("double-negation:{}", kind), format!("`{}` is {} but `{}` is {:?} on {}", t_c.trim(), s_c.txt(), t_ncb.trim(), rule_status(&o_ncb), dj), rp("not c-bar == c", &t_c, &t_ncb, &o_c, &o_ncb));
        }
    } else if let Clause::Binary { op, q, rhs, some, .. } = &base {
        // ordering operators: `not X > v` holds exactly when `X <= v` does, for a single comparable value
        if single_comparable(&base, doc) {
            let dual = match op {
                BinOp::Lt => BinOp::Ge,
                BinOp::Le => BinOp::Gt,
                BinOp::Gt => BinOp::Le,
                BinOp::Ge => BinOp::Lt,
                _ => unreachable!(),
            };
            let d = Clause::Binary { not: false, some: *some, q: q.clone(), op: dual, opneg: false, rhs: rhs.clone(), msg: None };
            let t_d = text_of(&d, &st0);
            let o_d = lib_run(&t_d, dj);
            acc.traces += 1;
            if rule_status(&o_d) != Ok(s_nc) {
                acc.violate(&format!("ordering-dual:{}", kind), format!("`{}` is {} but `{}` is {:?} on {}", t_nc.trim(), s_nc.txt(), t_d.trim(), rule_status(&o_d), dj), rp("not > == <=", &t_nc, &t_d, &o_nc, &o_d));
            }
        }
    }
    if spell {
        for sp in ["NOT ", "!"] {
            let mut st = Style::default();
            st.not = sp;
            let t = text_of(&set_not(&base, true), &st);
            let o = lib_run(&t, dj);
            acc.traces += 1;
            if rule_status(&o) != Ok(s_nc) {
                acc.violate(&format!("spelling:{}", sp.trim()), format!("`{}` is {:?} but `{}` is {} on {}", t.trim(), rule_status(&o), t_nc.trim(), s_nc.txt(), dj), rp("spellings agree", &t_nc, &t, &o_nc, &o));
            }
        }
    }
}

pub fn run(tier: &str) -> i32 {
    let thorough = tier == "thorough";
    let mut rep = Report::new("C03", tier);
    // ---- (1) literal right-hand sides and unary operators: P1 without prefix / operator negation
    let lits = if thorough { lits_full() } else { lits_quick() };
    let mut clauses: Vec<Clause> = vec![];
    for q in queries_plain(if thorough { 3 } else { 2 }) {
        for c in clauses_for(&q, &lits, &UNOPS, &BINOPS, false) {
            let positive = match &c {
                Clause::Unary { opneg, .. } | Clause::Binary { opneg, .. } => !*opneg,
                _ => false,
            };
            if positive {
                clauses.push(c);
            }
        }
    }
    let fbs = filter_bodies();
    for q in queries_filter(&fbs[..if thorough { 6 } else { 3 }]) {
        for c in clauses_for(&q, &lits[..3], &[UnOp::Exists, UnOp::Empty, UnOp::IsStruct], &[BinOp::Eq, BinOp::In, BinOp::Ge], false) {
            if matches!(&c, Clause::Unary { opneg: false, .. } | Clause::Binary { opneg: false, .. }) {
                clauses.push(c);
            }
        }
    }
    let docs = if thorough { docs_full() } else { crate::c01::docs_subset_quick() };
    let djs: Vec<String> = docs.iter().map(|d| d.json()).collect();
    let n = clauses.len() * docs.len();
    let res = crate::par::run(n, rep.seed as u64, crate::par::deadline_secs(if thorough { 3000 } else { 40 }), Acc::new, |k, acc| {
        let (ci, di) = (k / docs.len(), k % docs.len());
        // spellings on a covering subset: every 7th clause
        check_clause(&clauses[ci], &docs[di], &djs[di], ci % 7 == 0, acc);
    }, Acc::merge);
    rep.states += res.done as u64;
    rep.transitions += res.done as u64 * 3;
    if res.capped {
        rep.caps_hit.push(format!("wall-clock cap: {} of {} literal-rhs states", res.done, n));
    }
    let mut acc = res.acc;

    // ---- (1c) a list value against a list of lists: the value is compared as a whole, so it is a single comparable value
    // and `not x in L` / `x not in L` are PASS exactly when `x in L` is FAIL
    {
        let lpool: Vec<V> = vec![V::List(vec![]), V::List(vec![i(1)]), V::List(vec![i(1), i(2)]), V::List(vec![i(2), i(1)]), V::List(vec![i(5), i(6)]), V::List(vec![s("a")]), V::List(vec![V::List(vec![i(1), i(2)])]), V::List(vec![i(1), i(2), i(3)])];
        let mut n1c = 0u64;
        for x in &lpool {
            let doc = V::Map(vec![("x".into(), x.clone())]);
            let dj = doc.json();
            for a in &lpool {
                for b in lpool.iter().map(Some).chain(std::iter::once(None)) {
                    let mut ll = vec![a.clone()];
                    if let Some(b) = b {
                        ll.push(b.clone());
                    }
                    let c = Clause::Binary { not: false, some: false, q: vec![key("x")], op: BinOp::In, opneg: false, rhs: Arg::Lit(V::List(ll)), msg: None };
                    check_clause(&c, &doc, &dj, n1c % 5 == 0, &mut acc);
                    let st0 = Style::default();
                    let (t_c, t_nc) = (text_of(&c, &st0), text_of(&set_not(&c, true), &st0));
                    let (o_c, o_nc) = (lib_run(&t_c, &dj), lib_run(&t_nc, &dj));
                    acc.traces += 2;
                    n1c += 1;
                    match (rule_status(&o_c), rule_status(&o_nc)) {
                        (Ok(a1), Ok(b1)) if a1 != St::Skip && b1 == swap(a1) => {}
                        (a1, b1) => acc.violate("prefix-not-does-not-flip:list-in-list-of-lists", format!("`{}` is {:?} and `{}` is {:?} on {}", t_c.trim(), a1, t_nc.trim(), b1, dj), json!({"kind":"lib2","rules":t_c,"rules2":t_nc,"data":dj,"expected":"negation flips PASS/FAIL","observed":format!("{} vs {}", o_c.short(), o_nc.short())})),
                    }
                }
            }
        }
        // a list of at most one element against a flat list literal (membership element by element): the same flip
        for x in [V::List(vec![]), V::List(vec![i(1)]), V::List(vec![i(2)]), V::List(vec![i(5)]), V::List(vec![s("a")]), V::List(vec![s("1")])] {
            let doc = V::Map(vec![("x".into(), x.clone())]);
            let dj = doc.json();
            for ll in [vec![i(1)], vec![i(1), i(2)], vec![s("a")], vec![s("a"), i(1)], vec![i(5), s("1"), i(2)]] {
                let c = Clause::Binary { not: false, some: false, q: vec![key("x")], op: BinOp::In, opneg: false, rhs: Arg::Lit(V::List(ll)), msg: None };
                check_clause(&c, &doc, &dj, true, &mut acc);
                let st0 = Style::default();
                let (t_c, t_nc) = (text_of(&c, &st0), text_of(&set_not(&c, true), &st0));
                let (o_c, o_nc) = (lib_run(&t_c, &dj), lib_run(&t_nc, &dj));
                acc.traces += 2;
                n1c += 1;
                match (rule_status(&o_c), rule_status(&o_nc)) {
                    (Ok(a1), Ok(b1)) if a1 != St::Skip && b1 == swap(a1) => {}
                    (a1, b1) => acc.violate("prefix-not-does-not-flip:short-list-in-list", format!("`{}` is {:?} and `{}` is {:?} on {}", t_c.trim(), a1, t_nc.trim(), b1, dj), json!({"kind":"lib2","rules":t_c,"rules2":t_nc,"data":dj,"expected":"negation flips PASS/FAIL","observed":format!("{} vs {}", o_c.short(), o_nc.short())})),
                }
            }
        }
        rep.states += n1c;
        rep.transitions += n1c * 3;
    }

    // ---- (2) query right-hand sides: x op y over value pairs (C13 universe)
    let u = crate::c13::universe(false);
    let mut qcl: Vec<Clause> = vec![];
    for op in BINOPS {
        for some in [false, true] {
            qcl.push(Clause::Binary { not: false, some, q: vec![key("x")], op, opneg: false, rhs: Arg::Q(false, vec![key("y")]), msg: None });
            qcl.push(Clause::Binary { not: false, some, q: vec![key("x"), Part::All], op, opneg: false, rhs: Arg::Q(false, vec![key("y"), Part::All]), msg: None });
            // one value on the left, several on the right, and the other way round
            qcl.push(Clause::Binary { not: false, some, q: vec![key("x")], op, opneg: false, rhs: Arg::Q(false, vec![key("y"), Part::All]), msg: None });
            qcl.push(Clause::Binary { not: false, some, q: vec![key("x"), Part::All], op, opneg: false, rhs: Arg::Q(false, vec![key("y")]), msg: None });
        }
    }
    let mut pairs: Vec<V> = vec![];
    for a in &u {
        for b in &u {
            pairs.push(V::Map(vec![("x".into(), a.clone()), ("y".into(), b.clone())]));
        }
        pairs.push(V::Map(vec![("x".into(), a.clone())])); // y missing
        pairs.push(V::Map(vec![("y".into(), a.clone())])); // x missing
    }
    let pj: Vec<String> = pairs.iter().map(|d| d.json()).collect();
    let n2 = qcl.len() * pairs.len();
    let r2 = crate::par::run(n2, rep.seed as u64, crate::par::deadline_secs(40), Acc::new, |k, acc| {
        let (ci, di) = (k / pairs.len(), k % pairs.len());
        check_clause(&qcl[ci], &pairs[di], &pj[di], false, acc);
    }, Acc::merge);
    rep.states += r2.done as u64;
    rep.transitions += r2.done as u64 * 3;
    acc = Acc::merge(acc, r2.acc);

    // ---- (2b) inline function calls on the right-hand side: x op f(y)
    let mut fcl: Vec<Clause> = vec![];
    for op in BINOPS {
        for some in [false, true] {
            for (fname, q) in [("count", vec![key("y"), Part::All]), ("to_lower", vec![key("y")]), ("parse_int", vec![key("y")]), ("to_upper", vec![key("y"), Part::All])] {
                fcl.push(Clause::Binary { not: false, some, q: vec![key("x")], op, opneg: false, rhs: Arg::Call(fname.into(), vec![Arg::Q(false, q.clone())]), msg: None });
                fcl.push(Clause::Binary { not: false, some, q: vec![key("x"), Part::All], op, opneg: false, rhs: Arg::Call(fname.into(), vec![Arg::Q(false, q)]), msg: None });
            }
        }
    }
    let fdocs: Vec<V> = {
        let xs = [i(1), i(2), s("a"), s("A"), s("1"), l(vec![i(1), i(2)]), l(vec![s("a"), s("A")]), l(vec![])];
        let ys = [s("a"), s("A"), s("1"), s("2"), l(vec![s("a")]), l(vec![s("a"), s("b")]), l(vec![]), i(1)];
        let mut d = vec![];
        for x in &xs {
            for y in &ys {
                d.push(V::Map(vec![("x".into(), x.clone()), ("y".into(), y.clone())]));
            }
        }
        d
    };
    let fj: Vec<String> = fdocs.iter().map(|d| d.json()).collect();
    let n2b = fcl.len() * fdocs.len();
    let r2b = crate::par::run(n2b, rep.seed as u64, crate::par::deadline_secs(40), Acc::new, |k, acc| {
        let (ci, di) = (k / fdocs.len(), k % fdocs.len());
        check_clause(&fcl[ci], &fdocs[di], &fj[di], false, acc);
    }, Acc::merge);
    rep.states += r2b.done as u64;
    rep.transitions += r2b.done as u64 * 3;
    rep.extra.insert("function_rhs_clauses".into(), json!(fcl.len()));
    acc = Acc::merge(acc, r2b.acc);

    // ---- (3b) not p(args) for a parameterised rule: PASS exactly when the call is FAIL and the other way round, SKIP stays
    {
        let pool = leaf_pool();
        let mut np = 0u64;
        for body in [vec![vec![bin(vec![Part::Var("v".into())], BinOp::Eq, false, i(1))]], vec![vec![un(vec![Part::Var("v".into())], UnOp::Exists, false)], vec![pool[0].clone()]], vec![vec![pool[6].clone()]]] {
            for arg in [Arg::Q(false, vec![key("a")]), Arg::Lit(i(1)), Arg::Q(false, vec![key("b")])] {
                for sp in ["not ", "NOT ", "!"] {
                    let pr = Rule { name: "p".into(), params: Some(vec!["v".into()]), when: None, lets: vec![], body: body.clone() };
                    let call = |not: bool| Clause::Call { not, name: "p".into(), args: vec![arg.clone()], msg: None };
                    let f = File { lets: vec![], rules: vec![pr, rule("r1", vec![vec![call(false)]]), rule("r2", vec![vec![call(true)]])], default: vec![] };
                    let mut st = Style::default();
                    st.not = sp;
                    let t = print_file_with(&f, &st);
                    for d in docs_quick().iter().step_by(2) {
                        let dj = d.json();
                        let o = lib_run(&t, &dj);
                        acc.traces += 1;
                        np += 1;
                        if let Obs::Ok(_, rs) = &o {
                            let g = |n: &str| rs.iter().find(|(k, _)| k == n).map(|(_, s)| *s);
                            let (s1, s2) = (g("r1"), g("r2"));
                            *acc.outcomes.entry(format!("notP-{}", s1.map_or("?", |s| s.txt()))).or_insert(0) += 1;
                            if let Some(s1v) = s1 {
                                if s2 != Some(swap(s1v)) {
                                    acc.violate("prefix-not-ignored-on-parameterised-call", format!("p(..) is {:?} but `{}p(..)` is {:?}; rules `{}` data {}", s1, sp, s2, t.trim(), dj), json!({"kind":"lib","rules":t,"data":dj,"expected":format!("r2={}", swap(s1v).txt()),"observed":o.short()}));
                                }
                            }
                        }
                    }
                }
            }
        }
        rep.states += np;
        rep.transitions += np;
    }

    // ---- (3) not R: PASS exactly when R is not PASS
    let pool = leaf_pool();
    let dq = docs_quick();
    let mut nr = 0u64;
    for lf in &pool {
        for w in [None, Some(un(vec![key("b")], UnOp::Exists, false))] {
            let mut r0 = rule("r0", vec![vec![lf.clone()]]);
            r0.when = w.clone().map(|c| vec![vec![c]]);
            for sp in ["not ", "NOT ", "!"] {
                let f = File { lets: vec![], rules: vec![r0.clone(), rule("r1", vec![vec![named("r0")]]), rule("r2", vec![vec![named("r0").with_not(true)]])], default: vec![] };
                let mut st = Style::default();
                st.not = sp;
                let t = print_file_with(&f, &st);
                for d in &dq {
                    let dj = d.json();
                    let o = lib_run(&t, &dj);
                    acc.traces += 1;
                    nr += 1;
                    if let Obs::Ok(_, rs) = &o {
                        let g = |n: &str| rs.iter().find(|(k, _)| k == n).map(|(_, s)| *s);
                        let (s0, s1, s2) = (g("r0"), g("r1"), g("r2"));
                        *acc.outcomes.entry(format!("notR-{}", s0.map_or("?", |s| s.txt()))).or_insert(0) += 1;
                        let want1 = if s0 == Some(St::Pass) { St::Pass } else { St::Fail };
                        let want2 = swap(want1);
                        if s1 != Some(want1) || s2 != Some(want2) {
                            acc.violate("not-rule-reference", format!("r0={:?} r1(r0)={:?} r2(not r0)={:?} rules `{}` data {}", s0, s1, s2, t.trim(), dj), json!({"kind":"lib","rules":t,"data":dj,"expected":format!("r1={} r2={}", want1.txt(), want2.txt()),"observed":o.short()}));
                        }
                    }
                }
            }
        }
    }
    rep.states += nr;
    rep.transitions += nr;

    rep.distinct_nontrivial = (clauses.len() + qcl.len()) as u64;
    rep.samples.push(json!({"clause": print_clause(&clauses[0]), "negations": ["not c", "c-bar", "not c-bar"], "data": djs[1]}));
    rep.samples.push(json!({"clause": print_clause(&qcl[0]), "data": pj[5]}));
    rep.samples.push(json!({"clause": print_clause(&clauses[clauses.len() - 1]), "data": djs[djs.len() - 1]}));
    rep.extra.insert("literal_rhs_clauses".into(), json!(clauses.len()));
    rep.extra.insert("query_rhs_clauses".into(), json!(qcl.len()));
    rep.rule = "states = (positive clause, document); per state the clause, its prefix negation, its operator-level negation and the double negation are all evaluated on the implementation and related by the laws of the property; distinct_nontrivial = distinct positive clauses".into();
    rep.assumptions = vec!["'single comparable value' is decided by the reference selection and native kernel".into()];
    acc.into_report(&mut rep);
    rep.finish()
}
