//! C02 — every composite status follows from its parts (DESIGN 5/C02).
//! (a) forced-leaf CNF enumeration at every aggregation site, against the closed-form combinator;
//! (b) record audit: the verbose evaluation record is walked alongside the harness AST and every
//!     composite node's recorded status is recomputed from its children's recorded statuses.
use crate::ast::*;
use crate::c01::Acc;
use crate::evidence::Report;
use crate::impl_::{lib_raw, St};
use crate::val::*;
use serde_json::{json, Value};

// ------------------------------------------------------------------ closed-form combinator
pub fn fold_line(alts: &[St]) -> St {
    if alts.iter().any(|s| *s == St::Pass) {
        St::Pass
    } else if alts.iter().any(|s| *s == St::Fail) {
        St::Fail
    } else {
        St::Skip
    }
}
pub fn fold_lines(lines: &[St]) -> St {
    if lines.iter().any(|s| *s == St::Fail) {
        St::Fail
    } else if lines.iter().any(|s| *s == St::Pass) {
        St::Pass
    } else {
        St::Skip
    }
}
pub fn fold_cnf(shape: &[Vec<St>]) -> St {
    fold_lines(&shape.iter().map(|l| fold_line(l)).collect::<Vec<_>>())
}

// ------------------------------------------------------------------ record tree
#[derive(Debug, Clone)]
pub struct Node {
    pub kind: String,
    pub status: Option<St>,
    pub name: Option<String>,
    pub children: Vec<Node>,
}

pub fn parse_node(v: &Value) -> Result<Node, String> {
    let c = v.get("container").ok_or("node without container")?;
    let (kind, val) = match c {
        Value::Object(m) if m.len() == 1 => {
            let (k, v) = m.iter().next().unwrap();
            (k.clone(), v.clone())
        }
        Value::String(s) => (s.clone(), Value::Null),
        _ => return Err(format!("odd container {}", c)),
    };
    let st_of = |x: &Value| x.as_str().and_then(St::parse);
    let (status, name) = match kind.as_str() {
        "FileCheck" | "RuleCheck" => (val.get("status").and_then(st_of), val.get("name").and_then(|n| n.as_str()).map(|s| s.to_string())),
        "RuleCondition" | "WhenCondition" | "TypeCondition" | "Filter" | "TypeBlock" => (st_of(&val), None),
        "GuardClauseBlockCheck" | "BlockGuardCheck" | "WhenCheck" | "Disjunction" => (val.get("status").and_then(st_of), None),
        "TypeCheck" => (val.get("block").and_then(|b| b.get("status")).and_then(st_of), None),
        "ClauseValueCheck" => match &val {
            Value::String(s) if s == "Success" => (Some(St::Pass), None),
            Value::Object(m) if m.len() == 1 => {
                let (k, inner) = m.iter().next().unwrap();
                let st = inner.get("status").and_then(st_of).or(if k == "NoValueForEmptyCheck" { Some(St::Fail) } else { None });
                let nm = if k == "DependentRule" { inner.get("rule").and_then(|r| r.as_str()).map(|s| s.to_string()) } else { None };
                (st.or(Some(St::Fail)), nm.or(Some(k.clone())))
            }
            Value::String(_) => (Some(St::Fail), None),
            _ => (None, None),
        },
        _ => (None, None),
    };
    let mut children = vec![];
    for ch in v.get("children").and_then(|c| c.as_array()).ok_or("no children array")? {
        children.push(parse_node(ch)?);
    }
    Ok(Node { kind, status, name, children })
}

fn strip_file(n: &str) -> String {
    n.strip_prefix("r.guard/").unwrap_or(n).to_string()
}

// ------------------------------------------------------------------ auditor
pub struct Audit<'a> {
    pub file: &'a File,
    pub problems: Vec<String>,
    pub nodes: u64,
    pub top_status: std::collections::HashMap<String, St>,
}

impl<'a> Audit<'a> {
    fn bad(&mut self, s: String) {
        if self.problems.len() < 4 {
            self.problems.push(s);
        }
    }

    /// audits the nodes recorded for the lines of a CNF; returns the statuses of the lines
    fn lines(&mut self, nodes: &[&Node], cnf: &Cnf, what: &str) -> Option<Vec<St>> {
        if nodes.len() != cnf.len() {
            self.bad(format!("{}: {} line nodes recorded for {} lines", what, nodes.len(), cnf.len()));
            return None;
        }
        let mut out = vec![];
        for (n, line) in nodes.iter().zip(cnf.iter()) {
            out.push(self.line(n, line, what)?);
        }
        Some(out)
    }

    fn line(&mut self, n: &Node, line: &[Clause], what: &str) -> Option<St> {
        self.nodes += 1;
        if line.len() == 1 {
            if n.kind == "Disjunction" {
                self.bad(format!("{}: Disjunction wrapper around a single alternative", what));
                return None;
            }
            return self.clause(n, &line[0], what);
        }
        if n.kind != "Disjunction" {
            self.bad(format!("{}: line with {} alternatives recorded as {}", what, line.len(), n.kind));
            return None;
        }
        let kids: Vec<&Node> = n.children.iter().collect();
        if kids.is_empty() || kids.len() > line.len() {
            self.bad(format!("{}: disjunction lists {} alternatives of {}", what, kids.len(), line.len()));
            return None;
        }
        let mut sts = vec![];
        for (k, alt) in kids.iter().zip(line.iter()) {
            sts.push(self.clause(k, alt, what)?);
        }
        // evaluation stops at the first PASS and not before
        for (i, s) in sts.iter().enumerate() {
            if *s == St::Pass && i + 1 != sts.len() {
                self.bad(format!("{}: alternatives evaluated after a PASS", what));
            }
        }
        if sts.last() != Some(&St::Pass) && sts.len() != line.len() {
            self.bad(format!("{}: disjunction stopped after {} of {} alternatives without a PASS", what, sts.len(), line.len()));
        }
        let want = fold_line(&sts);
        if n.status != Some(want) {
            self.bad(format!("{}: disjunction of {:?} recorded as {:?}, expected {:?}", what, sts, n.status, want));
        }
        n.status
    }

    fn cond_and_body(&mut self, n: &Node, cond_kind: &str, cond: Option<&Cnf>, body: &Cnf, what: &str) -> Option<St> {
        let kids: Vec<&Node> = n.children.iter().filter(|c| c.kind != "Filter").collect();
        let mut rest = &kids[..];
        if let Some(c) = cond {
            if rest.is_empty() || rest[0].kind != cond_kind {
                self.bad(format!("{}: missing {} node", what, cond_kind));
                return None;
            }
            let cn = rest[0];
            let cl: Vec<&Node> = cn.children.iter().filter(|c| c.kind != "Filter").collect();
            let ls = self.lines(&cl, c, &format!("{}/cond", what))?;
            let cw = fold_lines(&ls);
            if cn.status != Some(cw) {
                self.bad(format!("{}: condition lines {:?} recorded as {:?}", what, ls, cn.status));
            }
            rest = &rest[1..];
            if cn.status != Some(St::Pass) {
                if !rest.is_empty() {
                    self.bad(format!("{}: body evaluated although the condition is {:?}", what, cn.status));
                }
                if n.status != Some(St::Skip) {
                    self.bad(format!("{}: condition {:?} but status {:?} (expected SKIP)", what, cn.status, n.status));
                }
                return n.status;
            }
        }
        let ls = self.lines(rest, body, what)?;
        let want = fold_lines(&ls);
        if n.status != Some(want) {
            self.bad(format!("{}: lines {:?} recorded as {:?}, expected {:?}", what, ls, n.status, want));
        }
        n.status
    }

    fn clause(&mut self, n: &Node, c: &Clause, what: &str) -> Option<St> {
        self.nodes += 1;
        match c {
            Clause::Unary { some, .. } | Clause::Binary { some, .. } => {
                if n.kind != "GuardClauseBlockCheck" {
                    self.bad(format!("{}: access clause recorded as {}", what, n.kind));
                    return None;
                }
                let checks: Vec<St> = n.children.iter().filter(|k| k.kind == "ClauseValueCheck").filter_map(|k| k.status).collect();
                if checks.is_empty() {
                    // no per-value record: an empty selection (SKIP) or a list operand without elements, whose
                    // aggregation is vacuous (pinned K6: all => PASS, some => FAIL). The property does not
                    // speak about a leaf's per-value aggregation, so both are accepted here (C01 decides them).
                    let vac = if *some { St::Fail } else { St::Pass };
                    if n.status != Some(St::Skip) && n.status != Some(vac) {
                        self.bad(format!("{}: clause `{}` without value checks recorded as {:?}", what, print_clause(c), n.status));
                    }
                    return n.status;
                }
                let want = if *some {
                    if checks.iter().any(|s| *s == St::Pass) {
                        St::Pass
                    } else {
                        St::Fail
                    }
                } else if checks.iter().any(|s| *s == St::Fail) {
                    St::Fail
                } else {
                    St::Pass
                };
                if n.status != Some(want) {
                    self.bad(format!("{}: clause `{}` value checks {:?} recorded as {:?}, expected {:?}", what, print_clause(c), checks, n.status, want));
                }
                n.status
            }
            Clause::Named { not, name, .. } => {
                if n.kind != "ClauseValueCheck" {
                    self.bad(format!("{}: named-rule clause recorded as {}", what, n.kind));
                    return None;
                }
                // the dependency's own record, when present, must be consistent as well
                let mut dep_status = self.top_status.get(name).copied();
                // definitions of the name are evaluated in file order until one is not SKIP: the k-th recorded
                // evaluation belongs to the k-th definition
                let defs: Vec<&Rule> = self.file.rules.iter().filter(|r| r.name == *name && r.params.is_none()).collect();
                let mut seen: Option<St> = None;
                for (pos, k) in n.children.iter().filter(|k| k.kind == "RuleCheck").enumerate() {
                    if let Some(r) = defs.get(pos) {
                        let s = self.rule(k, r);
                        if seen.map_or(true, |x| x == St::Skip) {
                            seen = s.or(seen);
                        }
                    }
                }
                dep_status = dep_status.or(seen);
                if let Some(ds) = dep_status {
                    let want = if (ds == St::Pass) != *not { St::Pass } else { St::Fail };
                    if n.status != Some(want) {
                        self.bad(format!("{}: `{}{}` with {} = {:?} recorded as {:?}", what, if *not { "not " } else { "" }, name, name, ds, n.status));
                    }
                }
                n.status
            }
            Clause::Call { name, .. } => {
                if n.kind != "RuleCheck" {
                    self.bad(format!("{}: parameterised call recorded as {}", what, n.kind));
                    return None;
                }
                if let Some(r) = self.file.rules.iter().find(|r| r.name == *name && r.params.is_some()) {
                    return self.rule(n, r);
                }
                n.status
            }
            Clause::When { cond, body, .. } => {
                if n.kind != "WhenCheck" {
                    self.bad(format!("{}: when block recorded as {}", what, n.kind));
                    return None;
                }
                self.cond_and_body(n, "WhenCondition", Some(cond), body, &format!("{}/when", what))
            }
            Clause::Block { some, not_empty, body, .. } => {
                if n.kind != "BlockGuardCheck" {
                    self.bad(format!("{}: query block recorded as {}", what, n.kind));
                    return None;
                }
                let kids: Vec<&Node> = n.children.iter().filter(|k| k.kind != "Filter").collect();
                let missing = kids.iter().filter(|k| k.kind == "ClauseValueCheck" && k.name.as_deref() == Some("MissingBlockValue")).count();
                let rest: Vec<&Node> = kids.iter().filter(|k| !(k.kind == "ClauseValueCheck" && k.name.as_deref() == Some("MissingBlockValue"))).cloned().collect();
                let k = body.len();
                if rest.len() % k != 0 {
                    self.bad(format!("{}: query block with {} lines has {} line nodes", what, k, rest.len()));
                    return None;
                }
                let mut per_value = vec![St::Fail; missing];
                for chunk in rest.chunks(k) {
                    let ls = self.lines(chunk, body, &format!("{}/block", what))?;
                    per_value.push(fold_lines(&ls));
                }
                let (p, f) = (per_value.iter().filter(|s| **s == St::Pass).count(), per_value.iter().filter(|s| **s == St::Fail).count());
                let want = if per_value.is_empty() {
                    if *not_empty {
                        St::Fail
                    } else {
                        St::Skip
                    }
                } else if *some {
                    if p > 0 {
                        St::Pass
                    } else if f > 0 {
                        St::Fail
                    } else {
                        St::Skip
                    }
                } else if f > 0 {
                    St::Fail
                } else if p > 0 {
                    St::Pass
                } else {
                    St::Skip
                };
                if n.status != Some(want) {
                    self.bad(format!("{}: query block per-value statuses {:?} recorded as {:?}, expected {:?}", what, per_value, n.status, want));
                }
                n.status
            }
            Clause::TypeBlock { cond, body, .. } => {
                if n.kind != "TypeCheck" {
                    self.bad(format!("{}: type block recorded as {}", what, n.kind));
                    return None;
                }
                let kids: Vec<&Node> = n.children.iter().filter(|k| k.kind != "Filter").collect();
                let mut rest = &kids[..];
                if let Some(c) = cond {
                    if rest.is_empty() || rest[0].kind != "TypeCondition" {
                        self.bad(format!("{}: missing TypeCondition", what));
                        return None;
                    }
                    let cn = rest[0];
                    let cl: Vec<&Node> = cn.children.iter().filter(|c| c.kind != "Filter").collect();
                    let ls = self.lines(&cl, c, &format!("{}/typecond", what))?;
                    if cn.status != Some(fold_lines(&ls)) {
                        self.bad(format!("{}: type condition lines {:?} recorded as {:?}", what, ls, cn.status));
                    }
                    rest = &rest[1..];
                    if cn.status != Some(St::Pass) {
                        if !rest.is_empty() || n.status != Some(St::Skip) {
                            self.bad(format!("{}: type block evaluated / not SKIP although its condition is {:?}", what, cn.status));
                        }
                        return n.status;
                    }
                }
                let mut per_value = vec![];
                for tb in rest {
                    if tb.kind != "TypeBlock" {
                        self.bad(format!("{}: unexpected {} under TypeCheck", what, tb.kind));
                        return None;
                    }
                    let cl: Vec<&Node> = tb.children.iter().filter(|c| c.kind != "Filter").collect();
                    let ls = self.lines(&cl, body, &format!("{}/typeblock", what))?;
                    let w = fold_lines(&ls);
                    if tb.status != Some(w) {
                        self.bad(format!("{}: type block value lines {:?} recorded as {:?}", what, ls, tb.status));
                    }
                    per_value.push(w);
                }
                let want = fold_lines(&per_value);
                if n.status != Some(want) {
                    self.bad(format!("{}: type block per-value statuses {:?} recorded as {:?}, expected {:?}", what, per_value, n.status, want));
                }
                n.status
            }
        }
    }

    pub fn rule(&mut self, n: &Node, r: &Rule) -> Option<St> {
        self.nodes += 1;
        if n.kind != "RuleCheck" {
            self.bad(format!("rule {} recorded as {}", r.name, n.kind));
            return None;
        }
        self.cond_and_body(n, "RuleCondition", r.when.as_ref(), &r.body, &format!("rule {}", r.name))
    }

    pub fn file(&mut self, root: &Node) -> Option<St> {
        if root.kind != "FileCheck" {
            self.bad(format!("root is {}", root.kind));
            return None;
        }
        let rules: Vec<&Rule> = self.file.rules.iter().filter(|r| r.params.is_none()).collect();
        let mut expect: Vec<(String, Option<&Rule>)> = vec![];
        if !self.file.default.is_empty() {
            expect.push(("default".into(), None));
        }
        for r in &rules {
            expect.push((r.name.clone(), Some(r)));
        }
        if root.children.len() != expect.len() {
            self.bad(format!("file: {} rule records for {} rules", root.children.len(), expect.len()));
            return None;
        }
        for (n, (name, _)) in root.children.iter().zip(expect.iter()) {
            if let (Some(s), Some(nm)) = (n.status, &n.name) {
                if strip_file(nm) == *name {
                    // several rules of one name: the first definition that is not SKIP decides
                    let e = self.top_status.entry(name.clone()).or_insert(s);
                    if *e == St::Skip {
                        *e = s;
                    }
                }
            }
        }
        let mut sts = vec![];
        for (n, (name, r)) in root.children.iter().zip(expect.iter()) {
            if n.name.as_ref().map(|s| strip_file(s)) != Some(name.clone()) {
                self.bad(format!("file: rule record {:?} where {} was expected", n.name, name));
                return None;
            }
            let s = match r {
                Some(r) => self.rule(n, r)?,
                None => {
                    let dr = Rule { name: "default".into(), params: None, when: None, lets: vec![], body: self.file.default.clone() };
                    self.cond_and_body(n, "RuleCondition", None, &dr.body, "default rule")?
                }
            };
            sts.push(s);
        }
        let want = fold_lines(&sts);
        if root.status != Some(want) {
            self.bad(format!("file: rule statuses {:?} recorded as {:?}, expected {:?}", sts, root.status, want));
        }
        root.status
    }
}

/// evaluate + audit one (file, doc); also compares the root status with the non-verbose report
pub fn audit_state(file: &File, text: &str, dj: &str, acc: &mut Acc, class: &str) -> Option<(St, Vec<(String, St)>)> {
    acc.traces += 1;
    let raw = match lib_raw(text, dj, true) {
        Err(p) => {
            acc.violate(&format!("panic:{}", class), format!("panic {} rules `{}` data {}", p, text.trim(), dj), json!({"kind":"lib","rules":text,"data":dj,"expected":"no panic","observed":p}));
            return None;
        }
        Ok(Err(_)) => {
            *acc.outcomes.entry("ERROR".into()).or_insert(0) += 1;
            return None;
        }
        Ok(Ok(s)) => s,
    };
    let v: Value = match serde_json::from_str(&raw) {
        Ok(v) => v,
        Err(e) => {
            acc.violate("record-not-json", format!("{} rules `{}`", e, text.trim()), json!({"kind":"lib","rules":text,"data":dj,"expected":"JSON record","observed":raw.chars().take(200).collect::<String>()}));
            return None;
        }
    };
    audit_record_value(file, text, dj, &v, acc, class)
}

/// audits one evaluation record (as JSON) against the AST; returns (file status, rule statuses)
pub fn audit_record_value(file: &File, text: &str, dj: &str, v: &Value, acc: &mut Acc, class: &str) -> Option<(St, Vec<(String, St)>)> {
    let root = match parse_node(v) {
        Ok(n) => n,
        Err(e) => {
            acc.violate("record-not-a-tree", format!("{} rules `{}`", e, text.trim()), json!({"kind":"lib","rules":text,"data":dj,"expected":"well-nested record","observed":e}));
            return None;
        }
    };
    let mut au = Audit { file, problems: vec![], nodes: 0, top_status: Default::default() };
    let st = au.file(&root);
    acc.nontrivial += au.nodes;
    if let Some(s) = st {
        *acc.outcomes.entry(s.txt().into()).or_insert(0) += 1;
    }
    if !au.problems.is_empty() {
        let sig = format!("record-audit:{}:{}", class, au.problems[0].split(':').next().unwrap_or("?").split(' ').next().unwrap_or("?"));
        acc.violate(&sig, format!("{} | rules `{}` data {}", au.problems.join(" ; "), text.trim(), dj), json!({"kind":"record","rules":text,"data":dj,"expected":"every composite status follows from its children","observed":au.problems}));
    }
    // root status is the status returned to the caller (non-verbose report of the same pair)
    if let (Some(s), Ok(Ok(rep))) = (st, lib_raw(text, dj, false)) {
        if let Ok(rv) = serde_json::from_str::<Value>(&rep) {
            let rs = rv.get("status").and_then(|x| x.as_str()).and_then(St::parse);
            if rs != Some(s) {
                acc.violate("root-status-vs-report", format!("record root {:?} but report status {:?} rules `{}` data {}", s, rs, text.trim(), dj), json!({"kind":"lib","rules":text,"data":dj,"expected":format!("report status {}", s.txt()),"observed":format!("{:?}", rs)}));
            }
        }
    }
    let rules = root.children.iter().filter_map(|c| Some((strip_file(c.name.as_ref()?), c.status?))).collect();
    st.map(|s| (s, rules))
}

// ------------------------------------------------------------------ forced leaves
fn forced_doc() -> V {
    let inner = || m(vec![("a", i(1)), ("l", l(vec![m(vec![("x", i(1))])]))]);
    m(vec![
        ("a", i(1)),
        ("l", l(vec![m(vec![("x", i(1))])])),
        ("b", inner()),
        ("c", l(vec![inner(), inner()])),
        ("f", l(vec![inner()])),
        ("Resources", m(vec![("r1", m(vec![("Type", s("AWS::X::Y")), ("a", i(1)), ("l", l(vec![m(vec![("x", i(1))])]))]))])),
    ])
}
fn leaf(s: St) -> Clause {
    match s {
        St::Pass => bin(vec![key("a")], BinOp::Eq, false, i(1)),
        St::Fail => bin(vec![key("a")], BinOp::Eq, false, i(2)),
        St::Skip => bin(vec![key("l"), Part::Filter(vec![vec![bin(vec![key("x")], BinOp::Eq, false, i(9))]]), key("x")], BinOp::Eq, false, i(1)),
    }
}
const SITES: [&str; 11] = ["rule-body", "rule-when", "when-body", "when-cond", "block-all", "block-some", "type-block", "type-when", "filter-body", "call-body", "call-body-msg"];

fn site_program(site: &str, cnf: &Cnf) -> File {
    let pass = || vec![vec![leaf(St::Pass)]];
    let r = match site {
        "rule-body" => rule("r", cnf.clone()),
        "rule-when" => {
            let mut r = rule("r", pass());
            r.when = Some(cnf.clone());
            r
        }
        "when-body" => rule("r", vec![vec![Clause::When { cond: pass(), lets: vec![], body: cnf.clone() }]]),
        "when-cond" => rule("r", vec![vec![Clause::When { cond: cnf.clone(), lets: vec![], body: pass() }]]),
        "block-all" => rule("r", vec![vec![Clause::Block { some: false, q: vec![key("b")], not_empty: false, lets: vec![], body: cnf.clone() }]]),
        "block-some" => rule("r", vec![vec![Clause::Block { some: true, q: vec![key("c"), Part::All], not_empty: false, lets: vec![], body: cnf.clone() }]]),
        "type-block" => rule("r", vec![vec![Clause::TypeBlock { tname: "AWS::X::Y".into(), cond: None, lets: vec![], body: cnf.clone() }]]),
        "type-when" => rule("r", vec![vec![Clause::TypeBlock { tname: "AWS::X::Y".into(), cond: Some(cnf.clone()), lets: vec![], body: pass() }]]),
        "filter-body" => rule("r", vec![vec![un(vec![key("f"), Part::Filter(cnf.clone())], UnOp::Empty, true)]]),
        "call-body" | "call-body-msg" => {
            // a parameterised rule whose body is the CNF, called from r (with and without a custom message); the grammar
            // has no `when` on parameterised rules
            let pr = Rule { name: "p".into(), params: Some(vec!["v".into()]), when: None, lets: vec![], body: cnf.clone() };
            let call = Clause::Call { not: false, name: "p".into(), args: vec![Arg::Lit(i(1))], msg: if site.ends_with("-msg") { Some("call site message".into()) } else { None } };
            return File { lets: vec![], rules: vec![pr, rule("r", vec![vec![call]])], default: vec![] };
        }
        _ => unreachable!(),
    };
    file1(r)
}
fn site_expect(site: &str, fold: St) -> St {
    match site {
        "rule-when" | "when-cond" | "type-when" => {
            if fold == St::Pass {
                St::Pass
            } else {
                St::Skip
            }
        }
        "filter-body" => {
            if fold == St::Pass {
                St::Pass
            } else {
                St::Fail
            }
        }
        _ => fold,
    }
}

fn shapes(max_lines: usize, max_alts: usize) -> Vec<Vec<Vec<St>>> {
    let sts = [St::Pass, St::Fail, St::Skip];
    let mut lines: Vec<Vec<St>> = vec![];
    for n in 1..=max_alts {
        let mut idx = vec![0usize; n];
        loop {
            lines.push(idx.iter().map(|k| sts[*k]).collect());
            let mut p = 0;
            while p < n {
                idx[p] += 1;
                if idx[p] < 3 {
                    break;
                }
                idx[p] = 0;
                p += 1;
            }
            if p == n {
                break;
            }
        }
    }
    let mut out: Vec<Vec<Vec<St>>> = vec![];
    let mut cur: Vec<Vec<Vec<St>>> = vec![vec![]];
    for _ in 0..max_lines {
        let mut next = vec![];
        for c in &cur {
            for l in &lines {
                let mut n = c.clone();
                n.push(l.clone());
                next.push(n);
            }
        }
        out.extend(next.clone());
        cur = next;
    }
    out
}

pub fn run(tier: &str) -> i32 {
    let thorough = tier == "thorough";
    let mut rep = Report::new("C02", tier);
    let doc = forced_doc();
    let dj = doc.json();
    // ---- (a) forced-leaf enumeration
    let mut sh = if thorough { shapes(3, 3) } else { shapes(2, 3) };
    if !thorough {
        sh.extend(shapes(3, 2).into_iter().filter(|s| s.len() == 3));
    }
    let n = sh.len() * SITES.len();
    let res = crate::par::run(n, rep.seed as u64, crate::par::deadline_secs(if thorough { 3000 } else { 40 }), Acc::new, |k, acc| {
        let (si, site) = (k / SITES.len(), SITES[k % SITES.len()]);
        let shape = &sh[si];
        let cnf: Cnf = shape.iter().map(|l| l.iter().map(|s| leaf(*s)).collect()).collect();
        let f = site_program(site, &cnf);
        let t = print_file(&f);
        let want = site_expect(site, fold_cnf(shape));
        let got = audit_state(&f, &t, &dj, acc, site);
        match got {
            Some((_, rules)) => {
                let r = rules.iter().find(|(n, _)| n == "r").map(|(_, s)| *s);
                if r != Some(want) {
                    acc.violate(&format!("combinator:{}", site), format!("shape {:?} at {} gives {:?}, closed form says {:?}; rules `{}`", shape, site, r, want, t.trim()), json!({"kind":"lib","rules":t,"data":dj,"expected":format!("file={} r={}", want.txt(), want.txt()),"observed":format!("{:?}", r)}));
                }
            }
            None => {
                acc.violate(&format!("no-record:{}", site), format!("no record for shape {:?} at {}; rules `{}`", shape, site, t.trim()), json!({"kind":"lib","rules":t,"data":dj,"expected":"record","observed":"none"}));
            }
        }
    }, Acc::merge);
    rep.states += res.done as u64;
    rep.transitions += res.done as u64;
    if res.capped {
        rep.caps_hit.push(format!("wall-clock cap: {} of {} forced-leaf states", res.done, n));
    }
    let mut acc = res.acc;
    rep.extra.insert("cnf_shapes".into(), json!(sh.len()));
    rep.extra.insert("aggregation_sites".into(), json!(SITES));

    // file level: all rule-status vectors 3^1..3^4, and the named-rule clause
    let sts = [St::Pass, St::Fail, St::Skip];
    let mut fl = 0u64;
    for n in 1..=4usize {
        for code in 0..3usize.pow(n as u32) {
            let v: Vec<St> = (0..n).map(|k| sts[(code / 3usize.pow(k as u32)) % 3]).collect();
            let f = File { lets: vec![], rules: v.iter().enumerate().map(|(k, s)| rule(&format!("r{}", k), vec![vec![leaf(*s)]])).collect(), default: vec![] };
            let t = print_file(&f);
            fl += 1;
            if let Some((fs, _)) = audit_state(&f, &t, &dj, &mut acc, "file") {
                let want = fold_lines(&v);
                if fs != want {
                    acc.violate("combinator:file", format!("rule statuses {:?} give file {:?}, expected {:?}", v, fs, want), json!({"kind":"lib","rules":t,"data":dj,"expected":format!("file={}", want.txt()),"observed":fs.txt()}));
                }
            }
        }
    }
    for s0 in sts {
        for not in [false, true] {
            let f = File { lets: vec![], rules: vec![rule("r0", vec![vec![leaf(s0)]]), rule("r", vec![vec![named("r0").with_not(not)]])], default: vec![] };
            let t = print_file(&f);
            fl += 1;
            if let Some((_, rules)) = audit_state(&f, &t, &dj, &mut acc, "named") {
                let want = if (s0 == St::Pass) != not { St::Pass } else { St::Fail };
                let r = rules.iter().find(|(n, _)| n == "r").map(|(_, s)| *s);
                if r != Some(want) {
                    acc.violate("combinator:named", format!("r0={:?} not={} gives {:?}, expected {:?}", s0, not, r, want), json!({"kind":"lib","rules":t,"data":dj,"expected":format!("r={}", want.txt()),"observed":format!("{:?}", r)}));
                }
            }
        }
    }
    // a name defined twice (the first definition that is not SKIP decides), referenced before, between and after
    for s1 in sts {
        for s2 in sts {
            for pos in 0..3usize {
                for not in [false, true] {
                    let mut rules = vec![rule("r0", vec![vec![leaf(s1)]]), rule("r0", vec![vec![leaf(s2)]])];
                    rules.insert(pos, rule("u", vec![vec![named("r0").with_not(not)]]));
                    let f = File { lets: vec![], rules, default: vec![] };
                    let t = print_file(&f);
                    fl += 1;
                    if let Some((_, rs)) = audit_state(&f, &t, &dj, &mut acc, "named-twice") {
                        let nm = if s1 != St::Skip { s1 } else { s2 };
                        let want = if (nm == St::Pass) != not { St::Pass } else { St::Fail };
                        let r = rs.iter().find(|(n, _)| n == "u").map(|(_, s)| *s);
                        if r != Some(want) {
                            acc.violate("combinator:named-twice", format!("r0 defined as {:?} then {:?}, `{}r0` at position {} gives {:?}, expected {:?}", s1, s2, if not { "not " } else { "" }, pos, r, want), json!({"kind":"lib","rules":t,"data":dj,"expected":format!("u={}", want.txt()),"observed":format!("{:?}", r)}));
                        }
                    }
                }
            }
        }
    }
    rep.states += fl;
    rep.transitions += fl;

    // ---- records printed by one `validate -p` run over two data files: the record of every data file is audited the same way
    //      and must give the rule statuses of that file evaluated alone (a later file must not see an earlier file's statuses)
    {
        use crate::cli::{cli_inproc, put, sv};
        let mut progs: Vec<File> = crate::c04::extra_pool();
        progs.extend(crate::p2::same_name_family(false).into_iter().step_by(if thorough { 3 } else { 23 }));
        let dsel: Vec<String> = crate::universe::docs_quick().iter().step_by(if thorough { 2 } else { 5 }).map(|d| d.json()).collect();
        let mut pairs: Vec<(usize, usize, usize)> = vec![];
        for pi in 0..progs.len() {
            for a in 0..dsel.len() {
                for b in 0..dsel.len() {
                    if a != b && (thorough || (a + 2 * b + pi) % 3 == 0) {
                        pairs.push((pi, a, b));
                    }
                }
            }
        }
        let texts: Vec<String> = progs.iter().map(print_file).collect();
        let rr = crate::par::run(pairs.len(), rep.seed as u64, crate::par::deadline_secs(if thorough { 1200 } else { 25 }), Acc::new, |k, acc| {
            let (pi, a, b) = pairs[k];
            let rp = put("c02m/r.guard", &texts[pi]);
            let d1 = put("c02m/0_first.json", &dsel[a]);
            let d2 = put("c02m/1_second.json", &dsel[b]);
            let o = cli_inproc(&sv(&["validate", "-r", &rp, "-d", &d1, "-d", &d2, "-S", "none", "-p"]), "");
            acc.traces += 1;
            if o.panic.is_some() || o.code.is_err() {
                *acc.outcomes.entry("two-file-error".into()).or_insert(0) += 1;
                return;
            }
            let recs = crate::report::parse_record_stream(&o.out);
            if recs.len() != 2 {
                acc.violate("two-file-records", format!("{} records printed for two data files; rules `{}`", recs.len(), texts[pi].trim()), json!({"kind":"cli","argv":["validate","-r","r.guard","-d","0_first.json","-d","1_second.json","-S","none","-p"],"files":{"rules":texts[pi],"data":[dsel[a],dsel[b]]},"expected":"two records","observed":recs.len()}));
                return;
            }
            // the exit code is the failure code exactly when some record's root is FAIL
            let roots: Vec<Option<St>> = recs.iter().map(|r| parse_node(r).ok().and_then(|n| n.status)).collect();
            let want_exit = if roots.iter().any(|s| *s == Some(St::Fail)) { 19 } else { 0 };
            if o.status() != want_exit {
                acc.violate("root-status-vs-exit-code", format!("record roots {:?} but exit {}; rules `{}` data {} / {}", roots, o.status(), texts[pi].trim(), dsel[a], dsel[b]), json!({"kind":"cli","argv":["validate","-r","r.guard","-d","0_first.json","-d","1_second.json","-S","none","-p"],"files":{"rules":texts[pi],"data":[dsel[a],dsel[b]]},"expected":format!("exit {}", want_exit),"observed":format!("exit {}", o.status())}));
            }
            // the same through --payload with two rules entries (this program and the next one of the pool) and one document
            {
                let pj = (pi + 1) % progs.len();
                let stdin = json!({"rules": [texts[pi], texts[pj]], "data": [dsel[a]]}).to_string();
                let op = cli_inproc(&sv(&["validate", "--payload", "-S", "none", "-p"]), &stdin);
                acc.traces += 1;
                if op.panic.is_none() && op.code.is_ok() {
                    let precs = crate::report::parse_record_stream(&op.out);
                    let proots: Vec<Option<St>> = precs.iter().map(|r| parse_node(r).ok().and_then(|n| n.status)).collect();
                    let pw = if proots.iter().any(|s| *s == Some(St::Fail)) { 19 } else { 0 };
                    if precs.len() != 2 || op.status() != pw {
                        acc.violate("root-status-vs-exit-code:payload", format!("payload with two rules entries: record roots {:?} but exit {}; rules `{}` / `{}` data {}", proots, op.status(), texts[pi].trim(), texts[pj].trim(), dsel[a]), json!({"kind":"cli","argv":["validate","--payload","-S","none","-p"],"stdin":stdin,"expected":format!("two records, exit {}", pw),"observed":format!("{} records, exit {}", precs.len(), op.status())}));
                    }
                }
            }
            for (rec, dj) in recs.iter().zip([&dsel[a], &dsel[b]]) {
                let got = audit_record_value(&progs[pi], &texts[pi], dj, rec, acc, "two-data-files");
                // the same file alone
                let alone = match lib_raw(&texts[pi], dj, true) {
                    Ok(Ok(sx)) => serde_json::from_str::<Value>(&sx).ok().and_then(|v| parse_node(&v).ok()).map(|root| root.children.iter().filter_map(|c| Some((strip_file(c.name.as_ref()?), c.status?))).collect::<Vec<_>>()),
                    _ => None,
                };
                if let (Some((_, g)), Some(al)) = (got, alone) {
                    let strip = |v: Vec<(String, St)>| -> Vec<(String, St)> { v.into_iter().map(|(n, s)| (n.rsplit('/').next().unwrap_or(&n).to_string(), s)).collect() };
                    if strip(g.clone()) != strip(al.clone()) {
                        acc.violate("two-file-history", format!("in a run over two data files the record for {} gives {:?} but {:?} alone; rules `{}`", dj, g, al, texts[pi].trim()), json!({"kind":"cli","argv":["validate","-r","r.guard","-d","0_first.json","-d","1_second.json","-S","none","-p"],"files":{"rules":texts[pi],"data":[dsel[a],dsel[b]]},"expected":format!("{:?}", al),"observed":format!("{:?}", g)}));
                    }
                }
            }
        }, Acc::merge);
        rep.states += rr.done as u64 * 2;
        rep.transitions += rr.done as u64 * 2;
        if rr.capped {
            rep.caps_hit.push(format!("wall-clock cap: {} of {} two-data-file runs", rr.done, pairs.len()));
        }
        rep.extra.insert("two_data_file_runs".into(), json!(rr.done));
        acc = Acc::merge(acc, rr.acc);
        crate::cli::cleanup_workdirs();
    }

    // ---- (b) record audit over composite programs (P2 BFS) and the extended pool
    let g = crate::p2::Gen::standard(thorough);
    let b = crate::p2::bfs(&g, if thorough { 4 } else { 3 }, if thorough { 300_000 } else { 30_000 });
    let mut files: Vec<File> = b.levels.iter().flatten().cloned().collect();
    files.extend(extended_pool());
    let texts: Vec<String> = files.iter().map(print_file).collect();
    let docs = crate::universe::docs_quick();
    let mut djs: Vec<String> = docs.iter().map(|d| d.json()).collect();
    djs.push(dj.clone());
    let n2 = files.len() * djs.len();
    let r2 = crate::par::run(n2, rep.seed as u64, crate::par::deadline_secs(if thorough { 3000 } else { 40 }), Acc::new, |k, acc| {
        let (fi, di) = (k / djs.len(), k % djs.len());
        audit_state(&files[fi], &texts[fi], &djs[di], acc, "composite");
    }, Acc::merge);
    rep.states += r2.done as u64;
    rep.transitions += b.transitions + r2.done as u64;
    if b.capped {
        rep.caps_hit.push("composite BFS level cap".into());
    }
    if r2.capped {
        rep.caps_hit.push(format!("wall-clock cap: {} of {} audit states", r2.done, n2));
    }
    acc = Acc::merge(acc, r2.acc);
    rep.extra.insert("records_audited".into(), json!(r2.done));
    rep.extra.insert("record_nodes_audited".into(), json!(acc.nontrivial));
    rep.distinct_nontrivial = (sh.len() * SITES.len() + files.len()) as u64;
    rep.samples.push(json!({"site": "block-some", "shape": "[[PASS,SKIP],[FAIL]]", "rules": print_file(&site_program("block-some", &vec![vec![leaf(St::Pass), leaf(St::Skip)], vec![leaf(St::Fail)]])), "data": dj}));
    rep.samples.push(json!({"audited": texts[texts.len() - 1], "data": djs[0]}));
    rep.rule = "states = (CNF shape with forced PASS/FAIL/SKIP leaves, aggregation site) compared with the closed-form combinator, plus (composite program, document) whose verbose record is audited node by node alongside the AST; distinct_nontrivial = distinct programs".into();
    rep.assumptions = vec!["leaf clauses a == 1 / a == 2 / l[ x == 9 ].x == 1 are PASS / FAIL / SKIP on the fixed document (asserted by the single-leaf shapes themselves)".into()];
    acc.into_report(&mut rep);
    rep.finish()
}

/// programs with type blocks, parameterised rules, functions, nested when/blocks (record audit only)
pub fn extended_pool() -> Vec<File> {
    let mut out = vec![];
    let a = || vec![key("a")];
    // type blocks with and without conditions
    for cond in [None, Some(vec![vec![un(vec![key("Resources")], UnOp::Exists, false)]]), Some(vec![vec![un(vec![key("zz")], UnOp::Exists, false)]]), Some(vec![vec![leaf(St::Skip)]]), Some(vec![vec![leaf(St::Skip), leaf(St::Pass)], vec![leaf(St::Skip)]])] {
        for body in [vec![vec![leaf(St::Pass)]], vec![vec![leaf(St::Fail)], vec![leaf(St::Pass)]], vec![vec![leaf(St::Skip), leaf(St::Fail)]]] {
            out.push(file1(rule("r", vec![vec![Clause::TypeBlock { tname: "AWS::X::Y".into(), cond: cond.clone(), lets: vec![], body: body.clone() }]])));
            out.push(file1(rule("r", vec![vec![Clause::TypeBlock { tname: "AWS::No::Such".into(), cond: cond.clone(), lets: vec![], body }]])));
        }
    }
    // parameterised rules
    for arg in [Arg::Lit(i(1)), Arg::Q(false, a()), Arg::Q(false, vec![key("l"), Part::All, key("x")])] {
        let pr = Rule { name: "p".into(), params: Some(vec!["v".into()]), when: None, lets: vec![], body: vec![vec![bin(vec![Part::Var("v".into())], BinOp::Eq, false, i(1))], vec![leaf(St::Pass), leaf(St::Fail)]] };
        let call = Clause::Call { not: false, name: "p".into(), args: vec![arg.clone()], msg: None };
        out.push(File { lets: vec![], rules: vec![pr.clone(), rule("r", vec![vec![call.clone()]])], default: vec![] });
        let callm = Clause::Call { not: false, name: "p".into(), args: vec![arg.clone()], msg: Some("m".into()) };
        out.push(File { lets: vec![], rules: vec![pr.clone(), rule("r", vec![vec![callm.clone()], vec![leaf(St::Pass)]])], default: vec![] });
        out.push(File { lets: vec![], rules: vec![pr.clone(), rule("r", vec![vec![leaf(St::Fail), call.clone()], vec![leaf(St::Pass)]])], default: vec![] });
    }
    // function-valued lets
    let fl = vec![Let { name: "n".into(), val: Arg::Call("count".into(), vec![Arg::Q(false, vec![key("l"), Part::All])]) }];
    let mut r = rule("r", vec![vec![bin(vec![Part::Var("n".into())], BinOp::Eq, false, i(1))], vec![leaf(St::Skip)]]);
    r.lets = fl;
    out.push(file1(r));
    // nested when / blocks three deep
    let deep = Clause::When {
        cond: vec![vec![leaf(St::Pass)]],
        lets: vec![],
        body: vec![vec![Clause::Block {
            some: false,
            q: vec![key("c"), Part::All],
            not_empty: false,
            lets: vec![],
            body: vec![vec![Clause::When { cond: vec![vec![leaf(St::Pass), leaf(St::Fail)]], lets: vec![], body: vec![vec![leaf(St::Fail)], vec![leaf(St::Skip), leaf(St::Pass)]] }]],
        }]],
    };
    out.push(file1(rule("r", vec![vec![deep.clone()], vec![leaf(St::Pass)]])));
    // default-rule clauses
    out.push(File { lets: vec![], rules: vec![], default: vec![vec![leaf(St::Pass), leaf(St::Fail)], vec![leaf(St::Skip)]] });
    out
}
