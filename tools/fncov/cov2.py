import gdb, os
gdb.execute("set pagination off"); gdb.execute("set confirm off"); gdb.execute("set print thread-events off")
gdb.execute("handle SIGPIPE nostop noprint pass"); gdb.execute("handle SIGCHLD nostop noprint pass")
names=[l.rstrip("\n") for l in open('/tmp/cov/names.txt') if l.strip()]
ok=0
for i,n in enumerate(names):
    try:
        b=gdb.Breakpoint("'"+n+"'", temporary=True)
        b.commands="silent\necho HIT:%d\\n\ncontinue" % i
        ok+=1
    except Exception as e:
        pass
print("BREAKPOINTS", ok)
