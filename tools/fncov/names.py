import gdb, re
gdb.execute("set pagination off")
txt = gdb.execute("info functions cfn_guard", to_string=True)
names=set()
for line in txt.splitlines():
    m = re.match(r"^(?:0x[0-9a-f]+\s+|\d+:\s+)(.*)$", line.strip())
    if m:
        n = m.group(1).strip().rstrip(";")
        if "cfn_guard" in n:
            names.add(n)
open('/tmp/cov/names.txt','w').write("\n".join(sorted(names))+"\n")
print(len(names))
