#!/bin/bash
# try_seed.sh <patch.diff> <check ids...> : applies a seeded change to /repo, runs the quick checks, reverts.
# Prints per check: DETECTED (exit 1 + VIOLATION line) / MISSED (exit 0) / MACHINERY (exit 2)
set -u
P=$1; shift
cd /repo && git apply "$P" || { echo "patch does not apply"; exit 2; }
trap 'cd /repo && git checkout -q -- . ' EXIT
for id in "$@"; do
  out=$(cd /verif && ./check $id --tier ${TIER:-quick} 2>&1); rc=$?
  v=$(echo "$out" | grep -c "^VIOLATION")
  case $rc in 0) r=MISSED;; 1) r=DETECTED;; *) r="MACHINERY($rc)";; esac
  echo "$id: $r violations=$v :: $(echo "$out" | grep -A1 '^VIOLATION' | grep signature | head -3 | tr '\n' ' ' | cut -c1-400)"
done
