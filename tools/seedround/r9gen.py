import json,glob,collections,os,re
props={}
for l in open('/verif/properties.jsonl'):
    d=json.loads(l); props[d['id']]=d
prev=collections.defaultdict(list)
for f in sorted(glob.glob('/verif/seeded/*/meta.json')):
    m=json.load(open(f)); prev[m['property']].append((m['breaks'],m.get('needs_to_manifest','')))
tmpl=open('/tmp/seed-out/C19r8.prompt.txt').read()
# split template into head (before property block), middle, after the list
head_end=tmpl.index('-----\n')+6
prop_end=tmpl.index('-----\n',head_end)
list_start=tmpl.index('IMPORTANT: other engineers')
list_items_start=tmpl.index('\n  - ',list_start)+1
list_end=tmpl.index('Look for parts of the property')
for pid,p in props.items():
    sid=pid+'r9'
    body=f"{pid} — {p['title']}\n\nStatement: {p['statement']}\n\nQuantified over: {p['quantifier']['text']}\n\n"
    items=''.join(f"  - {b} (trigger: {n})\n" for b,n in prev[pid])
    t=tmpl[:head_end]+body+tmpl[prop_end:list_items_start]+items+tmpl[list_end:]
    t=t.replace('C19r8b',sid+'b').replace('C19r8',sid)
    os.makedirs(f'/tmp/seed-out',exist_ok=True)
    open(f'/tmp/seed-out/{sid}.prompt.txt','w').write(t)
print('ok')
