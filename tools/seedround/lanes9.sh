#!/bin/bash
# lanes9.sh <nlanes> <listfile> <resultprefix>: seeds of the list run against the quick check of their own property, in parallel lanes
N=${1:-4}; LIST=$2; RES=${3:-/tmp/r9_res}
rm -f $RES.*
for k in $(seq 1 $N); do
  L=/tmp/lane$k; mkdir -p $L
  [ -d $L/repo ] || git -C /repo worktree add --detach -q $L/repo HEAD
  git -C $L/repo checkout -q --detach $(git -C /repo rev-parse HEAD)
  rsync -a --delete --exclude target --exclude .git /verif/ $L/verif/
  [ -d $L/verif/target ] || cp -r /verif/target $L/verif/target
  ( awk -v n=$N -v k=$k 'NR%n==k%n' $LIST | while read s; do
      d=/verif/seeded/$s; p=$d/patch.diff; [ -f $d/patch.rebased.diff ] && p=$d/patch.rebased.diff
      prop=${s:0:3}
      cd $L/repo && git checkout -q -- . && git apply $p || { echo "$s NOAPPLY" >> $RES.$k; continue; }
      st=$(date +%s)
      out=$(cd $L/verif && GMC_REPO=$L/repo ./check $prop --tier quick 2>&1); rc=$?
      echo "$s $prop rc=$rc $(( $(date +%s)-st ))s v=$(echo "$out" | grep -c '^VIOLATION') :: $(echo "$out" | grep -A1 '^VIOLATION' | grep signature | head -2 | tr '\n' ' ' | cut -c1-300)" >> $RES.$k
      cd $L/repo && git checkout -q -- .
    done; echo LANE-DONE >> $RES.$k ) &
done
wait
