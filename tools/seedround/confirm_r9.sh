#!/bin/bash
for P in "$@"; do
  for s in r9 r9b; do
    [ -f /tmp/seed-out/$P$s/patch.diff ] || continue
    J=4 /verif/tools/confirm_seed.sh $P$s /tmp/wt-${P}r9 2>&1 | tail -4 | sed "s/^/[$P$s] /"
  done
done
