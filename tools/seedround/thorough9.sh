#!/bin/bash
cd /verif
for c in C18 C19 C05 C09 C17 C16 C08 C13 C14 C10 C07 C04 C03 C12 C06 C11 C02 C01 C15; do
  s=$(date +%s); out=$(./check $c --tier thorough 2>&1); rc=$?; e=$(( $(date +%s) - s ))
  echo "$c rc=$rc ${e}s violations=$(echo "$out" | grep -c '^VIOLATION') known=$(echo "$out" | grep -c '^KNOWN-FINDING') :: $(echo "$out" | grep "tier=thorough" | tail -1 | cut -c1-220)"
  [ $rc -ne 0 ] && echo "$out" | grep -A2 '^VIOLATION\|MACHINERY' | head -12
done
echo THOROUGH-DONE
