#!/bin/bash
# run_all.sh [quick|thorough] : runs every check of the tier one after the other against /repo's working tree
# and prints one line per check (id, exit code, seconds, violation / known-finding line counts).
T=${1:-quick}; cd "$(dirname "$0")/.."; bad=0
for i in $(seq -w 1 19); do
  s=$(date +%s); out=$(./check C$i --tier $T 2>&1); rc=$?; e=$(( $(date +%s) - s ))
  echo "C$i rc=$rc ${e}s violations=$(echo "$out" | grep -c '^VIOLATION') known=$(echo "$out" | grep -c '^KNOWN-FINDING') :: $(echo "$out" | grep "tier=$T" | tail -1 | cut -c1-200)"
  [ $rc -ne 0 ] && { bad=1; echo "$out" | grep -A2 '^VIOLATION\|MACHINERY' | head -20; }
done
exit $bad
