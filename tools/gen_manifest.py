#!/usr/bin/env python3
"""Generates /verif/MANIFEST.json from the table below (single source of truth)."""
import json, os
HERE = os.path.dirname(os.path.dirname(os.path.abspath(__file__)))
MC = "model_checking"
# id -> (level text, level note, technique, design ref)
CHECKS = {
 "C01": ("Explicit-state bounded-exhaustive exploration: every (program, document) state of the stated finite universes (all single-clause programs over the query/operator/literal alphabets; composite programs by BFS over grammar productions) is enumerated, the reference interpreter's prediction is replayed on cfn_guard::run_checks and compared.",
         "Trusted base: refsem (doc-tagged rules transcribe docs/*.md, pin-tagged rules adopt pinned behaviour where the documentation is silent), the harness printer, small-scope alphabets (2 keys, 7 scalars, depth 2).",
         "explicit-state bounded-exhaustive enumeration of programs x documents against a reference interpreter; every trace replayed on the implementation"),
 "C13": ("Complete enumeration of a closed value universe: all ordered pairs of 40 values x six comparison operators x both polarities x prefix not, with the right-hand side as literal and as query, plus all range-bracket forms x bound pairs x values, list membership and a regex table; algebraic laws are checked on the implementation's own results and every literal-form result is compared with a native comparison kernel.",
         "Trusted base: native Rust comparisons (i64::cmp, f64::partial_cmp, byte-wise str cmp), a 200-line backtracking regex matcher, the universe of 40 values; list operands are checked against the pinned one-level flattening, not the scalar laws.",
         "exhaustive enumeration of value pairs x operators against algebraic laws and a native kernel"),
 "C03": ("Metamorphic exhaustive exploration, implementation against itself: for every positive clause of the single-clause universe (all unary and binary operators, all/some, literal and query right-hand sides) and every document, the clause, its prefix negation, its operator-level negation and the double negation are evaluated and related by the laws of the property (not c == c-bar, double negation, SKIP stays SKIP, single comparable value flips, ordering duals, not R, spellings).",
         "Trusted base: the reference selection + native kernel decide only the side condition 'single comparable value'; all compared statuses come from the implementation.",
         "exhaustive enumeration of clauses x documents with metamorphic negation laws on the implementation's own results"),
 "C02": ("Exhaustive enumeration of all CNF shapes (quick: <=2x3 and 3x2; thorough: all 60 879 shapes up to 3 lines x 3 alternatives) with leaves forced to PASS/FAIL/SKIP at eight aggregation sites plus the file level and the named-rule clause, compared with the closed-form combinator of the property; and a node-by-node audit of the verbose evaluation record of every composite program of the BFS universe (plus type blocks, parameterised rules, function lets, nested when/blocks) alongside its AST.",
         "Trusted base: the 30-line closed-form fold, the record parser, the harness AST used to align record children with lines; a leaf clause's own per-value aggregation is left to C01.",
         "exhaustive enumeration of CNF shapes x aggregation sites against a closed-form combinator, plus record audit of every explored program"),
 "C04": ("Differential exhaustive exploration, implementation against itself: for every base program of the BFS universe (plus a pool with lets at every scope, forward/backward and repeated named references, same-named definitions) every permutation (collections of <= 4 items) of lines, alternatives and rules, every repetition of a line/alternative and every duplication of a rule under a fresh name is applied (depth 1 everywhere, depth 2 on the smallest programs) and per-rule and file statuses are compared on every document.",
         "Collections of more than 4 items are not permuted (the property says 'sampled beyond'; no sampling is done here). Orderings that raise an evaluation error are counted, not compared, as the property allows. Key-capture syntax is not generated.",
         "exhaustive enumeration of permutation/duplication edges over a BFS program universe, differential oracle on the implementation"),
 "C15": ("Differential exhaustive exploration, implementation against itself: for every base program (BFS universe plus a literal-rich pool) and every occurrence of a literal or query (and every query prefix) in it, the occurrence is abstracted into a let at each legal scope (file, rule, enclosing block), with second references before/after, unused variables at every scope, a shadowing outer definition, and the inverse for parameterised rules with literal and query arguments; statuses of the original rules are compared on every document.",
         "The documented exception (emptiness test on a bare variable / filter result) is excluded. A disagreement is attributed to the recorded finding K-VAR only when the reference model of exactly that pinned behaviour predicts the observation.",
         "exhaustive enumeration of abstraction edges over a BFS program universe, differential oracle on the implementation"),
 "C06": ("Exhaustive enumeration of invocation states: every sequence of 1..2 (quick) / 1..3 (thorough) rules files over six kinds x every sequence of data files over four kinds x sixteen invocation modes (plain, verbose, print-json, structured json/yaml/junit/sarif, payload, stdin, directories, missing paths), and for `test` every pair of test-file kinds x rules kinds x formats x layouts; each state is executed through CfnGuard::execute in-process and a fixed fraction as a real child process of the repository's main.rs; the exit status must lie in the closed-form allowed set transcribed from the property.",
         "Trusted base: the closed-form allowed_exit function; the in-process seam (same code path as main.rs minus process::exit) cross-checked against the real binary on every 23rd (quick) / 4th (thorough) state.",
         "exhaustive enumeration of file-kind sequences x invocation modes against a closed-form exit-code reference"),
 "C09": ("Exhaustive exploration of (1..3 rules files with distinct rule names and a unique custom message on every clause, document) states: validate --structured -o json is executed in-process and the report is checked to partition the evaluated rule names by the statuses of the library's verbose record, to fold the file status from the partition, to equal the union of the single-file reports, and to list only checks whose message belongs to a FAILed check of that same rule; exit code checked against the file status.",
         "Trusted base: the JSON report extractor, the record walker collecting failed-check messages, the library record as the per-rule status baseline. Completeness of the list of checks is not required by the property and not checked.",
         "exhaustive enumeration of programs x documents x file combinations; report compared with the evaluation record"),
 "C07": ("Exhaustive cross product over a program/document pool: every (program, document) pair is rendered under 50 configurations (single-line summary x -v x -p x six --show-summary selections; -o json/yaml x summary x -v; structured json/yaml/junit/sarif via files, stdin and --payload; run_checks verbose and non-verbose); each rendering is parsed back by a dedicated extractor into the verdict components it exposes and compared with the library's verbose record; structured JSON/YAML must parse and denote the same data, JUnit must be well-formed with the pair's status as its mark, SARIF must have one result per failing check of the JSON report.",
         "Trusted base: the extractors in report.rs (console table, detail lines, verbose tree, embedded and structured JSON/YAML, JUnit via quick-xml, SARIF). Console detail lines are checked for soundness only. Documents are generic (not CloudFormation/Terraform shaped).",
         "exhaustive enumeration of programs x documents x output configurations x entry points, cross-rendering differential oracle"),
 "C12": ("Exhaustive exploration of batch states: every ordered selection of 1..2 (quick) / 1..3 (thorough) rules files from a pool of eight that deliberately share variable and rule names x every ordered selection of 1..3 / 1..4 documents from six x eight batch modes (explicit arguments, directories walked with -a and with -m where mtimes realise the reverse order, payload lists; plain, structured json, junit); the result of every (rules, data) pair extracted from the batch output is compared with that pair validated alone and the batch exit code must be the failure code iff some pair fails; likewise every ordered suite of 1..3 / 1..4 test cases against each case alone.",
         "Trusted base: the per-pair extractors for the console table, structured JSON and JUnit. Rule names shared across rules files are merged by the structured report, so that comparison is on sets.",
         "exhaustive enumeration of ordered file selections x batch modes, differential oracle batch vs singleton runs"),
 "C17": ("Exhaustive enumeration of every distribution of four top-level keys over the data file and 1..3 input-parameter files (data part possibly empty) in every order of the -i arguments, plus every overlapping variant (one key duplicated between any two sources, equal and different value), x five invocation modes (plain, structured, data on stdin, payload plain/structured); disjoint distributions must give exactly the verdicts and exit code of the pre-merged document (rules read data keys, parameter keys, both, keys-filters over the root and count(this.*)), overlapping ones an error exit with a message and no panic.",
         "Trusted base: the report extractors; the pre-merged document evaluated by the same tool is the reference (differential).",
         "exhaustive enumeration of key distributions x -i orders x overlap variants x modes, differential oracle against the pre-merged document"),
 "C16": ("Exhaustive exploration of (rules file, suite of 1..4 inputs, expectation assignment, format, layout) states: rules files from the BFS universe plus files defining the same rule name two and three times; all 4^k assignments of PASS / FAIL / SKIP / no expectation to the first k <= 3 rule names; plain, verbose, JSON, YAML and JUnit renderings; -r/-t and --dir layouts. The per-case passed / failed / unexpected sets, the evaluated status lists and the exit code reported by test are compared with the closed-form rule of the property applied to the per-definition statuses the library entry point (validate) gives on the same input, and all renderings are compared with that same expectation.",
         "Trusted base: the 15-line closed-form 'expectation met' rule, the plain / JSON / YAML / JUnit extractors of the test reporters, run_checks as the validate baseline.",
         "exhaustive enumeration of expectation assignments x inputs x formats x layouts against a closed-form rule over validate's statuses"),
 "C14": ("Exhaustive exploration of spelling variants: for every AST of a pool (rich hand-built ASTs touching every token class, all BFS programs of size <= 2 in thorough / a subset in quick, a subset of size 3) every token class of the printer alone (29 classes: keyword case per keyword, not/NOT/!, or/OR/|OR|, =/:=, quotes, .n/[n], leading this., indentation, blank lines, trailing spaces, CRLF, line breaks after or / inside lists / inside filters, end-of-line comments, comment lines, operator-level negation spelling), a comment at every inter-token slot, and every pair of classes; parse-tree --print-json with locations removed must equal the canonical spelling's, a rejected spelling is a violation, verdicts must agree on documents; type blocks are compared with their documented desugaring and bare clauses with an explicit default rule by verdict.",
         "Trusted base: the harness printer (emits only documented synonyms), the location-stripping normaliser (a leading This before a key is the only normalised difference).",
         "exhaustive enumeration of spelling/layout variants (deviation 1 and 2) per AST, parse-tree and verdict equality"),
 "C11": ("Exhaustive exploration of (typed document, serialisation layout, loader) states: documents of depth <= 2 over a scalar alphabet (keyword-looking / numeric-looking / unicode / quoted strings, boundary ints, floats, bools, null) in maps (both key orders), lists and nestings x 13 layouts (JSON compact / pretty, flow YAML and block YAML indent 2 / 4 in plain-where-safe, single and double quoting, quoted keys) x the three loaders (validate, test, run_checks); per state a literal-equality rule, one type probe per node and the value dumped by a deliberately failing root clause are compared with the source document; plus the complete table of 21 intrinsic tags x {scalar, sequence, nested tag} payload x {map value, list element, top level} x loader against the long form, and a rejection set (non-string keys, truncated, unterminated, empty, comment-only, tab-indented input).",
         "Trusted base: the harness YAML / JSON writers (strings that a YAML 1.1 / 1.2 / FromStr reader could type otherwise are always quoted), the report reader. Anchors / aliases, multi-line scalars and empty plain scalars are outside the property's stated serialisations.",
         "exhaustive enumeration of documents x serialisations x loaders with literal-equality, type-probe and value-dump oracles; exhaustive tag table"),
 "C10": ("Exhaustive exploration of (function-free program, document, layout) states: single-clause programs over the query alphabet with literal and query right-hand sides and query blocks, plus a subset of the composite BFS universe x documents x 29 layouts written by the harness's own position-tracking writer (JSON compact / pretty 2 / 4, flow one-line / wrapped, block YAML indent 2 / 4 x leading --- x comment lines x blank lines, single / double quoting, leading blank lines); for every check of validate --structured -o json each {path, value} pair must resolve in the source document to exactly that value, an unresolved check's traversed_to must be a point where an independent walk of the query gets stuck, and every Path=<p>[L:l,C:c] naming a scalar must carry the line / column at which the writer put that scalar.",
         "Trusted base: the position-tracking writer, the JSON-pointer resolver, the independent stuck-point walk (uses the reference interpreter only to evaluate filters). Quick runs a rotating third of the layouts per (program, document) pair.",
         "exhaustive enumeration of programs x documents x layouts; reported pointers, values and positions checked against the generated source text"),
 "C18": ("Exhaustive enumeration of (function, argument form, argument values) states: every unary built-in x {literal, query, variable, [*] over homogeneous and mixed lists, list with unresolved members, empty filtered selection, nested call} x an alphabet of 23 strings (unicode, numeric, boolean-looking, percent-encoded valid / invalid, JSON texts) and 9 non-string values; substring over all index pairs of strings with 1..4-byte characters plus odd and query-valued indices; join over all 0..3-element selections x 4 delimiters plus non-string / unresolved members and query delimiters; regex_replace over a pattern x string table; count over the whole query alphabet x documents; parse_int(parse_string(n)) over boundary ints; json_parse round trip of every document; function results used in later clauses. The yielded values are dumped by a deliberately failing clause and compared in order with an independent implementation; errors must occur exactly where the documentation says.",
         "Trusted base: reffn.rs (std string methods, hand-written percent decoder, serde_json, the mini regex matcher). [pin] regex_replace yields the concatenated replacements per match; substring on non-ASCII strings and json_parse of non-JSON text are only required not to crash.",
         "exhaustive enumeration of functions x argument forms x values against an independent reference implementation"),
 "C19": ("Exhaustive enumeration of CloudFormation-shaped templates: one resource x every value of a 17-value alphabet (strings with blanks, quotes, backslashes, numeric-looking; ints, negative ints, floats, bools, null, list, map) x property names P / Q / P-Q; all pairs of values as two resources of one type, two properties of one resource, and two types; all triples (quick) / quintuples (thorough) of well-behaved values over type patterns; structural edge cases (no Properties, empty Properties, no Type, no Resources); each as JSON and YAML. rulegen runs as a child process of the repository's main.rs; it must report an error or emit text that parses, has one rule per resource type with properties and is PASS on its own template; every single scalar change to a value not present for that type and property must make the corresponding rule FAIL.",
         "Trusted base: the template writer, run_checks as evaluator of the emitted rules. 'Reports an error' means a diagnostic on stderr and no rules on stdout. Strings with newlines are outside the property's quantifier and not generated.",
         "exhaustive enumeration of templates over small alphabets; generated rules validated against the source template and all single-value mutants"),
 "C05": ("Exhaustive exploration of (invocation, schedule) states over fixed alphabets: 54 invocations (validate in nine output modes over four rules/data sets incl. CloudFormation-shaped data with case-converted keys, payload and stdin entry points; test in five formats x two layouts; parse-tree json/yaml; rulegen) x schedules: hash seeds 1..6 (quick) / 1..32 (thorough) pinned in fresh child processes by an LD_PRELOAD getrandom shim (seed 1 is run twice to prove the shim owns the nondeterminism), five environment variants, and five in-process repetitions on fresh threads interleaved with unrelated evaluations. Exit codes must be equal, structured outputs byte-identical after masking JUnit time attributes, console output equal as a multiset of lines (embedded JSON documents byte for byte), rulegen output equal as a set of rules.",
         "Exhaustive over the seeds tried, not over all iteration orders of every map; now() is never called; colour variables are held fixed. Trusted base: the 15-line getrandom shim (std's RandomState draws its keys through the libc getrandom symbol).",
         "exhaustive enumeration of invocations x a hash-seed / environment / history schedule alphabet with a controlled source of hash randomness"),
 "C08": ("Exhaustive enumeration of inputs in two families, every case executed in an isolated worker process (the harness re-executing itself) with a 20 s deadline so that aborts, stack overflows and hangs are attributed to the in-flight case: (1) adversarial classes enumerated completely over small alphabets - filter placement x value shapes, every built-in x argument position x 24 argument kinds in three call positions, literal variables x operators, key interpolation, look-around / back-reference / catastrophic regexes, odd indices, malformed data with a multi-byte character at every offset 88..111, console reporters on CloudFormation / Terraform shaped data in every summary mode and via stdin, test files, payloads, invalid UTF-8, rule / parameterised-rule / variable reference cycles, deep nesting; (2) all single character edits (delete, duplicate, truncate, insert and replace with each of a 24-character alphabet incl. NUL and 2-, 3-, 4-byte characters, at every offset) and token deletions / duplications / swaps of a seed corpus of rules, data, test, payload and parameter files, through run_checks (verbose and not), validate (plain, structured sarif, with -i), test and parse-tree. No panic, abort, signal or timeout; documented exit codes only; a rejected rules file is rejected as a whole with line and column.",
         "In-process execution inside worker processes (library and CfnGuard::execute), except the class real-stdout-long-lines, which runs the repository's real binary as a child process (its stdout is a line writer over a pipe); rulegen and the real binary's exit mapping are otherwise exercised by C19 / C06. Inputs more than one edit away from the seed corpus and the enumerated classes are not covered; hangs are detected by deadline, not proved absent.",
         "exhaustive enumeration of adversarial input classes and all single-edit mutants of a seed corpus in isolated worker processes"),
}
# alphabets added after the second round of seeded defects (DESIGN.md 12.4); appended to the level text
ADDED = {
 "C01": "Also: prefix-not unary checks on filter queries and the literal [] in the quick tier. Round 3: the C04 variable / reference pool evaluated against the reference interpreter; list literals with regular-expression members.",
 "C02": "Also: parameterised-rule call sites (with / without a custom message) in the forced-leaf enumeration, and a rule name defined twice (all 9 status pairs) referenced before, between and after its definitions, with and without not. Round 3: the records printed by validate -p over two data files and by payload runs with two rules entries are audited the same way, each file's rule statuses against that file alone, the exit code against the record roots.",
 "C04": "Also: files with memoised `some` / plain query variables at file, rule and block scope that are read once and several times. Round 3: keys written in another spelling than the data on structs that hold a key in two spellings; cyclic rule references.",
 "C05": "Also: a query-against-query rule set (several left-hand values missing from the right-hand side, key captures), and every multi-data-file plain invocation repeated with the data files in the opposite order. Round 3: a terraform-shaped set, a rule set over every built-in function with a value-sensitive parse_epoch rule (with and without UTC offset), three time zones, and two run_checks calls on one thread with different documents of equal length.",
 "C07": "Also: strings, custom messages and keys holding markup and quote characters (& < > \" ' ]]> <!--) under every configuration; the JUnit reader unescapes character data and attribute values, so ill-formed XML is reported. Round 3: one rules file against two data files per run (plain, verbose, json, yaml); the same-name family under every configuration; two-rules-file runs also through --payload.",
 "C08": "Also: the CloudFormation-aware console reporter on 16 resource shapes x 5 resource names x 11 rules x 5 output modes; every ordered pair of six test-file kinds x three ways of naming the test files x five formats; 13 x 13 operand shapes x 8 operators x all/some x literal / query / variable / wildcard / negated forms. Round 3: terraform-shaped data (13 entry shapes x 32 rules), malformed rules with a multi-byte character at every offset 1..300 / 500..520 / 1016..1032 after the error, look-around in front of catastrophic regexes, and every library case of the adversarial classes again through six CLI reporters.",
 "C09": "Also: multi-file runs repeated with the rules files under one base name in different directories and as a directory tree. Round 3: the per-value FAIL records of a satisfied some-clause are not counted as failed checks.",
 "C10": "Also: documents with empty, numeric, dotted, spaced and '/'-containing keys (a reported pointer is accepted under every segmentation, the tool does not escape '/'). Round 3: the console summary lines (`Property [P] .. provided value [V]`, `traversed until [P]`) of the same runs are resolved against the document; literal variables on either side of a comparison.",
 "C11": "Also: strings with NUL, TAB, U+0001, DEL, NEL, LS and BOM (JSON layouts write them unescaped where JSON allows), and numbers between i64::MAX and u64::MAX as raw texts in JSON / flow / block form. Round 3: floats in ten JSON-compatible spellings as raw texts; one-entry null-valued maps next to lists.",
 "C12": "Also: --input-parameters (two parameter files) with every ordered selection of 1..3 of five documents in plain, structured and JUnit mode, each data file compared with the same file validated alone with the same parameters.",
 "C13": "Also: a generated universe (every list of up to 2 / 3 elements and every map over keys a, b, c in every key order over a small atom set: 255 values quick, about 1 700 thorough), all ordered pairs x both forms under the same laws, plus map-against-scalar, list-against-list and prefix-not ordering laws. Round 3: maps and regular expressions as members of list literals; nine regular expressions with counted repetition.",
 "C14": "Also: every clause kind the grammar admits outside a rule (when blocks holding named references, calls, query blocks and nested when blocks; query blocks; calls; type blocks with and without conditions), alone and in pairs, next to named and parameterised rules, against the same clauses inside an explicit `rule default`. Round 3: filters whose last clause is a block, a when block or a clause with a message.",
 "C15": "Also: key interpolation (`a.%v` for every non-head key of every left-hand query, variable defined at every enclosing scope) and unary checks on keyed paths over documents whose values are empty lists / structs / strings. Round 3: unused variables whose definition raises an error when evaluated; interpolated keys that exist in three spellings.",
 "C16": "Also: inputs holding numbers beyond i64 with type-sensitive rules. Round 3: a directory of three rules files (the one under test between two whose tests all match).",
 "C17": "Also: the data given as two files (every file must get the merged verdicts) and the parameter files placed in a directory among files of other kinds. Round 3: parameter files of one base name in different directories.",
 "C18": "Also: regex_replace element-wise over pairs of strings and a list with a non-string member. Round 3: every unary function over every ordered pair of argument values as a two-element list; parse_int / parse_float / parse_string round trips over an integer range.",
 "C19": "Also: rulegen --output onto an absent / shorter / longer existing file (every 8th template in quick, all in thorough), and a string value holding a TAB.",
 "C03": "Also (round 3): inline function calls on the right-hand side (4 functions x 6 operators x all/some); not p(args) for parameterised rules in three spellings.",
 "C06": "Also (round 3): the full expected x evaluated matrix (PASS / FAIL / SKIP squared) for test files; six further rule kinds raising the evaluation error at other sites (when body, when condition, block, filter, or-line, undefined variable).",
}
for _k, _v in ADDED.items():
    _t = CHECKS[_k]
    CHECKS[_k] = (_t[0] + " " + _v, _t[1], _t[2])
# rounds 4 and 5 (DESIGN.md 12.4) and the function-coverage pass (12.5)
ADDED2 = {
 "C01": "Rounds 4-5: key filters `[ keys <op> literal ]` evaluated against the reference interpreter; nested-filter bodies in the quick tier; hand-written pools are explored first so that a wall-clock cap cuts only the tail of the largest BFS level.",
 "C02": "Rounds 4-5: `-p` record audit over two data files (history and exit code against the record roots); a payload run with two rules entries; same-named definitions aligned with the k-th recorded evaluation.",
 "C04": "Rounds 4-5: bodies of parameterised rules holding plain queries, named references and nested calls.",
 "C05": "Rounds 4-5: key-spelling sets given as two files; the completions sub-command; three time zones; library-history schedules (another document of equal length first; five repeated calls on one thread).",
 "C07": "Rounds 4-5: range, regex and structured operands in failing checks; --type CFNTemplate and -a / -m configurations; payload runs; the same-name family under every configuration; PASS block records are not counted as failures.",
 "C08": "Rounds 4-5: Terraform plan shapes; every ordered pair of four kinds of rules file in a test directory; look-around and catastrophic regular expressions; NaN and the infinities as data values and as parse_float results; parse-tree flags; every adversarial library class also through the command line.",
 "C09": "Rounds 4-5: nested disjunctions and two-level parameterised calls; the message of every call record is checked against the AST.",
 "C10": "Rounds 4-5: literal-variable programs; root scalar / list documents (position of the root); documents whose root is indented.",
 "C11": "Rounds 4-5: null-valued map shapes; root-indented layouts; tagged scalars in key position among the inputs that must be rejected.",
 "C13": "Rounds 4-5: prefix-not ordering laws; maps and regular expressions inside membership lists; counted repetition in the regex table.",
 "C14": "Rounds 4-5: filters ending in a block, a when block or a message clause; type-block variables over several resources; a backslash before an escaped quote; list layouts with white space before the comma and comma-first.",
 "C15": "Rounds 4-5: erroring definitions of unused variables; exact-spelling documents; a two-parameter rule called with call-site variables named like the parameters the other way round.",
 "C16": "Rounds 4-5: rules files with top-level clauses (implicit default rule) and expectations keyed the way each layout names it.",
 "C18": "Coverage pass: parse_char (values, errors, the documented comparison with strings, character ranges).",
}
for _k, _v in ADDED2.items():
    _t = CHECKS[_k]
    CHECKS[_k] = (_t[0] + " " + _v, _t[1], _t[2])
# round 6 (DESIGN.md 12.4)
ADDED3 = {
 "C03": "Round 6: one-to-many query operands (`x in y[*]`, `x[*] == y`); the flip law also for query right-hand sides of one scalar type.",
 "C04": "Round 6: keys that begin with a keyword (order, origin, notes, inner, ...) over documents that hold the remainders as keys; the test command on every permutation of the definitions of one rule.",
 "C05": "Round 6: parse-tree / rulegen --output onto an absent / longer / shorter / equal-length file and onto another run's output.",
 "C08": "Round 6: block clauses whose own query raises an evaluation error (11 heads x 11 positions x every entry point); custom messages of 14 degenerate shapes x 7 clause kinds x 3 document shapes x 6 output modes; the real binary as a child process on lines of multi-byte characters longer than stdout's buffer.",
 "C11": "Round 6: a well-formed document followed by further text or a second document must be rejected by every loader.",
 "C12": "Round 6: SARIF batches (the results located in each data file are those of the pairs validated alone).",
 "C13": "Round 6: string equality / membership on map keys that are prefixes, suffixes and case variants of one another.",
 "C14": "Round 6: documents whose list elements hold keys that also exist at the root with other values (`this.` inside a filter).",
 "C16": "Round 6: the text of every JUnit failure (expectation and evaluated list) compared with the other renderings.",
 "C17": "Round 6: an empty parameter file at every position; parameter files whose names start with a dot.",
 "C18": "Round 6: integers beyond 32 bits as arguments of every function.",
 "C19": "Round 6: empty lists and maps as property values; the cause class of a failing rule is judged on the resources of that rule's type.",
}
for _k, _v in ADDED3.items():
    _t = CHECKS[_k]
    CHECKS[_k] = (_t[0] + " " + _v, _t[1], _t[2])
# round 7 (DESIGN.md 12.4)
ADDED4 = {
 "C01": "Round 7: literal variables defined inside a rule / block / when block as right-hand sides (read as the literal by the reference interpreter); rule guards that differ only inside a filter.",
 "C04": "Round 7: the same pool; a bare rule reference before / after every keyword-prefixed key (an order that does not parse while another does is a violation).",
 "C05": "Round 7: mixed in-process history with colours forced on (console, structured, console again); several different invalid expectation words in one test case.",
 "C06": "Round 7: a rules file that is not UTF-8 (alone / before / after passing and failing rules files x 9 modes); dangling symbolic links; test directories whose rules files are called r1 / r10.",
 "C07": "Round 7: C0 control characters in values, messages and keys (the JUnit reader enforces XML 1.0's Char production); documents of Terraform-plan and CloudFormation shape.",
 "C08": "Round 7: function-call variable cycles at every scope.",
 "C09": "Round 7: key filters and filters over [*]-selected scalars; oracles that do not go through the record: messages written inside filters, and messages of satisfied rule references, are never listed.",
 "C10": "Round 7: key interpolation; block-scalar layouts and number-like strings.",
 "C11": "Round 7: JSON \\u escapes (BMP and surrogate pairs) and the number -0.",
 "C12": "Round 7: rules spelled in another key convention than the documents; rules files of one base name in several directories.",
 "C13": "Round 7: null is unordered; neighbouring integers beyond 2^53.",
 "C14": "Round 7: end-of-text variants (no final line break, trailing comment); [n] against .n up to i64::MAX.",
 "C15": "Round 7: the guard of the block that holds an inner definition sees the outer variable (five shapes, renaming oracle).",
 "C16": "Round 7: the validate command itself on number spellings.",
 "C17": "Round 7: 27 YAML scalar spellings in parameter files with type probes; JUnit and SARIF modes.",
 "C19": "Round 7: the value 0; the validate command on the written template as a second oracle.",
}
for _k, _v in ADDED4.items():
    _t = CHECKS[_k]
    CHECKS[_k] = (_t[0] + " " + _v, _t[1], _t[2])
# round 8 and the last side remarks (DESIGN.md 12.4)
ADDED5 = {
 "C04": "Round 8: when conditions whose `or` line holds an alternative that cannot be evaluated.",
 "C05": "Round 8: a CloudFormation template whose failing resources lie far apart (content of the code excerpts, not only their order); diagnostics that list rule names (stderr compared).",
 "C09": "Round 8: an empty rules file among several.",
 "C10": "Round 8: floats without a fraction, below and beyond the 64-bit integers.",
 "C12": "Round 8: the whole plain report of every test case (section headers too) against the case alone.",
 "C14": "Round 8: line break / comment between `keys` and its operator.",
 "C16": "Round 8: maps in several key orders through wildcards, key filters and key captures, the validate command as the other side.",
 "C17": "Round 8: a key defined twice where one value is null, an empty container, false, 0 or the empty string.",
 "C19": "Round 8: both neighbours of every number as mutations; an integer beyond 2^53.",
}
for _k, _v in ADDED5.items():
    _t = CHECKS[_k]
    CHECKS[_k] = (_t[0] + " " + _v, _t[1], _t[2])
# round 9 (DESIGN.md 12.4)
ADDED6 = {
 "C03": "Round 9: list-valued left-hand sides against lists of lists (the value is compared as a whole) and short lists against flat literals: the negated clause flips.",
 "C04": "Round 9: the history dimension across documents - 2-3 data files in one validate run in every order must each get the statuses they get alone.",
 "C05": "Round 9: json_parse of objects with several members walked by wildcards and key filters.",
 "C07": "Round 9: failing checks on variables that hold literals (file and rule level, either side) on plain, CloudFormation- and Terraform-shaped documents.",
 "C08": "Round 9: parameterised rules recursing through when / query blocks / negation and a terminating recursion; substring at every pair of byte offsets of strings with multi-byte characters and the other string functions on them; outcome classes split into normal result / diagnostic.",
 "C09": "Round 9: every listed check is re-evaluated from the values it names; overlapping multi-valued query-to-query comparisons, right-hand side also through a variable.",
 "C10": "Round 9: keys the rules spell in another letter case than the document (stuck points of the query spelled like the document).",
 "C12": "Round 9: test cases with different expectation sets; per-case entries of `test -o json / yaml` against the case alone; suite exit code.",
 "C13": "Round 9: membership of a list value in a list of lists, four polarities.",
 "C14": "Round 9: documents whose keys are in another letter case than the rules in the verdict comparison of every spelling variant.",
 "C16": "Round 9: prefix-related names (with `-`, `_`, `0` after the shared part) for the file under test and its neighbours in `test --dir`.",
 "C17": "Round 9: parameter files named through symbolic links and a -i directory of links.",
 "C18": "Round 9: substring indices around 2^8, 2^15, 2^16, 2^31, 2^32 and 2^63, both signs (reference corrected from the documentation).",
 "C19": "Round 9: values that coincide under some normalisation (letter case, numeric spelling, Unicode composition, prefix, type) in all pairs and in triples.",
}
for _k, _v in ADDED6.items():
    _t = CHECKS[_k]
    CHECKS[_k] = (_t[0] + " " + _v, _t[1], _t[2])
PENDING_REASON = "check under construction in this round (design in DESIGN.md section 5); not claimed until its quick tier runs clean on the unchanged tree"
ALL = ["C%02d" % i for i in range(1, 20)]
m = {
  "version": 1,
  "setup_cmd": "./setup.sh",
  "hooks": {
    "guard": "guard_verif",
    "enable": "none needed: the harness links /repo/guard as a path dependency and drives public entry points (run_checks, commands::CfnGuard, and the repository's real main.rs compiled as a second binary target); the cfg name guard_verif is reserved and currently guards no source change",
    "baseline_off_cmd": "cd /repo && cargo test --workspace --no-fail-fast --offline",
    "source_commits": [],
    "add_only": True,
  },
  "engines": [{
    "name": "gmc", "path": "harness/", "serves_properties": sorted(CHECKS),
    "kind_free_text": "hand-rolled explicit-state bounded-exhaustive explorer over the real cfn_guard library and binary, with an independent reference interpreter (refsem) and differential/metamorphic oracles; every enumerated state is replayed on the implementation",
  }],
  "checks": [],
  "not_applicable": [],
  "notes": "Known findings: known_findings.json (status open = recorded, fixed = repaired by a fix: commit in /repo). Exit codes: 0 held, 1 VIOLATION, 2 machinery error.",
}
for cid in ALL:
    if cid in CHECKS:
        text, note, tech = CHECKS[cid]
        m["checks"].append({
            "property_id": cid,
            "quick_cmd": "./check %s --tier quick" % cid,
            "thorough_cmd": "./check %s --tier thorough" % cid,
            "evidence_file": "evidence/%s.json" % cid,
            "replay_cmd_template": "./check %s --replay {path}" % cid,
            "engine": "gmc",
            "level_claimed": {"category": MC, "text": text, "design_ref": "DESIGN.md section 5, %s" % cid},
            "level_note": note,
            "technique": tech,
        })
    else:
        m["not_applicable"].append({"property_id": cid, "reason": PENDING_REASON})
json.dump(m, open(os.path.join(HERE, "MANIFEST.json"), "w"), indent=1)
print("checks:", len(m["checks"]), "pending:", len(m["not_applicable"]))
