#!/usr/bin/env python3
"""Generates /verif/MANIFEST.json from the table below (single source of truth)."""
import json, os
HERE = os.path.dirname(os.path.dirname(os.path.abspath(__file__)))
MC = "model_checking"
# id -> (level text, level note, technique, design ref)
CHECKS = {
 "C01": ("Explicit-state bounded-exhaustive exploration: every (program, document) state of the stated finite universes (all single-clause programs over the query/operator/literal alphabets; composite programs by BFS over grammar productions) is enumerated, the reference interpreter's prediction is replayed on cfn_guard::run_checks and compared.",
         "Trusted base: refsem (doc-tagged rules transcribe docs/*.md, pin-tagged rules adopt pinned behaviour where the documentation is silent), the harness printer, small-scope alphabets (2 keys, 7 scalars, depth 2).",
         "explicit-state bounded-exhaustive enumeration of programs x documents against a reference interpreter; every trace replayed on the implementation"),
 "C13": ("Complete enumeration of a closed value universe: all ordered pairs of 40 values x six comparison operators x both polarities x prefix not, with the right-hand side as literal and as query, plus all range-bracket forms x bound pairs x values, list membership and a regex table; algebraic laws are checked on the implementation's own results and every literal-form result is compared with a native comparison kernel.",
         "Trusted base: native Rust comparisons (i64::cmp, f64::partial_cmp, byte-wise str cmp), a 200-line backtracking regex matcher, the universe of 40 values; list operands are checked against the pinned one-level flattening, not the scalar laws.",
         "exhaustive enumeration of value pairs x operators against algebraic laws and a native kernel"),
 "C03": ("Metamorphic exhaustive exploration, implementation against itself: for every positive clause of the single-clause universe (all unary and binary operators, all/some, literal and query right-hand sides) and every document, the clause, its prefix negation, its operator-level negation and the double negation are evaluated and related by the laws of the property (not c == c-bar, double negation, SKIP stays SKIP, single comparable value flips, ordering duals, not R, spellings).",
         "Trusted base: the reference selection + native kernel decide only the side condition 'single comparable value'; all compared statuses come from the implementation.",
         "exhaustive enumeration of clauses x documents with metamorphic negation laws on the implementation's own results"),
 "C02": ("Exhaustive enumeration of all CNF shapes (quick: <=2x3 and 3x2; thorough: all 60 879 shapes up to 3 lines x 3 alternatives) with leaves forced to PASS/FAIL/SKIP at eight aggregation sites plus the file level and the named-rule clause, compared with the closed-form combinator of the property; and a node-by-node audit of the verbose evaluation record of every composite program of the BFS universe (plus type blocks, parameterised rules, function lets, nested when/blocks) alongside its AST.",
         "Trusted base: the 30-line closed-form fold, the record parser, the harness AST used to align record children with lines; a leaf clause's own per-value aggregation is left to C01.",
         "exhaustive enumeration of CNF shapes x aggregation sites against a closed-form combinator, plus record audit of every explored program"),
 "C04": ("Differential exhaustive exploration, implementation against itself: for every base program of the BFS universe (plus a pool with lets at every scope, forward/backward and repeated named references, same-named definitions) every permutation (collections of <= 4 items) of lines, alternatives and rules, every repetition of a line/alternative and every duplication of a rule under a fresh name is applied (depth 1 everywhere, depth 2 on the smallest programs) and per-rule and file statuses are compared on every document.",
         "Collections of more than 4 items are not permuted (the property says 'sampled beyond'; no sampling is done here). Orderings that raise an evaluation error are counted, not compared, as the property allows. Key-capture syntax is not generated.",
         "exhaustive enumeration of permutation/duplication edges over a BFS program universe, differential oracle on the implementation"),
 "C15": ("Differential exhaustive exploration, implementation against itself: for every base program (BFS universe plus a literal-rich pool) and every occurrence of a literal or query (and every query prefix) in it, the occurrence is abstracted into a let at each legal scope (file, rule, enclosing block), with second references before/after, unused variables at every scope, a shadowing outer definition, and the inverse for parameterised rules with literal and query arguments; statuses of the original rules are compared on every document.",
         "The documented exception (emptiness test on a bare variable / filter result) is excluded. A disagreement is attributed to the recorded finding K-VAR only when the reference model of exactly that pinned behaviour predicts the observation.",
         "exhaustive enumeration of abstraction edges over a BFS program universe, differential oracle on the implementation"),
 "C06": ("Exhaustive enumeration of invocation states: every sequence of 1..2 (quick) / 1..3 (thorough) rules files over six kinds x every sequence of data files over four kinds x sixteen invocation modes (plain, verbose, print-json, structured json/yaml/junit/sarif, payload, stdin, directories, missing paths), and for `test` every pair of test-file kinds x rules kinds x formats x layouts; each state is executed through CfnGuard::execute in-process and a fixed fraction as a real child process of the repository's main.rs; the exit status must lie in the closed-form allowed set transcribed from the property.",
         "Trusted base: the closed-form allowed_exit function; the in-process seam (same code path as main.rs minus process::exit) cross-checked against the real binary on every 23rd (quick) / 4th (thorough) state.",
         "exhaustive enumeration of file-kind sequences x invocation modes against a closed-form exit-code reference"),
 "C09": ("Exhaustive exploration of (1..3 rules files with distinct rule names and a unique custom message on every clause, document) states: validate --structured -o json is executed in-process and the report is checked to partition the evaluated rule names by the statuses of the library's verbose record, to fold the file status from the partition, to equal the union of the single-file reports, and to list only checks whose message belongs to a FAILed check of that same rule; exit code checked against the file status.",
         "Trusted base: the JSON report extractor, the record walker collecting failed-check messages, the library record as the per-rule status baseline. Completeness of the list of checks is not required by the property and not checked.",
         "exhaustive enumeration of programs x documents x file combinations; report compared with the evaluation record"),
 "C07": ("Exhaustive cross product over a program/document pool: every (program, document) pair is rendered under 50 configurations (single-line summary x -v x -p x six --show-summary selections; -o json/yaml x summary x -v; structured json/yaml/junit/sarif via files, stdin and --payload; run_checks verbose and non-verbose); each rendering is parsed back by a dedicated extractor into the verdict components it exposes and compared with the library's verbose record; structured JSON/YAML must parse and denote the same data, JUnit must be well-formed with the pair's status as its mark, SARIF must have one result per failing check of the JSON report.",
         "Trusted base: the extractors in report.rs (console table, detail lines, verbose tree, embedded and structured JSON/YAML, JUnit via quick-xml, SARIF). Console detail lines are checked for soundness only. Documents are generic (not CloudFormation/Terraform shaped).",
         "exhaustive enumeration of programs x documents x output configurations x entry points, cross-rendering differential oracle"),
 "C12": ("Exhaustive exploration of batch states: every ordered selection of 1..2 (quick) / 1..3 (thorough) rules files from a pool of eight that deliberately share variable and rule names x every ordered selection of 1..3 / 1..4 documents from six x eight batch modes (explicit arguments, directories walked with -a and with -m where mtimes realise the reverse order, payload lists; plain, structured json, junit); the result of every (rules, data) pair extracted from the batch output is compared with that pair validated alone and the batch exit code must be the failure code iff some pair fails; likewise every ordered suite of 1..3 / 1..4 test cases against each case alone.",
         "Trusted base: the per-pair extractors for the console table, structured JSON and JUnit. Rule names shared across rules files are merged by the structured report, so that comparison is on sets.",
         "exhaustive enumeration of ordered file selections x batch modes, differential oracle batch vs singleton runs"),
 "C17": ("Exhaustive enumeration of every distribution of four top-level keys over the data file and 1..3 input-parameter files (data part possibly empty) in every order of the -i arguments, plus every overlapping variant (one key duplicated between any two sources, equal and different value), x five invocation modes (plain, structured, data on stdin, payload plain/structured); disjoint distributions must give exactly the verdicts and exit code of the pre-merged document (rules read data keys, parameter keys, both, keys-filters over the root and count(this.*)), overlapping ones an error exit with a message and no panic.",
         "Trusted base: the report extractors; the pre-merged document evaluated by the same tool is the reference (differential).",
         "exhaustive enumeration of key distributions x -i orders x overlap variants x modes, differential oracle against the pre-merged document"),
 "C16": ("Exhaustive exploration of (rules file, suite of 1..4 inputs, expectation assignment, format, layout) states: rules files from the BFS universe plus files defining the same rule name two and three times; all 4^k assignments of PASS / FAIL / SKIP / no expectation to the first k <= 3 rule names; plain, verbose, JSON, YAML and JUnit renderings; -r/-t and --dir layouts. The per-case passed / failed / unexpected sets, the evaluated status lists and the exit code reported by test are compared with the closed-form rule of the property applied to the per-definition statuses the library entry point (validate) gives on the same input, and all renderings are compared with that same expectation.",
         "Trusted base: the 15-line closed-form 'expectation met' rule, the plain / JSON / YAML / JUnit extractors of the test reporters, run_checks as the validate baseline.",
         "exhaustive enumeration of expectation assignments x inputs x formats x layouts against a closed-form rule over validate's statuses"),
 "C14": ("Exhaustive exploration of spelling variants: for every AST of a pool (rich hand-built ASTs touching every token class, all BFS programs of size <= 2 in thorough / a subset in quick, a subset of size 3) every token class of the printer alone (29 classes: keyword case per keyword, not/NOT/!, or/OR/|OR|, =/:=, quotes, .n/[n], leading this., indentation, blank lines, trailing spaces, CRLF, line breaks after or / inside lists / inside filters, end-of-line comments, comment lines, operator-level negation spelling), a comment at every inter-token slot, and every pair of classes; parse-tree --print-json with locations removed must equal the canonical spelling's, a rejected spelling is a violation, verdicts must agree on documents; type blocks are compared with their documented desugaring and bare clauses with an explicit default rule by verdict.",
         "Trusted base: the harness printer (emits only documented synonyms), the location-stripping normaliser (a leading This before a key is the only normalised difference).",
         "exhaustive enumeration of spelling/layout variants (deviation 1 and 2) per AST, parse-tree and verdict equality"),
 "C11": ("Exhaustive exploration of (typed document, serialisation layout, loader) states: documents of depth <= 2 over a scalar alphabet (keyword-looking / numeric-looking / unicode / quoted strings, boundary ints, floats, bools, null) in maps (both key orders), lists and nestings x 13 layouts (JSON compact / pretty, flow YAML and block YAML indent 2 / 4 in plain-where-safe, single and double quoting, quoted keys) x the three loaders (validate, test, run_checks); per state a literal-equality rule, one type probe per node and the value dumped by a deliberately failing root clause are compared with the source document; plus the complete table of 21 intrinsic tags x {scalar, sequence, nested tag} payload x {map value, list element, top level} x loader against the long form, and a rejection set (non-string keys, truncated, unterminated, empty, comment-only, tab-indented input).",
         "Trusted base: the harness YAML / JSON writers (strings that a YAML 1.1 / 1.2 / FromStr reader could type otherwise are always quoted), the report reader. Anchors / aliases, multi-line scalars and empty plain scalars are outside the property's stated serialisations.",
         "exhaustive enumeration of documents x serialisations x loaders with literal-equality, type-probe and value-dump oracles; exhaustive tag table"),
 "C10": ("Exhaustive exploration of (function-free program, document, layout) states: single-clause programs over the query alphabet with literal and query right-hand sides and query blocks, plus a subset of the composite BFS universe x documents x 29 layouts written by the harness's own position-tracking writer (JSON compact / pretty 2 / 4, flow one-line / wrapped, block YAML indent 2 / 4 x leading --- x comment lines x blank lines, single / double quoting, leading blank lines); for every check of validate --structured -o json each {path, value} pair must resolve in the source document to exactly that value, an unresolved check's traversed_to must be a point where an independent walk of the query gets stuck, and every Path=<p>[L:l,C:c] naming a scalar must carry the line / column at which the writer put that scalar.",
         "Trusted base: the position-tracking writer, the JSON-pointer resolver, the independent stuck-point walk (uses the reference interpreter only to evaluate filters). Quick runs a rotating third of the layouts per (program, document) pair.",
         "exhaustive enumeration of programs x documents x layouts; reported pointers, values and positions checked against the generated source text"),
 "C18": ("Exhaustive enumeration of (function, argument form, argument values) states: every unary built-in x {literal, query, variable, [*] over homogeneous and mixed lists, list with unresolved members, empty filtered selection, nested call} x an alphabet of 23 strings (unicode, numeric, boolean-looking, percent-encoded valid / invalid, JSON texts) and 9 non-string values; substring over all index pairs of strings with 1..4-byte characters plus odd and query-valued indices; join over all 0..3-element selections x 4 delimiters plus non-string / unresolved members and query delimiters; regex_replace over a pattern x string table; count over the whole query alphabet x documents; parse_int(parse_string(n)) over boundary ints; json_parse round trip of every document; function results used in later clauses. The yielded values are dumped by a deliberately failing clause and compared in order with an independent implementation; errors must occur exactly where the documentation says.",
         "Trusted base: reffn.rs (std string methods, hand-written percent decoder, serde_json, the mini regex matcher). [pin] regex_replace yields the concatenated replacements per match; substring on non-ASCII strings and json_parse of non-JSON text are only required not to crash.",
         "exhaustive enumeration of functions x argument forms x values against an independent reference implementation"),
}
PENDING_REASON = "check under construction in this round (design in DESIGN.md section 5); not claimed until its quick tier runs clean on the unchanged tree"
ALL = ["C%02d" % i for i in range(1, 20)]
m = {
  "version": 1,
  "setup_cmd": "./setup.sh",
  "hooks": {
    "guard": "guard_verif",
    "enable": "none needed: the harness links /repo/guard as a path dependency and drives public entry points (run_checks, commands::CfnGuard, and the repository's real main.rs compiled as a second binary target); the cfg name guard_verif is reserved and currently guards no source change",
    "baseline_off_cmd": "cd /repo && cargo test --workspace --no-fail-fast --offline",
    "source_commits": [],
    "add_only": True,
  },
  "engines": [{
    "name": "gmc", "path": "harness/", "serves_properties": sorted(CHECKS),
    "kind_free_text": "hand-rolled explicit-state bounded-exhaustive explorer over the real cfn_guard library and binary, with an independent reference interpreter (refsem) and differential/metamorphic oracles; every enumerated state is replayed on the implementation",
  }],
  "checks": [],
  "not_applicable": [],
  "notes": "Known findings: known_findings.json (status open = recorded, fixed = repaired by a fix: commit in /repo). Exit codes: 0 held, 1 VIOLATION, 2 machinery error.",
}
for cid in ALL:
    if cid in CHECKS:
        text, note, tech = CHECKS[cid]
        m["checks"].append({
            "property_id": cid,
            "quick_cmd": "./check %s --tier quick" % cid,
            "thorough_cmd": "./check %s --tier thorough" % cid,
            "evidence_file": "evidence/%s.json" % cid,
            "replay_cmd_template": "./check %s --replay {path}" % cid,
            "engine": "gmc",
            "level_claimed": {"category": MC, "text": text, "design_ref": "DESIGN.md section 5, %s" % cid},
            "level_note": note,
            "technique": tech,
        })
    else:
        m["not_applicable"].append({"property_id": cid, "reason": PENDING_REASON})
json.dump(m, open(os.path.join(HERE, "MANIFEST.json"), "w"), indent=1)
print("checks:", len(m["checks"]), "pending:", len(m["not_applicable"]))
