#!/bin/bash
# confirm_seed.sh <seed-id> <worktree> : independently confirms a seeded defect produced by a sub-agent:
#  unchanged tree: demo exits 0;  with patch: compiles, the repository suite fails exactly the 15 baseline tests, demo exits 1.
# On success copies patch.diff, demo.sh, notes.md to /verif/seeded/<id>/ and writes confirm.log there.
set -u
ID=$1; WT=$2; SRC=/tmp/seed-out/$ID; OUT=/verif/seeded/$ID
J=${J:-6}
mkdir -p $OUT; LOG=$OUT/confirm.log; : > $LOG
cd $WT || exit 2
git checkout -q -- . 2>>$LOG
echo "== unchanged: build + demo" >>$LOG
cargo build --offline -j $J -p cfn-guard >>$LOG 2>&1 || { echo "BUILD-FAIL(unchanged)" | tee -a $LOG; exit 1; }
DEMO=$SRC/demo.sh
if [ -f "$DEMO" ]; then bash $DEMO $WT/target/debug/cfn-guard >$OUT/demo.unchanged.out 2>&1; D0=$?; else D0=na; fi
echo "demo(unchanged) exit=$D0" | tee -a $LOG
git apply $SRC/patch.diff 2>>$LOG || { echo "PATCH-DOES-NOT-APPLY" | tee -a $LOG; exit 1; }
echo "== patched: test suite" >>$LOG
cargo test --workspace --no-fail-fast --offline -j $J > $OUT/suite.patched.out 2>&1
FAILED=$(grep -E "^    [a-z_0-9]+::[a-zA-Z_0-9:]+$" $OUT/suite.patched.out | sed 's/^ *//' | sort -u)
NF=$(echo "$FAILED" | grep -c . )
NOTBASE=$(echo "$FAILED" | grep -v -E "^validate_tests::(test_single_data_file_single_rules_file::case_[123]|test_single_data_file_single_rules_file_compliant|test_single_data_file_single_rules_file_verbose::case_[1234]|test_structured_output::case_[123]|test_updated_summary_output|test_validate_with_failing_complex_rule|test_validate_with_failing_count_and_compare_output|test_validate_with_failing_join_and_compare_output)$" | grep -c .)
PASSED=$(grep -E "^test result:" $OUT/suite.patched.out | sed -E 's/.* ([0-9]+) passed.*/\1/' | paste -sd+ | bc)
echo "suite(patched): passed=$PASSED failed=$NF not-in-baseline=$NOTBASE" | tee -a $LOG
grep -q "error\[E" $OUT/suite.patched.out && { echo "COMPILE-ERROR(patched)" | tee -a $LOG; git checkout -q -- .; exit 1; }
cargo build --offline -j $J -p cfn-guard >>$LOG 2>&1
if [ -f "$DEMO" ]; then bash $DEMO $WT/target/debug/cfn-guard >$OUT/demo.patched.out 2>&1; D1=$?; else D1=na; fi
echo "demo(patched) exit=$D1" | tee -a $LOG
git checkout -q -- .
cp $SRC/patch.diff $OUT/; [ -f $SRC/demo.sh ] && cp $SRC/demo.sh $OUT/; [ -f $SRC/notes.md ] && cp $SRC/notes.md $OUT/; [ -f $SRC/demo_test.rs ] && cp $SRC/demo_test.rs $OUT/
rm -f $OUT/suite.patched.out
if [ "$NF" = "15" ] && [ "$NOTBASE" = "0" ] && [ "$D0" = "0" ] && [ "$D1" = "1" ]; then echo "CONFIRMED $ID" | tee -a $LOG; exit 0; else echo "NOT-CONFIRMED $ID" | tee -a $LOG; exit 1; fi
