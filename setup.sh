#!/bin/bash
# Run once after a fresh restore (offline): builds the harness and the interposer from files on disk.
set -e
HERE="$(cd "$(dirname "$0")" && pwd)"
cd "$HERE"
mkdir -p target evidence replays
gcc -O2 -shared -fPIC -o interpose/getrandom.so interpose/getrandom.c -ldl
[ "${1:-}" = "interpose-only" ] && exit 0
export CARGO_NET_OFFLINE=true
export CARGO_TARGET_DIR="$HERE/target"
cd harness
./gen_cargo.sh
cargo build --profile verif --offline
